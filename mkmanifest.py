#!/usr/bin/env python3
"""Generates MANIFEST.json from the table below (kept as a script so that the manifest stays consistent)."""
import json, subprocess

CLAIMED = {
 # id: (engine, category, technique, text, note, design_ref)
 "C11": ("ovf-codec", "exploration",
         "model-based property testing (proptest histories vs explicit set model) + exhaustive small-scope enumeration; the same model applied end to end with a reference client against the real server and a reference server against the real client",
         "Generated packet-ID histories (boundary-biased, up to 2000 steps) are run through the real PacketWindowFilter and an explicit {max,set} model of the statement, comparing every accept/refuse decision; all sequences up to length 3 (quick) / 4 (thorough) over a 36-value boundary alphabet are enumerated exhaustively. System half: a reference Shadowsocks 2022 client sends generated id histories to the real server (the scripted target must receive exactly the model-accepted datagrams, each once, and fresh ids of the same session must still arrive afterwards); a reference server answers the real client with generated reply-id histories (the application must receive exactly the model-accepted replies and later fresh ones). Exploration: agreement on everything generated, not a proof for all 2^64 histories.",
         "Trusted: the explicit model (20 lines) encodes the property statement; proptest RNG.", "DESIGN.md 5/C11"),
}

CLAIMED["C03"] = ("ovf-codec", "exploration",
  "differential property testing against an independent reference implementation (proptest), both directions",
  "Generated (credential, cipher, option mask, address, write script) cases: bytes from the real encoders are decoded by an independent reference implementation of Shadowsocks AEAD/2022 (+identity headers), VMess AEAD and Trojan configured only with the password strings, with sender limits enforced; reference-built streams and datagrams are decoded by the real decoders; address and payload must match in both directions, TCP and UDP. identity-chain: client passwords with 1..3 identity keys in front of the user key (SIP023 relay chains), streams and datagrams: the real client encodes and the reference walks the chain relay by relay (each identity header must name the next key; the body must open under the user key and carry the given address and bytes). Exploration of the input space, relative to the reference.",
  "Trusted: the reference implementation (written from the specifications, anchored by third-party known-answer vectors re-run at start-up), RustCrypto primitives, the clock hook.", "DESIGN.md 5/C03")

CLAIMED["C04"] = ("ovf-codec", "exploration",
  "metamorphic property testing (same stream, generated segmentation => same items) through the real framed/WebSocket adapters at quiescence, plus exhaustive single-cut enumeration",
  "Reference-built valid streams of every protocol/cipher/direction/VMess mask are delivered through the real tokio_util FramedRead and the real WebSocketFramed in generated segmentations (and only a prefix of them), on a paused single-thread runtime; at quiescence the released payload must equal exactly the complete frames delivered, without error, with the target-carrying item first. Every single cut position of one short stream per decoder configuration is enumerated. Datagram-in-stream framings (VMess UDP, Trojan UDP) likewise. Exploration of the 2^(n-1) segmentations, exhaustive only for single cuts of the enumerated streams.",
  "Trusted: reference encoder (tied to the implementation by C03), tokio's paused-clock auto-advance as the definition of quiescence, tokio duplex + tokio-websockets as the message transport.", "DESIGN.md 5/C04")

CLAIMED["C05"] = ("ovf-codec", "exploration",
  "mutation-based metamorphic property testing (tamper a reference-built stream, released plaintext must be a prefix cut before the tamper point), exhaustive single-bit flips and truncations of enumerated streams",
  "Reference-built encrypted streams and datagrams with known plaintext and unit boundaries are mutated (bit flips, truncation, frame delete/dup/swap, garbage frames, edits, insertions, reflection, cross-session and cross-direction splices) and delivered through the real FramedRead/WebSocketFramed with the server's error-skipping consumer; released bytes must be a prefix of the sender's plaintext no longer than the frames complete before the first changed authenticated byte; tampered or reflected datagrams must yield no item. Exhaustive for every byte position / truncation point of one 3-frame stream per decoder configuration; exploration otherwise.",
  "Trusted: reference encoder and its unit table; RustCrypto AEADs. Trojan is out of scope (not an encrypted protocol).", "DESIGN.md 5/C05")

CLAIMED["C06"] = ("ovf-codec", "exploration",
  "negative property testing: generated non-credentialed inputs and key near-misses (built with an independent reference encoder) against the real server decoders and against the running server process (scripted targets must never be contacted); differential user-separation check with the reference decoder, at codec level and between users of the running UDP server that share a client session id",
  "Server decoders built from generated credentials and user tables are fed random bytes, reference-built valid handshakes under other / one-bit-different keys, other protocols' handshakes, handshakes truncated before the proof, identity-header and auth-id near-misses; no dial item (ConnectTcp / RelayUdp / decoded datagram) may come out. For every user of generated tables the reply must open under that user's key and under no other key. System half (real binaries): running-server - generated sequences of intruders (another credential of the same protocol, an unregistered user behind the right server key, the server key alone, random bytes, a valid handshake cut before the proof) talk to the running server over TCP and, for Shadowsocks, UDP; the scripted target each of them names must never be contacted, while a reference client that holds the credential is served before and after. shared-session-id - 2..4 registered users of a running Shadowsocks 2022 UDP server use the same client session id from their own sockets in a generated interleaving of bursts; every datagram that arrives at a user's socket must open under that user's key and answer a datagram that user sent, and every user must be served. Exploration: a sampled negative space, not a cryptographic proof.",
  "Trusted: reference encoder for building near-miss handshakes; AEAD/hash primitives.", "DESIGN.md 5/C06")

CLAIMED["C07"] = ("ovf-codec", "exploration",
  "structure-aware fuzzing: proptest-generated raw / valid-prefix+raw / mutated-valid inputs and reference-sealed malformed plaintexts into every network-facing decoder with panic capture; exhaustive tiny inputs (no coverage-guided tier was built)",
  "Arbitrary bytes x segmentation x ending are fed with FramedRead's calling convention to every network-facing decoder of server, client and local side; the sealed-malformed family seals generated malformed plaintexts under the correct key to reach the parsing behind authentication. Oracle: no panic, valid UTF-8 domain names, result is Err/None/item. Exhaustive for inputs of length <= 1, a grid of length 2 and all prefixes of one valid message per decoder. Exploration: absence of crashes is not proven.",
  "Trusted: panic hook + catch_unwind as crash detector (aborts would kill the check: reported as exit 2), reference sealing.", "DESIGN.md 5/C07")

CLAIMED["C10"] = ("ovf-codec", "exploration",
  "model-based property testing under a controlled clock: reference-built handshakes with one generated field each vs the acceptance model; replay histories vs a set model; barrier-released concurrent copies; real-time expiry probes; generated replay histories across the TCP and QUIC listeners of the running server (raw reference peers, per-request scripted targets)",
  "Reference-built 2022 requests/responses/datagrams and VMess auth-ids/responses with generated timestamps (both sides of the 30 s / 120 s boundaries, extremes), type bytes, request-salt echoes, response bytes and keys are presented to the real decoders under a pinned clock; the accept/reject decision must equal the model in the property statement. Histories of repeated presentations at moving clock offsets are compared with a 'set of accepted salts' model; K concurrently presented copies must yield exactly one acceptance; real-time replays 0.15 s and 1.2 s after acceptance (5 s and 31 s more in the thorough tier). System half (real server binary, hooks off): cross-listener-replay - a 2022 entry in mode tcp_and_quic is started and a generated history presents up to three reference-built valid requests, each possibly several times, on either listener (raw TCP connection / raw QUIC stream); each request names its own scripted target, which must be dialled for the first presentation and never again. Exploration.",
  "Trusted: clock hook (pins aead_2022::now / vmess::now per thread), reference encoder. The machine's scheduler decides which interleavings the concurrent sub-check sees.", "DESIGN.md 5/C10")

CLAIMED["C12"] = ("ovf-codec", "exploration",
  "history-based property testing: an independent decoder recovers every (key, nonce) pair from what the real encoders emit over generated session histories; duplicates are violations; cross-process freshness and a bias screen",
  "Generated histories of sessions and writes (both directions, TCP and UDP, up to >256 chunks) are encoded by the real codecs; the reference decoder only opens a unit if the implementation used exactly the expected (key, nonce), so a successful decode yields the multiset of pairs, which must be duplicate-free; per-session random fields (salts, session ids, VMess key, IV, connection nonce, auth-id) must be pairwise distinct; packet ids strictly increase and stop at exhaustion (hook starts a session below u64::MAX). Exploration; unpredictability is not claimed.",
  "Trusted: reference decoder's key/nonce derivations; every compared random tuple carries >= 64 random bits so a chance collision in a run is < 1e-10.", "DESIGN.md 5/C12")

CLAIMED["C13"] = ("ovf-codec", "exploration",
  "grammar-based differential property testing of the authority extraction against an independent RFC 3986 extractor; scripted-application testing of the real handshake on loopback sockets with generated segmentation and early payload",
  "Level 1: request targets generated from an RFC 3986/9112 grammar are parsed by the real extraction and by an independent extractor, which must agree on host, port, kind and refusal. Level 2: the real get_request_addr runs on a real loopback connection against a scripted application that sends SOCKS5/CONNECT/absolute-URI handshakes in generated segmentations with optional early tunnel payload; returned target, protocol replies and the exact bytes left for the tunnel are checked; malformed and unsupported requests must be refused. Exploration.",
  "Trusted: independent extractor (40 lines), reference SOCKS5 parsers; loopback TCP. Deadline-based outcomes (5 s for a microsecond event) are re-run in isolation before being reported.", "DESIGN.md 5/C13")

CLAIMED["C14"] = ("ovf-codec", "exploration",
  "round-trip property testing of both address encodings against reference byte layouts, plus end-to-end transmission of every address the real local decoders accept through each real client codec and server decoder",
  "decode(encode(a) ++ tail) == (a, tail) for generated representable addresses in the SOCKS5-style and VMess-style encodings (bytes compared with an independent encoder; length helpers must agree). Addresses obtained from the real SOCKS5 / SOCKS5-UDP decoders and the real HTTP authority extraction for names of 0..1024 bytes are pushed through every real client codec's first encode and the real server decoder: identical address and payload, or refusal before any byte is produced. Exploration.",
  "Trusted: reference address encoders (30 lines).", "DESIGN.md 5/C14")

CLAIMED["C01"] = ("ovf-system", "exploration",
  "end-to-end property testing of the real client and server binaries over loopback: generated traffic scripts (proptest) against a byte-exact keystream oracle at a scripted application and a scripted target; every README (protocol, cipher, transport) combination in every run",
  "For each case a fresh octo-squirrel-server and octo-squirrel-client (release build of /repo's working tree, hooks off) are started with a generated configuration (protocol, cipher, transport tcp/tls/ws/wss/quic, user table, worker threads). 1..6 (quick) / 1..24 (thorough) concurrent flows each complete a SOCKS5-IPv4 / SOCKS5-domain / HTTP CONNECT / absolute-URI HTTP handshake and run a generated script of application writes, target writes, pauses and syncs (1 byte .. 256 KiB quick, 4 MiB thorough, protocol edge sizes), optionally through a tap that re-cuts the client-server byte stream. Oracle: the flow's own target port is dialled exactly once; every byte received at either end equals the position-dependent keystream the other end wrote (checked on the fly), nothing extra; when the target answers and closes the application reads the whole answer and then end-of-stream; when the application closes the target reads everything and then end-of-stream; both processes alive without a panic. All 50 README combinations are exercised in every run (sub-check matrix), plus generated combinations. A second family, cold one-shot uploads (handshake, up to 1.5 MiB quick / 6 MiB thorough, immediate close(), optionally a slow target), runs on all 50 combinations too: the target must read exactly the uploaded bytes and then end-of-stream. Closing steps also come with a slow consumer (the receiving side does not read for up to 250 ms while the last bytes are written and the writer closes). late-reader: the target takes the request, answers 9..300 KB and closes while the application, with a 2 KiB receive buffer so that the answer waits in the client's socket, does not read for 3..14.5 s - longer than every timer of the relay (10 s grace after the first clean end, 2 s drain of the local socket); it must then still read the complete answer and end-of-stream (one combination per transport in the quick tier, all 50 in the thorough tier). Exploration of scripts and of the interleavings the machine produces.",
  "Trusted: the kernel's loopback TCP, the harness's reader threads and keystream. Deadline-decided failures (20 s) are re-run twice on fresh clusters before being reported; wrong bytes, extra dials and dead processes are reported at once.", "DESIGN.md 5/C01")

CLAIMED["C02"] = ("ovf-system", "exploration",
  "end-to-end property testing of the real binaries over loopback UDP: generated histories of datagrams from several scripted applications to several scripted echo targets, multiset / ownership / label oracle; plus metamorphic segmentation testing of the datagram-in-stream framings",
  "For each case a fresh client and server are started for one README UDP row (Shadowsocks x 7 ciphers, with a user table for the 2022 AES ciphers; VMess x 2 ciphers x tcp/tls/ws/wss/quic; Trojan x tls/wss/quic). 1..4 application sockets send a generated history of SOCKS5-UDP datagrams (sizes 0..40000 quick / 65000 thorough with protocol edges, and the largest sizes a local application can send at all, 65300..65497; targets addressed by IPv4 or by name) to 1..3 echo targets that answer with a reply naming themselves and repeating the payload. Oracle: every datagram a target receives equals one addressed to it, at most as often as it was sent (never truncated, merged, altered, duplicated or misdelivered); every reply an application receives is a well-formed SOCKS5-UDP datagram labelled with the replying target, answers a datagram that application sent, at most once; a datagram of at most 32 KiB must be answered within three paced attempts. All 22 UDP configurations are exercised in every run. empty-replies (all 22 rows in every run): a target that answers with empty datagrams must see them delivered with its label, at most once each, and a later ordinary datagram is still answered (VMess, which has no representation for an empty datagram, is only required to keep the session working). The VMess and Trojan stream framings of datagrams are additionally decoded through FramedRead / WebSocketFramed under generated segmentations (count, boundaries and bytes preserved).",
  "Trusted: loopback UDP does not lose paced datagrams (loss alone is never a violation; non-delivery is confirmed on three fresh clusters); reference encoder for the framing sub-check.", "DESIGN.md 5/C02")

CLAIMED["C08"] = ("ovf-system", "fault_enumeration",
  "fault injection against the real binaries over loopback: every fault of a 20-entry catalogue alone on 14 representative configurations (exhaustive), all ordered pairs (thorough) and generated sequences up to length 4 (proptest), each followed by canary flows that must succeed",
  "Catalogue: stalled / garbage / partial-TLS-hello / half-WebSocket-upgrade / connect-close peers on the server's listener; stalled / garbage / partial-SOCKS5 applications on the client's listener; unresolvable and refused targets; application and target resets mid-flow; junk and replayed datagrams to the server, datagrams to unresolvable targets, malformed local SOCKS5-UDP datagrams, junk to the client's outbound sockets; temporary descriptor exhaustion (also walked through a flow: every descriptor taken, released one at a time, a whole flow attempted after each release, on freshly started processes), 640 failed handshakes in a row on either listener, of server and of client (RLIMIT_NOFILE=80, connections opened until the limit is reached, new UDP sessions arriving meanwhile, then released). Oracle after each sequence, with the hostile connections still open: a fresh byte-exact TCP echo through the same client and server succeeds; where UDP is configured a fresh application's datagram and a datagram of a session that existed before the faults are echoed; both processes alive, no panic, listeners and UDP sockets still bound (/proc). Each fault reports whether it took effect.",
  "Trusted: /proc for descriptor and socket observation; 10 s canary deadline, confirmed on two more fresh clusters. Black-holed addresses are not in the catalogue (no dropping route in the sandbox).", "DESIGN.md 5/C08")

CLAIMED["C15"] = ("ovf-system", "fault_enumeration",
  "fault injection on flow endings against the real binaries over loopback: every ending of an 11-entry catalogue on every transport (exhaustive), plus generated batches of concurrently or sequentially ending flows (proptest); oracle on delivery, end-of-stream and /proc descriptor counts",
  "Each case starts a fresh client and server, runs a warm-up flow, records the idle descriptor baseline of both processes (/proc/<pid>/fd), then runs a batch of 1..10 (quick) / 1..32 (thorough) flows, each moving bytes in both directions and then ending in one way: application closes (clean / with data in flight towards it / while the target keeps its own socket open), target closes (same three), application resets, target resets, the client-server link is cut by a tap, the target refuses, the target name does not resolve. Oracle: a clean close delivers everything the closer wrote (byte-exact) and the other side then reads end-of-stream; for abortive endings the other side observes end-of-stream or a reset within the deadline; after the batch, with lingering peer sockets still held open by the harness, the descriptor counts of client and server return to the baseline. Every (transport x ending) pair is exercised in every run.",
  "Trusted: /proc descriptor counts; 12 s deadline for 'promptly' and 20 s for the baseline, each confirmed on two more fresh clusters before a violation is reported.", "DESIGN.md 5/C15")

CLAIMED["C16"] = ("ovf-system", "exploration",
  "configuration-space testing of the real binaries' start-up: exhaustive over every documented mode and cipher name (sockets observed in /proc, served by real and reference peers), generated near-miss / random names and wrong-length keys (proptest) that must be refused",
  "listeners: every documented Shadowsocks server mode (tcp, udp, tcp_and_udp, quic, tcp_and_quic, absent), VMess/Trojan with and without a quic section, and every client mode are started; the sockets held on the configured port must be exactly the documented set and must serve (TCP and QUIC through a real client's byte-exact echo, UDP through a reference datagram client). names: for each documented cipher name (7 + alias for Shadowsocks, 2 + alias for VMess, with and without a user table) a reference client configured only with the same name and password string must be served by the real server over TCP and over UDP (classic ciphers: ordinary password, EVP_BytesToKey on both paths), and what the real client sends must decode at a reference server. refusals: generated undocumented cipher / protocol / mode strings (case, '_' vs '-', truncation, one changed or added character, related names, random), 2022 keys whose decoded length is 0..64 bytes but not the cipher's (server key, identity key, user key, on server and client), server quic modes without a quic section, missing certificate files: the process must end or stay without any socket on its port, having printed an error, never panic.",
  "Trusted: /proc socket tables; the reference implementation as the definition of 'documented algorithm and key'. Exit status 0 after a logged error counts as a refusal. VMess with a cipher name outside its README column is not asserted.", "DESIGN.md 5/C16")

CLAIMED["C09"] = ("ovf-codec", "exploration",
  "differential stress testing: operations that succeed alone are re-run by 2..16 barrier-released threads on the shared state (process-wide cipher cache, per-server salt cache, shared contexts) and must give the same per-operation results; harness-owned interleavings (proptest-generated schedules advance several TCP flows and UDP sessions one codec call at a time on one shared context, reproducible and shrinkable, each deviating session re-run alone); K concurrently presented identical handshakes must yield exactly one acceptance; end-to-end runs of 8..64 concurrent scripted flows plus UDP histories through the real binaries",
  "udp-codec-stress: every thread owns a client UDP session codec and a server codec (all Shadowsocks ciphers, with and without users) and performs request/reply exchanges whose plaintext, address and acceptance must equal the run-alone result, while all threads hammer the process-wide cipher cache. tcp-shared-context: threads run whole request/response round trips with codecs cloned from one shared client context and one shared server context (all protocols). interleaved-steps: 2..6 (quick) / 2..10 (thorough) TCP flows and Shadowsocks UDP sessions of generated users share one server context, one datagram codec and per user one client context; a generated schedule decides which session makes the next call (client encodes a write, server reads a generated segment, server encodes an answer, client reads a segment); each session must observe exactly its own target, upload and answer, and a session that deviates is re-run alone with the same calls before the deviation is attributed to sharing. concurrent-replay: K threads present the same valid 2022 request to one server context through a barrier; exactly one acceptance. many-flows: 8..32 (quick) / 16..64 (thorough) concurrent generated TCP flows with per-flow keystreams on 2..16 worker threads through one client/server pair, and generated UDP histories of 4 applications x 3 targets; every flow must be byte-exact and every datagram owned correctly. The thread-level sub-checks explore the interleavings the machine produces (the harness does not own the thread schedule; no sanitizer build is used); interleaved-steps owns the order of codec calls but not what happens inside one call.",
  "Trusted: Instant timestamps only label overlap, never decide; the oracles of C01/C02/C10 are reused for the system and replay parts.", "DESIGN.md 5/C09, 9.4")


# additions of the third build session, appended to the level text
EXTRA = {
 "C01": " Further scenario families on one combination per transport in the quick tier and on all 50 in the thorough tier: duplex-bulk (the application writes 14 MiB before it reads anything while the target streams 9 MiB from the start), late first byte (the application is silent for 6.5 s / 11 s between the local handshake and its first byte), answers during an upload to an application with a small receive buffer.",
 "C02": " session-owner: a reference client's 2022 session whose datagram is re-sent as a copy from another socket; the (late) replies must stay with the client that opened the session.",
 "C05": " The tampered stream reaches the decoder one frame region per read, whole in one read, or with regions coalesced in pairs.",
 "C07": " Further input shapes: valid streams with well-formed multi-byte UTF-8 sequences spliced in, and HTTP targets with host names of 200..1000 bytes made of multi-byte characters in every alignment.",
 "C08": " The catalogue also holds 640 failed handshakes in a row on either listener, 200 silent connections held open on the server's listener, descriptor starvation walked through a flow on freshly started processes, and junk to the outbound sockets of nine client bindings.",
 "C09": " In interleaved-steps 2022 UDP sessions may be driven by the reference client with a chosen session id shared between users; the server must attribute every datagram to the user whose key sealed it.",
 "C10": " Also: 2022 requests split behind the fixed header across two reads with the clock moving in between, VMess response headers of 0..8 bytes, and the datagram rules probed on sessions that are already in use.",
 "C11": " The history generator has in-order ids, runs of up to 140 ids and ring-alias ids (an earlier id plus one or two laps of 8192); in the system half part of the history arrives from a second source address.",
 "C12": " Also: replies from a restarted server session inside udp-history, freshness across six threads of one process, per-datagram salts and XChaCha nonces.",
 "C15": " Further endings: a one-shot upload towards a target that comes for it 12.5 s later, and the server / the client process killed with flows open (QUIC is given its 30 s idle time-out plus margin).",
 "C16": " refusals also covers shadowsocks entries without any cipher field.",
}

PENDING = {}

# sub-checks that are also libFuzzer targets (harness/src/props/mod.rs fuzz_plans)
FUZZ = {
 "C02": "dgram-cuts", "C03": "tcp-impl-to-ref, tcp-ref-to-impl, udp-ss, udp-in-stream", "C04": "seg-cuts, dgram-cuts",
 "C05": "stream-tamper, reflect-splice, dgram-tamper", "C06": "no-credential, user-separation, raw decoder input",
 "C07": "raw-bytes, sealed-malformed, http-target-strings, raw decoder input", "C10": "handshake-fields, replay-history",
 "C11": "filter-model, client-reply-sessions", "C12": "tcp-history, udp-history", "C13": "http-target",
 "C14": "codec-roundtrip, accepted-address-transmission",
}

def main():
    props = [json.loads(l) for l in open('/verif/properties.jsonl')]
    hooks_commits = subprocess.run(['git','-C','/repo','log','--format=%H %s'],capture_output=True,text=True).stdout.splitlines()
    hook_shas = [l.split()[0] for l in hooks_commits if ' verif hook' in l]
    checks = []
    na = []
    for p in props:
        i = p['id']
        if i in CLAIMED:
            eng, cat, tech, text, note, ref = CLAIMED[i]
            text += EXTRA.get(i, "")
            if i in FUZZ:
                tech += "; coverage-guided tier: libFuzzer (AddressSanitizer, debug assertions, overflow checks) drives the same generators and oracles through a byte-stream bridge (" + FUZZ[i] + "), fixed-run campaigns in the thorough tier, committed corpus replayed in every run"
                text += " Coverage-guided tier (thorough): the fuzzer's bytes are the random stream of the sub-check's own proptest strategy (vendored proptest, PassThrough generator), so every libFuzzer input is a generated case judged by the same oracle; a failing input is shrunk through the strategy and reported with a replay file; time-outs / out-of-memory end the run as inconclusive (exit 2)."
            checks.append({
                "property_id": i,
                "quick_cmd": f"./run.sh {i} quick",
                "thorough_cmd": f"./run.sh {i} thorough",
                "evidence_file": f"/verif/evidence/{i}.json",
                "replay_cmd_template": "./run.sh replay {path}",
                "engine": eng,
                "level_claimed": {"category": cat, "text": text, "design_ref": ref},
                "level_note": note,
                "technique": tech,
            })
        else:
            na.append({"property_id": i, "reason": PENDING.get(i, "check not built yet in this snapshot of /verif (work in progress; the design in DESIGN.md claims it)")})
    m = {
        "version": 1,
        "setup_cmd": "./run.sh setup",
        "hooks": {
            "guard": "--cfg octo_squirrel_verif",
            "enable": "RUSTFLAGS=\"--cfg octo_squirrel_verif\" for the harness build (target dir /verif/target/hooks-on); product binaries for the system engine are built with the guard OFF (target dir /verif/target/product)",
            "baseline_off_cmd": "cd /repo && cargo test --workspace --no-fail-fast --offline",
            "source_commits": hook_shas,
            "add_only": True,
        },
        "engines": [
            {"name": "ovf-codec", "path": "/verif/harness", "serves_properties": ["C02","C03","C04","C05","C06","C07","C09","C10","C11","C12","C13","C14"],
             "kind_free_text": "in-process property-based testing (proptest) of the real Encoder/Decoder objects, framed adapters, handshake code and packet filter against an independent reference implementation and explicit models"},
            {"name": "ovf-system", "path": "/verif/harness", "serves_properties": ["C01","C02","C06","C08","C09","C10","C11","C12","C15","C16"],
             "kind_free_text": "generated scenarios against the real client/server binaries over loopback with scripted applications, targets, reference peers and injected faults"},
            {"name": "ovf-fuzz", "path": "/verif/fuzz", "serves_properties": sorted(FUZZ.keys()),
             "kind_free_text": "cargo-fuzz / libFuzzer targets (nightly, AddressSanitizer, debug assertions): fz_sub decodes the fuzzer's bytes into a case of one in-process sub-check through that sub-check's own proptest strategy and runs its oracle; fz_raw feeds raw bytes to every network-facing decoder; campaigns run in the thorough tier, corpora under /verif/corpus are replayed in every run"},
        ],
        "checks": checks,
        "not_applicable": na,
        "notes": "All commands are offline; run.sh rebuilds the harness (hooks on) and the product binaries (hooks off) incrementally from /repo's working tree before every check. Exit 2 = inconclusive (build failure, watchdog), never reported as a violation.",
    }
    json.dump(m, open('/verif/MANIFEST.json','w'), indent=1)
    print("claimed", [c['property_id'] for c in checks], "pending", [n['property_id'] for n in na])

main()
