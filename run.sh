#!/bin/bash
# Single entry point for every MANIFEST command.
#   ./run.sh setup                      build everything (offline)
#   ./run.sh <ID> <quick|thorough>      run one property check
#   ./run.sh replay <path>              re-run one saved case
set -u
VERIF="$(cd "$(dirname "${BASH_SOURCE[0]}")" && pwd)"
REPO="${VERIF_REPO:-/repo}"
export CARGO_NET_OFFLINE=true
export VERIF_ROOT="$VERIF"
HOOKS_TARGET="$VERIF/target/hooks-on"
PRODUCT_TARGET="$VERIF/target/product"
OVF="$HOOKS_TARGET/release/ovf"

log() { echo "[run.sh] $*" >&2; }

build_harness() {
    # Engine A + driver: harness crate with path deps on /repo, hooks ON
    cp "$REPO/Cargo.lock" "$VERIF/harness/Cargo.lock.repo" 2>/dev/null || true
    if [ ! -f "$VERIF/harness/Cargo.lock" ]; then cp "$REPO/Cargo.lock" "$VERIF/harness/Cargo.lock"; fi
    (cd "$VERIF/harness" && RUSTFLAGS="--cfg octo_squirrel_verif" cargo build --release --offline --target-dir "$HOOKS_TARGET" 2>"$VERIF/target/harness-build.log")
    local rc=$?
    if [ $rc -ne 0 ]; then
        tail -40 "$VERIF/target/harness-build.log" >&2
        log "harness build failed (rc=$rc): the tree under $REPO does not compile with the verification hooks"
        return 2
    fi
    return 0
}

build_product() {
    # Engine B: the shipped binaries, hooks OFF, release profile
    (cd "$REPO" && cargo build --release --offline -p octo-squirrel-client -p octo-squirrel-server --target-dir "$PRODUCT_TARGET" 2>"$VERIF/target/product-build.log")
    local rc=$?
    if [ $rc -ne 0 ]; then
        tail -40 "$VERIF/target/product-build.log" >&2
        log "product build failed (rc=$rc)"
        return 2
    fi
    return 0
}

build_fuzz() {
    # coverage-guided tier (thorough only): libFuzzer targets, nightly toolchain, AddressSanitizer, hooks ON
    cp "$REPO/Cargo.lock" "$VERIF/fuzz/Cargo.lock" 2>/dev/null || true
    (cd "$VERIF" && RUSTFLAGS="--cfg octo_squirrel_verif" cargo +nightly fuzz build --fuzz-dir fuzz --target-dir "$VERIF/target/fuzz" 2>"$VERIF/target/fuzz-build.log")
    local rc=$?
    if [ $rc -ne 0 ]; then
        tail -40 "$VERIF/target/fuzz-build.log" >&2
        log "fuzz target build failed (rc=$rc): inconclusive"
        return 2
    fi
    return 0
}

mkdir -p "$VERIF/target" "$VERIF/evidence" "$VERIF/replays" "$VERIF/work"

case "${1:-}" in
setup)
    build_harness || exit 2
    build_product || exit 2
    log "setup complete"
    exit 0
    ;;
replay)
    build_harness || exit 2
    build_product || exit 2
    export OVF_CLIENT_BIN="$PRODUCT_TARGET/release/octo-squirrel-client"
    export OVF_SERVER_BIN="$PRODUCT_TARGET/release/octo-squirrel-server"
    exec "$OVF" replay "$2"
    ;;
C[0-9][0-9])
    ID="$1"
    TIER="${2:-quick}"
    build_harness || exit 2
    case "$ID" in
    C01 | C02 | C06 | C08 | C09 | C10 | C11 | C12 | C13 | C15 | C16)
        build_product || exit 2
        ;;
    esac
    if [ "$TIER" = "thorough" ]; then
        case "$ID" in
        C02 | C03 | C04 | C05 | C06 | C07 | C10 | C11 | C12 | C13 | C14)
            build_fuzz || exit 2
            ;;
        esac
    fi
    export OVF_CLIENT_BIN="$PRODUCT_TARGET/release/octo-squirrel-client"
    export OVF_SERVER_BIN="$PRODUCT_TARGET/release/octo-squirrel-server"
    ulimit -n 65536 2>/dev/null || true
    "$OVF" check "$ID" "$TIER"
    rc=$?
    exit $rc
    ;;
*)
    echo "usage: $0 setup | <ID> <quick|thorough> | replay <path>" >&2
    exit 2
    ;;
esac
