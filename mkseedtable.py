#!/usr/bin/env python3
"""dev helper: mkseedtable.py <results.json> -> markdown rows for DESIGN.md section 12 (waves 4-6) from seeded/*/meta.json and sweep results"""
import json,os,sys,re
res=json.load(open(sys.argv[1]))
notes=json.load(open('/verif/seeded/NOTES.json')) if os.path.exists('/verif/seeded/NOTES.json') else {}
rows=[]
for d in sorted(os.listdir('/verif/seeded')):
    p='/verif/seeded/%s/meta.json'%d
    if not os.path.exists(p): continue
    if not re.search(sys.argv[2] if len(sys.argv)>2 else r'-(2|3|4)[abc]$',d): continue
    m=json.load(open(p))
    s=re.sub(r'\s+',' ',m.get('summary','')).strip()
    s=s[:230]+('…' if len(s)>230 else '')
    r=res['last'].get(d,('?',''))
    caught = ('`%s`'%r[1]) if r[0]=='DETECTED' else ('obsolete (see meta.json)' if 'obsolete' in m else r[0])
    rows.append('| %s | %s | %s | %s |'%(d,s.replace('|','/'),caught,notes.get(d,'')))
print('\n'.join(rows))
