#!/bin/bash
# Sensitivity test of a check: apply a patch to /repo (or reverse a fix commit), run the property's check, undo.
#   ./selftest.sh <patch-file | revert:<commit>> <ID> [tier]
# Expects: exit 1 + VIOLATION line. /repo is always restored.
set -u
P="$1"; ID="$2"; TIER="${3:-quick}"
cd /repo || exit 2
if [ -n "$(git status --porcelain)" ]; then echo "/repo not clean"; exit 2; fi
if [[ "$P" == revert:* ]]; then
    git show "${P#revert:}" | git apply -R || { echo "cannot reverse ${P}"; git checkout -- .; exit 2; }
else
    case "$P" in /*) ;; *) P="/verif/$P";; esac
    git apply "$P" || { echo "patch does not apply"; git checkout -- .; exit 2; }
fi
cd /verif
OUT=$(./run.sh "$ID" "$TIER" 2>&1); RC=$?
git -C /repo checkout -- .
(cd /verif && ./run.sh setup >/dev/null 2>&1)
echo "$OUT" | grep -E "^VIOLATION|^\[C|KNOWN-FINDING|sub=" | cut -c1-400 | head -12
if [ $RC -eq 1 ]; then echo "SELFTEST: $P -> $ID DETECTED"; exit 0; else echo "SELFTEST: $P -> $ID NOT DETECTED (rc=$RC)"; exit 1; fi
