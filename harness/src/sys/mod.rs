//! Engine B: the real client and server binaries on loopback, with scripted applications, targets, a
//! byte-transparent tap, reference peers and injected faults. Everything here is blocking std::net + threads:
//! the code under test is in other processes, so the harness needs no async runtime of its own.
pub mod cluster;
pub mod flow;
pub mod net;
pub mod procfs;
pub mod refpeer;
pub mod tap;

use std::net::{Ipv4Addr, SocketAddrV4, TcpListener, UdpSocket};
use std::sync::atomic::{AtomicU64, Ordering};
use std::sync::Mutex;

static RECENT: Mutex<Vec<u16>> = Mutex::new(Vec::new());

/// A port that is free for both TCP and UDP on 127.0.0.1 right now (chosen by the OS from its ephemeral range) and
/// that this process has not handed out recently.
pub fn free_port() -> u16 {
    for _ in 0..200 {
        let Ok(l) = TcpListener::bind(SocketAddrV4::new(Ipv4Addr::LOCALHOST, 0)) else { continue };
        let Ok(a) = l.local_addr() else { continue };
        let p = a.port();
        if UdpSocket::bind(SocketAddrV4::new(Ipv4Addr::LOCALHOST, p)).is_err() {
            continue;
        }
        // also free on the wildcard address (the server's per-session sockets bind 0.0.0.0)
        if UdpSocket::bind(SocketAddrV4::new(Ipv4Addr::UNSPECIFIED, p)).is_err() {
            continue;
        }
        let mut g = RECENT.lock().unwrap();
        if g.contains(&p) {
            continue;
        }
        g.push(p);
        if g.len() > 4000 {
            g.drain(..2000);
        }
        return p;
    }
    panic!("harness: no free port found");
}

static COUNTER: AtomicU64 = AtomicU64::new(0);

pub fn next_id() -> u64 {
    COUNTER.fetch_add(1, Ordering::Relaxed)
}

pub fn fixture(name: &str) -> String {
    crate::ev::verif_root().join("fixtures").join(name).to_string_lossy().into_owned()
}

/// `localhost` must resolve to 127.0.0.1 first for domain-addressed targets to be meaningful (README: IPv4 only).
pub fn localhost_is_v4() -> bool {
    use std::net::ToSocketAddrs;
    match "localhost:1".to_socket_addrs() {
        Ok(mut it) => matches!(it.next(), Some(std::net::SocketAddr::V4(a)) if *a.ip() == Ipv4Addr::LOCALHOST),
        Err(_) => false,
    }
}
