//! One running octo-squirrel-client + octo-squirrel-server pair (the shipped binaries, hooks off) with generated
//! configuration files.
use super::{fixture, free_port, next_id, procfs};
use crate::gen::make_cred;
use crate::real::{Cred, Proto};
use serde::{Deserialize, Serialize};
use serde_json::{json, Value};
use std::collections::HashSet;
use std::os::unix::process::CommandExt;
use std::path::PathBuf;
use std::process::{Child, Command, Stdio};
use std::sync::Mutex;
use std::time::{Duration, Instant};

#[derive(Clone, Copy, Debug, PartialEq, Eq, Hash, Serialize, Deserialize, PartialOrd, Ord)]
pub enum Transport {
    Tcp,
    Tls,
    Ws,
    Wss,
    Quic,
}

impl Transport {
    pub const ALL: [Transport; 5] = [Transport::Tcp, Transport::Tls, Transport::Ws, Transport::Wss, Transport::Quic];
    pub fn name(&self) -> &'static str {
        match self {
            Transport::Tcp => "tcp",
            Transport::Tls => "tls",
            Transport::Ws => "ws",
            Transport::Wss => "wss",
            Transport::Quic => "quic",
        }
    }
    pub fn stream_based(&self) -> bool {
        !matches!(self, Transport::Quic)
    }
}

#[derive(Clone, Debug, Serialize, Deserialize)]
pub struct Spec {
    pub proto: Proto,
    pub transport: Transport,
    /// size of the server's user table (Shadowsocks 2022 AES and VMess only; 0 = none)
    #[serde(default)]
    pub n_users: u8,
    #[serde(default)]
    pub user: u8,
    /// UDP relaying configured on client and server
    #[serde(default)]
    pub udp: bool,
    /// TOKIO_WORKER_THREADS of both processes
    #[serde(default = "dflt_workers")]
    pub workers: u8,
    #[serde(default)]
    pub seed: u64,
    /// RLIMIT_NOFILE of both processes
    #[serde(default)]
    pub nofile: Option<u64>,
    /// the client is pointed at a tap port (see tap.rs) instead of the server port; the caller starts the tap
    #[serde(default)]
    pub via_tap: bool,
}

fn dflt_workers() -> u8 {
    4
}

impl Spec {
    pub fn new(proto: Proto, transport: Transport) -> Spec {
        Spec { proto, transport, n_users: 0, user: 0, udp: false, workers: 4, seed: 1, nofile: None, via_tap: false }
    }
    pub fn short(&self) -> String {
        format!("{}/{}{}{}", self.proto.short(), self.transport.name(), if self.n_users > 0 { "/users" } else { "" }, if self.udp { "/udp" } else { "" })
    }
    pub fn cred(&self) -> Cred {
        let pw = format!("pw-{:x}-ordinary password", self.seed);
        make_cred(self.proto, &pw, self.seed, self.n_users as usize, self.user as usize)
    }
    /// README table: is UDP relaying documented for this (protocol, transport)?
    pub fn udp_supported(proto: Proto, t: Transport) -> bool {
        match proto {
            // Shadowsocks relays UDP over UDP whatever the TCP transport is; the QUIC server mode excludes the UDP mode
            Proto::SsLegacy(_) | Proto::Ss22(_) => !matches!(t, Transport::Quic),
            Proto::Vmess(_) => true,
            Proto::Trojan => matches!(t, Transport::Tls | Transport::Wss | Transport::Quic),
        }
    }
}

/// The 50 README (protocol, cipher, transport) combinations.
pub fn all_tcp_combos() -> Vec<(Proto, Transport)> {
    let mut v = vec![];
    for p in Proto::all() {
        for t in Transport::ALL {
            v.push((p, t));
        }
    }
    v
}

static LIVE: Mutex<Option<HashSet<u32>>> = Mutex::new(None);

fn live_add(pid: u32) {
    LIVE.lock().unwrap().get_or_insert_with(HashSet::new).insert(pid);
}
fn live_del(pid: u32) {
    if let Some(s) = LIVE.lock().unwrap().as_mut() {
        s.remove(&pid);
    }
}

/// Kill every child this process still has (watchdog / exit path).
pub fn kill_all() {
    if let Some(s) = LIVE.lock().unwrap().as_ref() {
        for pid in s {
            unsafe {
                libc::kill(*pid as i32, libc::SIGKILL);
            }
        }
    }
}

pub struct Proc {
    pub child: Child,
    pub pid: u32,
    pub out: PathBuf,
    pub err: PathBuf,
}

impl Proc {
    pub fn spawn(bin: &str, args: &[&str], dir: &PathBuf, name: &str, workers: u8, nofile: Option<u64>) -> Result<Proc, String> {
        let out = dir.join(format!("{}.out", name));
        let err = dir.join(format!("{}.err", name));
        let fo = std::fs::File::create(&out).map_err(|e| e.to_string())?;
        let fe = std::fs::File::create(&err).map_err(|e| e.to_string())?;
        let mut cmd = Command::new(bin);
        cmd.args(args)
            .current_dir(dir)
            .env("TOKIO_WORKER_THREADS", workers.max(1).to_string())
            .env("RUST_BACKTRACE", "0")
            .stdin(Stdio::null())
            .stdout(fo)
            .stderr(fe);
        if let Some(n) = nofile {
            unsafe {
                cmd.pre_exec(move || {
                    let lim = libc::rlimit { rlim_cur: n, rlim_max: n };
                    libc::setrlimit(libc::RLIMIT_NOFILE, &lim);
                    Ok(())
                });
            }
        }
        let child = cmd.spawn().map_err(|e| format!("spawn {}: {}", bin, e))?;
        let pid = child.id();
        live_add(pid);
        Ok(Proc { child, pid, out, err })
    }
    pub fn exited(&mut self) -> Option<String> {
        match self.child.try_wait() {
            Ok(Some(st)) => Some(format!("{}", st)),
            Ok(None) => None,
            Err(e) => Some(format!("try_wait: {}", e)),
        }
    }
    pub fn log(&self) -> String {
        let mut s = std::fs::read_to_string(&self.out).unwrap_or_default();
        s.push_str(&String::from_utf8_lossy(&std::fs::read(&self.err).unwrap_or_default()));
        s
    }
    pub fn log_tail(&self, n: usize) -> String {
        let l = self.log();
        let lines: Vec<&str> = l.lines().collect();
        lines[lines.len().saturating_sub(n)..].join("\n")
    }
    pub fn panicked(&self) -> Option<String> {
        let l = self.log();
        l.lines().position(|x| x.contains("panicked at")).map(|i| l.lines().skip(i).take(3).collect::<Vec<_>>().join(" | "))
    }
    pub fn kill(&mut self) {
        let _ = self.child.kill();
        let _ = self.child.wait();
        live_del(self.pid);
    }
}

impl Drop for Proc {
    fn drop(&mut self) {
        self.kill();
    }
}

pub fn server_bin() -> String {
    std::env::var("OVF_SERVER_BIN").unwrap_or_else(|_| "/verif/target/product/release/octo-squirrel-server".into())
}
pub fn client_bin() -> String {
    std::env::var("OVF_CLIENT_BIN").unwrap_or_else(|_| "/verif/target/product/release/octo-squirrel-client".into())
}

pub fn work_dir() -> PathBuf {
    let d = crate::ev::verif_root().join("work").join(format!("{}-{}", std::process::id(), next_id()));
    let _ = std::fs::create_dir_all(&d);
    d
}

pub fn server_entry(spec: &Spec, cred: &Cred, port: u16) -> Value {
    let mut v = cred.server_json("127.0.0.1", port);
    let ssl = json!({"certificateFile": fixture("cert.pem"), "keyFile": fixture("key.pem"), "serverName": ""});
    match spec.transport {
        Transport::Tcp => {}
        Transport::Tls => v["ssl"] = ssl.clone(),
        Transport::Ws => v["ws"] = json!({"path": "/ws"}),
        Transport::Wss => {
            v["ssl"] = ssl.clone();
            v["ws"] = json!({"path": "/ws"});
        }
        Transport::Quic => v["quic"] = ssl.clone(),
    }
    let is_ss = matches!(spec.proto, Proto::SsLegacy(_) | Proto::Ss22(_));
    if is_ss {
        let mode = match (spec.transport, spec.udp) {
            (Transport::Quic, _) => "quic",
            (_, true) => "tcp_and_udp",
            (_, false) => "tcp",
        };
        v["mode"] = json!(mode);
    }
    v
}

pub fn client_doc(spec: &Spec, cred: &Cred, local_port: u16, server_port: u16) -> Value {
    let mut s = cred.client_server_json("127.0.0.1", server_port);
    let ssl = json!({"certificateFile": fixture("cert.pem"), "serverName": "localhost"});
    match spec.transport {
        Transport::Tcp => {}
        Transport::Tls => s["ssl"] = ssl.clone(),
        Transport::Ws => s["ws"] = json!({"header": {"Host": "localhost"}, "path": "/ws"}),
        Transport::Wss => {
            s["ssl"] = ssl.clone();
            s["ws"] = json!({"header": {"Host": "localhost"}, "path": "/ws"});
        }
        Transport::Quic => s["quic"] = ssl.clone(),
    }
    json!({
        "host": "127.0.0.1", "port": local_port, "index": 0,
        "mode": if spec.udp { "tcp_and_udp" } else { "tcp" },
        "logger": {"level": "info"},
        "servers": [s],
    })
}

#[derive(Debug)]
pub enum StartErr {
    /// a process ended during start-up (status, log tail)
    Exited(&'static str, String, String),
    /// not listening within the deadline
    NotReady(&'static str, String),
    Io(String),
}

impl std::fmt::Display for StartErr {
    fn fmt(&self, f: &mut std::fmt::Formatter<'_>) -> std::fmt::Result {
        match self {
            StartErr::Exited(w, st, log) => write!(f, "{} exited during start-up ({}): {}", w, st, log),
            StartErr::NotReady(w, log) => write!(f, "{} not ready within the deadline: {}", w, log),
            StartErr::Io(e) => write!(f, "io: {}", e),
        }
    }
}

pub struct Cluster {
    pub spec: Spec,
    pub cred: Cred,
    pub dir: PathBuf,
    pub server: Proc,
    pub client: Proc,
    pub server_port: u16,
    pub client_port: u16,
    /// port the client has been pointed at (== server_port unless via_tap)
    pub link_port: u16,
    /// the listener of the tap-to-be (bound before the client was configured with its port)
    pub tap_listener: Option<std::net::TcpListener>,
    pub keep: bool,
}

pub struct Expect {
    pub tcp: bool,
    pub udp: bool,
}

/// Wait until `p` owns the expected sockets on `port`.
pub fn wait_ready(p: &mut Proc, who: &'static str, port: u16, ex: &Expect, deadline: Duration) -> Result<(), StartErr> {
    let t0 = Instant::now();
    loop {
        if let Some(st) = p.exited() {
            return Err(StartErr::Exited(who, st, p.log_tail(12)));
        }
        let socks = procfs::socks_of(p.pid);
        let tcp_ok = !ex.tcp || socks.iter().any(|s| s.proto == "tcp" && s.local_port == port && s.state == procfs::TCP_LISTEN);
        let udp_ok = !ex.udp || socks.iter().any(|s| s.proto == "udp" && s.local_port == port);
        if tcp_ok && udp_ok {
            return Ok(());
        }
        if t0.elapsed() > deadline {
            return Err(StartErr::NotReady(who, p.log_tail(12)));
        }
        std::thread::sleep(Duration::from_millis(15));
    }
}

impl Cluster {
    pub fn server_expect(spec: &Spec) -> Expect {
        let is_ss = matches!(spec.proto, Proto::SsLegacy(_) | Proto::Ss22(_));
        match (is_ss, spec.transport) {
            (true, Transport::Quic) => Expect { tcp: false, udp: true },
            (true, _) => Expect { tcp: true, udp: spec.udp },
            (false, Transport::Quic) => Expect { tcp: true, udp: true },
            (false, _) => Expect { tcp: true, udp: false },
        }
    }

    pub fn start(spec: &Spec) -> Result<Cluster, StartErr> {
        let mut last = None;
        // a start-up that fails on a port collision with an unrelated process is retried on fresh ports
        for _ in 0..3 {
            match Cluster::start_once(spec) {
                Ok(c) => return Ok(c),
                Err(e) => last = Some(e),
            }
        }
        Err(last.unwrap())
    }

    pub fn start_once(spec: &Spec) -> Result<Cluster, StartErr> {
        let dir = work_dir();
        let cred = spec.cred();
        let server_port = free_port();
        let client_port = free_port();
        let (tap_listener, link_port) = if spec.via_tap {
            let (l, p) = super::tap::Tap::reserve();
            (Some(l), p)
        } else {
            (None, server_port)
        };
        let sdoc = json!([server_entry(spec, &cred, server_port)]);
        let cdoc = client_doc(spec, &cred, client_port, link_port);
        let sp = dir.join("server.json");
        let cp = dir.join("client.json");
        std::fs::write(&sp, serde_json::to_string_pretty(&sdoc).unwrap()).map_err(|e| StartErr::Io(e.to_string()))?;
        std::fs::write(&cp, serde_json::to_string_pretty(&cdoc).unwrap()).map_err(|e| StartErr::Io(e.to_string()))?;
        let mut server = Proc::spawn(&server_bin(), &[sp.to_str().unwrap(), "info"], &dir, "server", spec.workers, spec.nofile).map_err(StartErr::Io)?;
        let mut client = Proc::spawn(&client_bin(), &[cp.to_str().unwrap()], &dir, "client", spec.workers, spec.nofile).map_err(StartErr::Io)?;
        let r1 = wait_ready(&mut server, "server", server_port, &Cluster::server_expect(spec), Duration::from_secs(20));
        let r2 = wait_ready(&mut client, "client", client_port, &Expect { tcp: true, udp: spec.udp }, Duration::from_secs(20));
        if let Err(e) = r1.and(r2) {
            drop(server);
            drop(client);
            let _ = std::fs::remove_dir_all(&dir);
            return Err(e);
        }
        Ok(Cluster { spec: spec.clone(), cred, dir, server, client, server_port, client_port, link_port, tap_listener, keep: false })
    }

    /// Err(description) if a process has exited or panicked.
    pub fn health(&mut self) -> Result<(), String> {
        if let Some(st) = self.server.exited() {
            return Err(format!("server process exited ({}): {}", st, self.server.log_tail(6)));
        }
        if let Some(st) = self.client.exited() {
            return Err(format!("client process exited ({}): {}", st, self.client.log_tail(6)));
        }
        if let Some(p) = self.server.panicked() {
            return Err(format!("server task panicked: {}", p));
        }
        if let Some(p) = self.client.panicked() {
            return Err(format!("client task panicked: {}", p));
        }
        Ok(())
    }

    pub fn logs(&self, n: usize) -> String {
        format!("--- server ---\n{}\n--- client ---\n{}", self.server.log_tail(n), self.client.log_tail(n))
    }
}

impl Drop for Cluster {
    fn drop(&mut self) {
        self.server.kill();
        self.client.kill();
        if !self.keep {
            let _ = std::fs::remove_dir_all(&self.dir);
        }
    }
}

/// Only the client process, pointed at `link_port` (where a reference server listens).
pub struct ClientOnly {
    pub spec: Spec,
    pub cred: Cred,
    pub dir: PathBuf,
    pub client: Proc,
    pub client_port: u16,
}

impl ClientOnly {
    pub fn start(spec: &Spec, link_port: u16) -> Result<ClientOnly, StartErr> {
        let dir = work_dir();
        let cred = spec.cred();
        let client_port = free_port();
        let cdoc = client_doc(spec, &cred, client_port, link_port);
        let cp = dir.join("client.json");
        std::fs::write(&cp, serde_json::to_string_pretty(&cdoc).unwrap()).map_err(|e| StartErr::Io(e.to_string()))?;
        let mut client = Proc::spawn(&client_bin(), &[cp.to_str().unwrap()], &dir, "client", spec.workers, spec.nofile).map_err(StartErr::Io)?;
        if let Err(e) = wait_ready(&mut client, "client", client_port, &Expect { tcp: true, udp: spec.udp }, Duration::from_secs(20)) {
            drop(client);
            let _ = std::fs::remove_dir_all(&dir);
            return Err(e);
        }
        Ok(ClientOnly { spec: spec.clone(), cred, dir, client, client_port })
    }
    pub fn health(&mut self) -> Result<(), String> {
        if let Some(st) = self.client.exited() {
            return Err(format!("client process exited ({}): {}", st, self.client.log_tail(6)));
        }
        if let Some(p) = self.client.panicked() {
            return Err(format!("client task panicked: {}", p));
        }
        Ok(())
    }
}

impl Drop for ClientOnly {
    fn drop(&mut self) {
        self.client.kill();
        let _ = std::fs::remove_dir_all(&self.dir);
    }
}

/// One process started from an arbitrary configuration document (no readiness expectations).
pub struct RawProc {
    pub dir: PathBuf,
    pub proc: Proc,
}

impl RawProc {
    pub fn start(server: bool, doc: &Value, workers: u8) -> Result<RawProc, String> {
        let dir = work_dir();
        let name = if server { "server" } else { "client" };
        let p = dir.join(format!("{}.json", name));
        std::fs::write(&p, serde_json::to_string_pretty(doc).unwrap()).map_err(|e| e.to_string())?;
        let bin = if server { server_bin() } else { client_bin() };
        let args: Vec<&str> = if server { vec![p.to_str().unwrap(), "info"] } else { vec![p.to_str().unwrap()] };
        let proc = Proc::spawn(&bin, &args, &dir, name, workers, None)?;
        Ok(RawProc { dir, proc })
    }
    /// (listens on TCP `port`, holds UDP `port`)
    pub fn sockets(&self, port: u16) -> (bool, bool) {
        let s = procfs::socks_of(self.proc.pid);
        (s.iter().any(|x| x.proto == "tcp" && x.local_port == port && x.state == procfs::TCP_LISTEN), s.iter().any(|x| x.proto == "udp" && x.local_port == port))
    }
}

impl Drop for RawProc {
    fn drop(&mut self) {
        self.proc.kill();
        let _ = std::fs::remove_dir_all(&self.dir);
    }
}
