//! One scripted TCP flow through a running cluster: local application <-> client <-> server <-> target.
use super::net::{self, Hs, Listener, Reader};
use serde::{Deserialize, Serialize};
use std::net::{Shutdown, TcpStream};
use std::time::{Duration, Instant};

#[derive(Clone, Debug, Serialize, Deserialize, PartialEq, Eq)]
pub enum Op {
    AppWrite(u32),
    TargetWrite(u32),
    PauseMs(u8),
    /// wait until everything written so far has arrived at the other end
    Sync,
}

#[derive(Clone, Debug, Serialize, Deserialize, PartialEq, Eq)]
pub enum Ending {
    /// target answers `n` more bytes and closes: the application must read everything, then end-of-stream
    TargetCloses(u32),
    /// application writes `n` more bytes and closes: the target must read everything, then end-of-stream
    AppCloses(u32),
    /// as AppCloses but with shutdown(SHUT_WR) only
    AppHalfCloses(u32),
    /// abortive close (RST) by the application / by the target: the other side must observe EOF or reset
    AppResets,
    TargetResets,
    /// nobody closes (caller ends the flow some other way, e.g. by cutting the link); the flow is returned open
    Open,
}

#[derive(Clone, Debug, Serialize, Deserialize)]
pub struct FlowScript {
    pub hs: Hs,
    /// the application's first write (the server dials when the first bytes arrive; for plain HTTP the request head counts)
    pub first: u32,
    pub ops: Vec<Op>,
    pub ending: Ending,
    /// the side that receives the last bytes does not read for this many milliseconds while the other side writes them and
    /// closes (a slow consumer: the bytes wait in the relay's buffers when the close arrives)
    #[serde(default)]
    pub slow_reader_ms: u16,
    /// before the closing step the flow stays idle this long and must then still carry bytes in both directions
    /// (a flow is not a request/response pair: it lives as long as its two ends keep it open)
    #[serde(default)]
    pub idle_ms: u16,
}

#[derive(Clone, Debug)]
pub struct FlowFail {
    /// soft = decided by a deadline (must be confirmed by re-running); hard = wrong bytes / wrong peer / duplicate
    pub soft: bool,
    pub sig: String,
    pub msg: String,
}

#[derive(Debug, Default)]
pub struct FlowReport {
    pub fail: Option<FlowFail>,
    pub app_sent: usize,
    pub tgt_sent: usize,
    pub interleaved: bool,
    pub t_close_to_eof: Option<Duration>,
}

pub struct OpenFlow {
    pub app: TcpStream,
    pub tgt: TcpStream,
    pub app_rx: Reader,
    pub tgt_rx: Reader,
    pub listener: Listener,
    pub pre_len: usize,
    pub tag_a: u64,
    pub tag_t: u64,
    pub app_sent: usize,
    pub tgt_sent: usize,
}

/// Deadline for an event that takes milliseconds. Once this process has already seen a failure (it will exit 1 anyway)
/// the deadline shrinks so that shrinking the failing case stays affordable.
pub fn wait() -> Duration {
    if crate::rt::failed_already() {
        Duration::from_secs(4)
    } else {
        Duration::from_secs(20)
    }
}

fn hard(sig: &str, msg: String) -> FlowFail {
    FlowFail { soft: false, sig: sig.to_string(), msg }
}
fn soft(sig: &str, msg: String) -> FlowFail {
    FlowFail { soft: true, sig: sig.to_string(), msg }
}

impl OpenFlow {
    /// handshake + first write + the server's dial
    pub fn open(client_port: u16, hs: Hs, first: u32, tag: u64) -> Result<OpenFlow, FlowFail> {
        OpenFlow::open_opt(client_port, hs, first, tag, None)
    }

    /// `open`, optionally with a small receive buffer on the application's socket
    pub fn open_opt(client_port: u16, hs: Hs, first: u32, tag: u64, rcvbuf: Option<u32>) -> Result<OpenFlow, FlowFail> {
        let listener = Listener::bind();
        let (mut app, pre) = net::app_connect_opt(client_port, hs, listener.port, Duration::from_secs(15), rcvbuf)
            .map_err(|e| soft("handshake", format!("local {} handshake failed: {}", hs.name(), e)))?;
        let (tag_a, tag_t) = (tag * 2 + 1, tag * 2 + 2);
        let first = if pre.is_empty() { first.max(1) } else { first } as usize;
        net::write_ks(&mut app, tag_a, 0, first).map_err(|e| soft("app-write", format!("first write of {} bytes: {}", first, e)))?;
        let Some(tgt) = listener.accept(wait()) else {
            return Err(soft("no-dial", format!("the target on port {} was not dialled within {:?} after the handshake and {} payload bytes", listener.port, wait(), first)));
        };
        let app_rx = Reader::spawn(app.try_clone().map_err(|e| soft("harness", e.to_string()))?, vec![], tag_t);
        let tgt_rx = Reader::spawn(tgt.try_clone().map_err(|e| soft("harness", e.to_string()))?, pre.clone(), tag_a);
        Ok(OpenFlow { app, tgt, app_rx, tgt_rx, listener, pre_len: pre.len(), tag_a, tag_t, app_sent: first, tgt_sent: 0 })
    }

    pub fn check_content(&self) -> Result<(), FlowFail> {
        let a = self.app_rx.snap();
        let t = self.tgt_rx.snap();
        if let Some(b) = t.bad_at {
            return Err(hard("target-wrong-byte", format!("byte {} received by the target differs from what the application wrote (target got {} of {} bytes)", b, t.count, self.app_sent + self.pre_len)));
        }
        if let Some(b) = a.bad_at {
            return Err(hard("app-wrong-byte", format!("byte {} received by the application differs from what the target wrote (application got {} of {} bytes)", b, a.count, self.tgt_sent)));
        }
        if t.count > self.app_sent + self.pre_len {
            return Err(hard("target-extra-bytes", format!("target received {} bytes, application wrote {}", t.count, self.app_sent + self.pre_len)));
        }
        if a.count > self.tgt_sent {
            return Err(hard("app-extra-bytes", format!("application received {} bytes, target wrote {}", a.count, self.tgt_sent)));
        }
        Ok(())
    }

    /// wait until both directions have delivered everything written so far
    pub fn sync(&self, what: &str) -> Result<(), FlowFail> {
        let want_t = self.app_sent + self.pre_len;
        let (t, ok_t) = self.tgt_rx.wait(wait(), |r| r.count >= want_t || r.eof || r.err.is_some() || r.bad_at.is_some());
        self.check_content()?;
        if !ok_t || t.count < want_t {
            return Err(soft("app-to-target-stall", format!("{}: target has {} of {} bytes the application wrote (eof={}, err={:?}) after {:?}", what, t.count, want_t, t.eof, t.err, wait())));
        }
        let want_a = self.tgt_sent;
        let (a, ok_a) = self.app_rx.wait(wait(), |r| r.count >= want_a || r.eof || r.err.is_some() || r.bad_at.is_some());
        self.check_content()?;
        if !ok_a || a.count < want_a {
            return Err(soft("target-to-app-stall", format!("{}: application has {} of {} bytes the target wrote (eof={}, err={:?}) after {:?}", what, a.count, want_a, a.eof, a.err, wait())));
        }
        Ok(())
    }

    pub fn app_write(&mut self, n: usize) -> Result<(), FlowFail> {
        net::write_ks(&mut self.app, self.tag_a, self.app_sent, n).map_err(|e| soft("app-write", format!("application write of {} bytes at {}: {}", n, self.app_sent, e)))?;
        self.app_sent += n;
        Ok(())
    }
    pub fn tgt_write(&mut self, n: usize) -> Result<(), FlowFail> {
        net::write_ks(&mut self.tgt, self.tag_t, self.tgt_sent, n).map_err(|e| soft("target-write", format!("target write of {} bytes at {}: {}", n, self.tgt_sent, e)))?;
        self.tgt_sent += n;
        Ok(())
    }

    /// exactly one connection reached the target's listener
    pub fn check_single_dial(&self) -> Result<(), FlowFail> {
        let extra = self.listener.pending();
        if extra > 0 {
            return Err(hard("extra-dial", format!("the target port {} was dialled {} more time(s) for one flow", self.listener.port, extra)));
        }
        Ok(())
    }
}

/// Run one scripted flow to its end. `Open` endings return the live flow as well.
pub fn run_flow(client_port: u16, sc: &FlowScript, tag: u64) -> (FlowReport, Option<OpenFlow>) {
    let mut rep = FlowReport::default();
    let mut f = match OpenFlow::open(client_port, sc.hs, sc.first, tag) {
        Ok(f) => f,
        Err(e) => {
            rep.fail = Some(e);
            return (rep, None);
        }
    };
    let r = (|| -> Result<Option<Duration>, FlowFail> {
        let mut last_dir = 0u8;
        for op in &sc.ops {
            match op {
                Op::AppWrite(n) => {
                    f.app_write(*n as usize)?;
                    if last_dir == 2 {
                        rep.interleaved = true;
                    }
                    last_dir = 1;
                }
                Op::TargetWrite(n) => {
                    f.tgt_write(*n as usize)?;
                    if last_dir == 1 {
                        rep.interleaved = true;
                    }
                    last_dir = 2;
                }
                Op::PauseMs(ms) => std::thread::sleep(Duration::from_millis(*ms as u64)),
                Op::Sync => f.sync("mid-script sync")?,
            }
            f.check_content()?;
        }
        if sc.idle_ms > 0 {
            f.sync("before the idle period")?;
            std::thread::sleep(Duration::from_millis(sc.idle_ms as u64));
            f.app_write(137).map_err(|mut e| {
                e.msg = format!("after {} ms without traffic: {}", sc.idle_ms, e.msg);
                e
            })?;
            f.tgt_write(211)?;
            f.sync("after the idle period").map_err(|mut e| {
                e.sig = format!("{}-after-idle", e.sig);
                e.msg = format!("the flow was idle for {} ms, then: {}", sc.idle_ms, e.msg);
                e
            })?;
        }
        // nothing may be in flight towards the side that is about to close, otherwise its loss would be legitimate
        f.sync("before the closing step")?;
        f.check_single_dial()?;
        let mut dt = None;
        match &sc.ending {
            Ending::TargetCloses(n) => {
                if sc.slow_reader_ms > 0 {
                    f.app_rx.pause.store(true, std::sync::atomic::Ordering::Relaxed);
                }
                f.tgt_write(*n as usize)?;
                let t0 = Instant::now();
                let _ = f.tgt.shutdown(Shutdown::Both);
                if sc.slow_reader_ms > 0 {
                    std::thread::sleep(Duration::from_millis(sc.slow_reader_ms as u64));
                    f.app_rx.pause.store(false, std::sync::atomic::Ordering::Relaxed);
                }
                let want = f.tgt_sent;
                let (a, _) = f.app_rx.wait(wait(), |r| r.eof || r.err.is_some());
                f.check_content()?;
                if a.count < want && (a.eof || a.err.is_some()) {
                    return Err(hard("answer-truncated", format!("target wrote {} bytes and closed; the application got {} bytes and then {}", want, a.count, if a.eof { "end-of-stream".to_string() } else { format!("error {:?}", a.err) })));
                }
                if !a.eof && a.err.is_none() {
                    return Err(soft("no-eof-at-app", format!("target wrote {} bytes and closed; application has {} bytes and no end-of-stream after {:?}", want, a.count, wait())));
                }
                if let Some(e) = &a.err {
                    return Err(soft("reset-instead-of-eof", format!("target closed cleanly after answering; the application got all {} bytes but then an error instead of end-of-stream: {}", a.count, e)));
                }
                dt = a.t_eof.map(|t| t.duration_since(t0));
            }
            Ending::AppCloses(n) | Ending::AppHalfCloses(n) => {
                if sc.slow_reader_ms > 0 {
                    f.tgt_rx.pause.store(true, std::sync::atomic::Ordering::Relaxed);
                }
                f.app_write(*n as usize)?;
                let t0 = Instant::now();
                if matches!(sc.ending, Ending::AppCloses(_)) {
                    let _ = f.app.shutdown(Shutdown::Both);
                } else {
                    let _ = f.app.shutdown(Shutdown::Write);
                }
                if sc.slow_reader_ms > 0 {
                    std::thread::sleep(Duration::from_millis(sc.slow_reader_ms as u64));
                    f.tgt_rx.pause.store(false, std::sync::atomic::Ordering::Relaxed);
                }
                let want = f.app_sent + f.pre_len;
                let (t, _) = f.tgt_rx.wait(wait(), |r| r.eof || r.err.is_some());
                f.check_content()?;
                if t.count < want && (t.eof || t.err.is_some()) {
                    return Err(hard("request-truncated", format!("application wrote {} bytes and closed; the target got {} bytes and then {}", want, t.count, if t.eof { "end-of-stream".to_string() } else { format!("error {:?}", t.err) })));
                }
                if !t.eof && t.err.is_none() {
                    return Err(soft("no-eof-at-target", format!("application wrote {} bytes and closed; target has {} bytes and no end-of-stream after {:?}", want, t.count, wait())));
                }
                dt = t.t_eof.map(|x| x.duration_since(t0));
            }
            Ending::AppResets | Ending::TargetResets | Ending::Open => {}
        }
        Ok(dt)
    })();
    rep.app_sent = f.app_sent;
    rep.tgt_sent = f.tgt_sent;
    match r {
        Ok(dt) => rep.t_close_to_eof = dt,
        Err(e) => {
            rep.fail = Some(e);
            return (rep, None);
        }
    }
    match sc.ending {
        Ending::AppResets | Ending::TargetResets | Ending::Open => (rep, Some(f)),
        _ => (rep, None),
    }
}

/// A plain echo-style canary: SOCKS5, `n` bytes up, `n` bytes down, target closes. Ok(()) when byte-exact.
pub fn canary(client_port: u16, n: u32, tag: u64) -> Result<(), FlowFail> {
    let sc = FlowScript { hs: Hs::Socks5V4, first: n, ops: vec![Op::TargetWrite(n), Op::Sync], ending: Ending::TargetCloses(7), slow_reader_ms: 0, idle_ms: 0 };
    let (rep, _) = run_flow(client_port, &sc, tag);
    match rep.fail {
        Some(f) => Err(f),
        None => Ok(()),
    }
}

/// "Cold" upload: the application completes the handshake, writes `n` bytes and closes at once (a real close(), no
/// warm-up exchange, no sync); the target starts reading `delay_ms` later and must read exactly those bytes and then
/// end-of-stream. This is the everyday shape of a one-shot upload.
pub fn cold_upload(client_port: u16, hs: Hs, n: u32, tag: u64, delay_ms: u16) -> Result<(), FlowFail> {
    cold_upload_opt(client_port, hs, n, tag, delay_ms as u32, false)
}

/// `cold_upload` with a target that may come for the upload much later (`delay_ms` beyond every timer of the relay) and,
/// with `small_rcvbuf`, takes little into its own receive queue meanwhile, so that the upload waits in the server's socket.
pub fn cold_upload_opt(client_port: u16, hs: Hs, n: u32, tag: u64, delay_ms: u32, small_rcvbuf: bool) -> Result<(), FlowFail> {
    use std::io::Read;
    let listener = if small_rcvbuf { Listener::bind_small_rcvbuf(2048) } else { Listener::bind() };
    let (mut app, pre) = net::app_connect(client_port, hs, listener.port, Duration::from_secs(15)).map_err(|e| soft("handshake", format!("local {} handshake failed: {}", hs.name(), e)))?;
    let n = (n as usize).max(1);
    net::write_ks(&mut app, tag, 0, n).map_err(|e| soft("app-write", format!("write of {} bytes: {}", n, e)))?;
    drop(app);
    let Some(mut tgt) = listener.accept(wait()) else {
        return Err(soft("no-dial", format!("the target was not dialled within {:?} after a {}-byte upload", wait(), n)));
    };
    std::thread::sleep(Duration::from_millis(delay_ms as u64));
    tgt.set_read_timeout(Some(wait())).ok();
    let want = pre.len() + n;
    let mut got = Vec::with_capacity(want);
    let mut buf = vec![0u8; 65536];
    let mut how = String::from("more bytes than were written");
    loop {
        match tgt.read(&mut buf) {
            Ok(0) => {
                how = "end-of-stream".to_string();
                break;
            }
            Ok(k) => got.extend_from_slice(&buf[..k]),
            Err(e) if e.kind() == std::io::ErrorKind::WouldBlock || e.kind() == std::io::ErrorKind::TimedOut => {
                return Err(soft("no-eof-at-target", format!("application wrote {} bytes and closed; the target has {} bytes and no end-of-stream after {:?}", want, got.len(), wait())));
            }
            Err(e) => {
                how = format!("error {}", e);
                break;
            }
        }
        if got.len() > want {
            break;
        }
    }
    let mut exp = pre.clone();
    exp.extend_from_slice(&crate::gen::keystream(tag, 0, n));
    if got.len() < want {
        return Err(hard("upload-truncated", format!("application wrote {} bytes and closed; the target got {} bytes and then {}", want, got.len(), how)));
    }
    if got != exp {
        let at = got.iter().zip(exp.iter()).position(|(a, b)| a != b).unwrap_or(exp.len());
        return Err(hard("target-wrong-byte", format!("byte {} received by the target differs from what the application wrote ({} of {} bytes)", at, got.len(), want)));
    }
    if listener.pending() > 0 {
        return Err(hard("extra-dial", "the target port was dialled more than once for one flow".into()));
    }
    Ok(())
}

/// The target answers `n_down` bytes and half-closes (shutdown of its write side, it keeps reading) while the
/// application is still uploading: "when the target closes after answering, the application receives the complete
/// answer followed by end-of-stream" - also when its own upload is still in flight.
pub fn answer_during_upload(client_port: u16, hs: Hs, n_down: u32, tag: u64) -> Result<(), FlowFail> {
    use std::io::Write;
    use std::sync::atomic::{AtomicBool, Ordering};
    // every other answer size goes to an application with a small receive buffer: the relay's writes to the local socket
    // keep hitting a full buffer, so the answer's last bytes are still being flushed when the upload direction learns that
    // the link is closed
    let fl = OpenFlow::open_opt(client_port, hs, 200, tag, if n_down % 2 == 1 { Some(2048) } else { None })?;
    let OpenFlow { app, mut tgt, app_rx, tgt_rx, listener: _listener, tag_a, app_sent, .. } = fl;
    // target content is not verified on this path (the uploader does not track what got through)
    drop(tgt_rx);
    let stop = std::sync::Arc::new(AtomicBool::new(false));
    let stop2 = stop.clone();
    let mut up = app.try_clone().map_err(|e| soft("harness", e.to_string()))?;
    up.set_write_timeout(Some(Duration::from_millis(200))).ok();
    let uploader = std::thread::spawn(move || {
        let mut off = app_sent;
        while !stop2.load(Ordering::Relaxed) {
            let b = crate::gen::keystream(tag_a, off, 16384);
            match up.write(&b) {
                Ok(n) => off += n,
                Err(e) if e.kind() == std::io::ErrorKind::WouldBlock || e.kind() == std::io::ErrorKind::TimedOut => {}
                Err(_) => break,
            }
            std::thread::sleep(Duration::from_millis(1));
        }
    });
    // the target drains what it is sent, answers, and half-closes
    let mut drain = tgt.try_clone().map_err(|e| soft("harness", e.to_string()))?;
    drain.set_read_timeout(Some(Duration::from_millis(100))).ok();
    let stop3 = stop.clone();
    let drainer = std::thread::spawn(move || {
        use std::io::Read;
        let mut buf = vec![0u8; 65536];
        while !stop3.load(Ordering::Relaxed) {
            match drain.read(&mut buf) {
                Ok(0) => break,
                Ok(_) => {}
                Err(e) if e.kind() == std::io::ErrorKind::WouldBlock || e.kind() == std::io::ErrorKind::TimedOut => {}
                Err(_) => break,
            }
        }
    });
    let tag_t = tag * 2 + 2;
    let r = net::write_ks(&mut tgt, tag_t, 0, n_down as usize);
    let _ = tgt.shutdown(Shutdown::Write);
    let res = (|| {
        r.map_err(|e| soft("target-write", format!("target write of {} bytes: {}", n_down, e)))?;
        let (a, _) = app_rx.wait(wait(), |r| r.eof || r.err.is_some());
        if let Some(b) = a.bad_at {
            return Err(hard("app-wrong-byte", format!("byte {} of the answer differs from what the target wrote", b)));
        }
        if a.count < n_down as usize && (a.eof || a.err.is_some()) {
            return Err(hard(
                "answer-truncated-during-upload",
                format!("target wrote {} bytes and half-closed while the application was still uploading; the application got {} bytes and then {}", n_down, a.count, if a.eof { "end-of-stream".to_string() } else { format!("error {:?}", a.err) }),
            ));
        }
        if !a.eof && a.err.is_none() {
            return Err(soft("no-eof-at-app", format!("target wrote {} bytes and half-closed; application has {} bytes and no end-of-stream after {:?}", n_down, a.count, wait())));
        }
        Ok(())
    })();
    stop.store(true, Ordering::Relaxed);
    let _ = app.shutdown(Shutdown::Both);
    let _ = tgt.shutdown(Shutdown::Both);
    let _ = uploader.join();
    let _ = drainer.join();
    res
}

/// The target answers `n_down` bytes and closes; the application - a slow consumer with a small receive buffer, so that
/// most of the answer waits in the client's socket - does not read for `stall_ms` and then reads everything: it must get
/// the complete answer and then end-of-stream, however long it took to come back for it.
pub fn stalled_answer(client_port: u16, hs: Hs, n_down: u32, tag: u64, stall_ms: u32) -> Result<(), FlowFail> {
    use std::io::Read;
    let listener = Listener::bind();
    let (mut app, pre) = net::app_connect_opt(client_port, hs, listener.port, Duration::from_secs(15), Some(2048)).map_err(|e| soft("handshake", format!("local {} handshake failed: {}", hs.name(), e)))?;
    net::write_ks(&mut app, tag * 2 + 1, 0, 120).map_err(|e| soft("app-write", format!("first write: {}", e)))?;
    let Some(mut tgt) = listener.accept(wait()) else {
        return Err(soft("no-dial", format!("the target on port {} was not dialled within {:?}", listener.port, wait())));
    };
    // the target takes the whole request first: closing a socket with unread input would reset the connection, and the
    // loss of the answer's tail would be the target's own doing
    {
        let want = pre.len() + 120;
        let mut req = vec![0u8; want];
        tgt.set_read_timeout(Some(wait())).ok();
        tgt.read_exact(&mut req).map_err(|e| soft("app-to-target-stall", format!("the target did not receive the {}-byte request within {:?}: {}", want, wait(), e)))?;
    }
    let n = (n_down as usize).max(1);
    tgt.set_write_timeout(Some(wait())).ok();
    net::write_ks(&mut tgt, tag * 2 + 2, 0, n).map_err(|e| soft("target-write", format!("target write of {} bytes: {}", n, e)))?;
    let _ = tgt.shutdown(Shutdown::Both);
    drop(tgt);
    std::thread::sleep(Duration::from_millis(stall_ms as u64));
    app.set_read_timeout(Some(wait())).ok();
    let mut got: Vec<u8> = Vec::with_capacity(n);
    let mut buf = vec![0u8; 16384];
    let how;
    loop {
        match app.read(&mut buf) {
            Ok(0) => {
                how = "end-of-stream".to_string();
                break;
            }
            Ok(k) => got.extend_from_slice(&buf[..k]),
            Err(e) if e.kind() == std::io::ErrorKind::WouldBlock || e.kind() == std::io::ErrorKind::TimedOut => {
                return Err(soft("no-eof-at-app", format!("target wrote {} bytes and closed; the application, back after {} ms, has {} bytes and no end-of-stream after {:?}", n, stall_ms, got.len(), wait())));
            }
            Err(e) => {
                how = format!("error {}", e);
                break;
            }
        }
        if got.len() > n {
            return Err(hard("app-extra-bytes", format!("application received {} bytes, target wrote {}", got.len(), n)));
        }
    }
    let exp = crate::gen::keystream(tag * 2 + 2, 0, n);
    if let Some(at) = got.iter().zip(exp.iter()).position(|(a, b)| a != b) {
        return Err(hard("app-wrong-byte", format!("byte {} of the answer differs from what the target wrote", at)));
    }
    if got.len() < n {
        return Err(hard("answer-truncated-for-late-reader", format!("target wrote {} bytes and closed; the application came back for them {} ms later and got {} bytes and then {}", n, stall_ms, got.len(), how)));
    }
    if how != "end-of-stream" {
        return Err(soft("reset-instead-of-eof", format!("target closed cleanly after answering; the late application got all {} bytes but then {}", n, how)));
    }
    Ok(())
}

/// Full duplex in bulk: the application writes `up` bytes and does not read before it has written them all (it has a
/// small receive buffer, so the answer backs up in the relay early), while the target streams `down` bytes from the start
/// and takes the upload at the same time. Both directions are independent: the upload must complete although the
/// download is blocked, then the application reads the whole answer and end-of-stream, and the target has read exactly
/// the upload.
pub fn duplex_bulk(client_port: u16, hs: Hs, up: u32, down: u32, tag: u64) -> Result<(), FlowFail> {
    use std::io::Read;
    let listener = Listener::bind();
    let (mut app, pre) = net::app_connect_opt(client_port, hs, listener.port, Duration::from_secs(15), Some(2048)).map_err(|e| soft("handshake", format!("local {} handshake failed: {}", hs.name(), e)))?;
    let (tag_a, tag_t) = (tag * 2 + 1, tag * 2 + 2);
    net::write_ks(&mut app, tag_a, 0, 64).map_err(|e| soft("app-write", format!("first write: {}", e)))?;
    let Some(tgt) = listener.accept(wait()) else {
        return Err(soft("no-dial", format!("the target on port {} was not dialled within {:?}", listener.port, wait())));
    };
    let (up, down) = (up as usize, down as usize);
    let limit = if crate::rt::failed_already() { Duration::from_secs(6) } else { Duration::from_secs(30) };
    // target: one thread streams the answer, the reader verifies the upload on the fly
    let tgt_rx = Reader::spawn(tgt.try_clone().map_err(|e| soft("harness", e.to_string()))?, pre.clone(), tag_a);
    let mut tw = tgt.try_clone().map_err(|e| soft("harness", e.to_string()))?;
    tw.set_write_timeout(Some(limit)).ok();
    let writer = std::thread::spawn(move || net::write_ks(&mut tw, tag_t, 0, down));
    // application: the whole upload first, no reading meanwhile
    app.set_write_timeout(Some(limit)).ok();
    let wrote = net::write_ks(&mut app, tag_a, 64, up);
    let want_up = pre.len() + 64 + up;
    let res = (|| {
        if let Err(e) = wrote {
            let t = tgt_rx.snap();
            return Err(soft(
                "upload-stalls-while-the-download-is-blocked",
                format!("the application writes {} bytes before it reads; the target streams {} bytes meanwhile: the application's write did not complete within {:?} ({}); the target has {} of {} upload bytes", up, down, limit, e, t.count, want_up),
            ));
        }
        let (t, ok) = tgt_rx.wait(limit, |r| r.count >= want_up || r.eof || r.err.is_some() || r.bad_at.is_some());
        if let Some(b) = t.bad_at {
            return Err(hard("target-wrong-byte", format!("byte {} received by the target differs from what the application wrote", b)));
        }
        if !ok || t.count < want_up {
            return Err(soft("app-to-target-stall", format!("target has {} of {} upload bytes (eof={}, err={:?}) after {:?}", t.count, want_up, t.eof, t.err, limit)));
        }
        // now the application comes for the answer
        app.set_read_timeout(Some(limit)).ok();
        let mut got = 0usize;
        let mut buf = vec![0u8; 1 << 16];
        while got < down {
            match app.read(&mut buf) {
                Ok(0) => return Err(hard("answer-truncated", format!("the application got {} of {} answer bytes and then end-of-stream", got, down))),
                Ok(n) => {
                    let exp = crate::gen::keystream(tag_t, got, n.min(down.saturating_sub(got)));
                    if n > exp.len() {
                        return Err(hard("app-extra-bytes", format!("the application received more than the {} bytes the target wrote", down)));
                    }
                    if let Some(at) = (0..n).find(|i| buf[*i] != exp[*i]) {
                        return Err(hard("app-wrong-byte", format!("byte {} of the answer differs from what the target wrote", got + at)));
                    }
                    got += n;
                }
                Err(e) => return Err(soft("target-to-app-stall", format!("the application has {} of {} answer bytes after {:?}: {}", got, down, limit, e))),
            }
        }
        Ok(())
    })();
    let _ = app.shutdown(Shutdown::Both);
    let _ = tgt.shutdown(Shutdown::Both);
    match writer.join() {
        Ok(Err(e)) if res.is_ok() => return Err(soft("target-write", format!("the target could not write its {} answer bytes: {}", down, e))),
        _ => {}
    }
    res
}

/// The application completes the local handshake and then says nothing for `pause_ms` before its first byte (a client
/// that waits for the user, a protocol in which the other side would speak first). The flow is open from the handshake
/// on: the first bytes, whenever they come, reach the target, and the answer comes back.
pub fn late_first_write(client_port: u16, hs: Hs, pause_ms: u32, tag: u64) -> Result<(), FlowFail> {
    use std::io::{Read, Write};
    let listener = Listener::bind();
    let (mut app, pre) = net::app_connect(client_port, hs, listener.port, Duration::from_secs(15)).map_err(|e| soft("handshake", format!("local {} handshake failed: {}", hs.name(), e)))?;
    std::thread::sleep(Duration::from_millis(pause_ms as u64));
    let up = crate::gen::keystream(tag, 0, 1500);
    if let Err(e) = app.write_all(&up) {
        return Err(soft("first-write-after-a-pause-fails", format!("the application's first write, {} ms after the handshake, failed: {}", pause_ms, e)));
    }
    let Some(mut t) = listener.accept(wait()) else {
        return Err(soft("no-dial-after-a-pause", format!("the application sent its first bytes {} ms after the handshake; the target was not dialled within {:?}", pause_ms, wait())));
    };
    t.set_read_timeout(Some(wait())).ok();
    let mut got = vec![0u8; pre.len() + up.len()];
    t.read_exact(&mut got).map_err(|e| soft("app-to-target-stall", format!("the target did not receive the first bytes sent {} ms after the handshake: {}", pause_ms, e)))?;
    if got[pre.len()..] != up[..] || got[..pre.len()] != pre[..] {
        return Err(hard("target-wrong-byte", "the target received different bytes than the application wrote".into()));
    }
    let down = crate::gen::keystream(tag + 1, 0, 4000);
    t.write_all(&down).map_err(|e| soft("target-write", e.to_string()))?;
    let _ = t.shutdown(Shutdown::Both);
    app.set_read_timeout(Some(wait())).ok();
    let mut back = vec![];
    if let Err(e) = app.read_to_end(&mut back) {
        if back.len() < down.len() {
            return Err(soft("target-to-app-stall", format!("the application has {} of {} answer bytes: {}", back.len(), down.len(), e)));
        }
    }
    if back != down {
        return Err(hard("answer-truncated", format!("the application received {} bytes of a {}-byte answer", back.len(), down.len())));
    }
    Ok(())
}
