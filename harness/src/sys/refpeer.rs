//! Reference peers (filled in below).
