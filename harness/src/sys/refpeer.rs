//! Reference peers on real sockets, assembled from `refimpl` (configured only with the password strings):
//! a reference Shadowsocks UDP client that talks to the real server, and a reference Shadowsocks UDP server that
//! serves the real client. They let a case put chosen packet ids, replays and junk on the link.
use crate::real::{Cred, Proto};
use crate::refimpl::ss2022::{self, UdpClientPacket, UdpServerPacket};
use crate::refimpl::{ss, Addr};
use crate::refside::{ref_keys, RefKeys};
use std::net::{Ipv4Addr, SocketAddr, SocketAddrV4, UdpSocket};
use std::sync::atomic::{AtomicBool, Ordering};
use std::sync::{Arc, Mutex};
use std::time::{Duration, SystemTime, UNIX_EPOCH};

pub fn now_secs() -> u64 {
    SystemTime::now().duration_since(UNIX_EPOCH).map(|d| d.as_secs()).unwrap_or(0)
}

fn rand24() -> Vec<u8> {
    // not security relevant: a distinct XChaCha nonce per reference packet
    static CTR: std::sync::atomic::AtomicU64 = std::sync::atomic::AtomicU64::new(1);
    let c = CTR.fetch_add(1, Ordering::Relaxed);
    let mut h = blake3::Hasher::new();
    h.update(&c.to_le_bytes());
    h.update(&std::process::id().to_le_bytes());
    h.update(&now_secs().to_le_bytes());
    h.finalize().as_bytes()[..24].to_vec()
}

/// Reference Shadowsocks UDP client (2022 and legacy ciphers) speaking to the real server's UDP port.
pub struct RefUdpClient {
    pub sock: UdpSocket,
    pub cred: Cred,
    pub keys: RefKeys,
    pub server: SocketAddr,
    pub sid: u64,
}

impl RefUdpClient {
    pub fn new(cred: &Cred, server_port: u16, sid: u64) -> Result<RefUdpClient, String> {
        let sock = UdpSocket::bind(SocketAddrV4::new(Ipv4Addr::LOCALHOST, 0)).map_err(|e| e.to_string())?;
        sock.set_read_timeout(Some(Duration::from_millis(40))).ok();
        Ok(RefUdpClient { sock, cred: cred.clone(), keys: ref_keys(cred)?, server: SocketAddr::V4(SocketAddrV4::new(Ipv4Addr::LOCALHOST, server_port)), sid })
    }

    /// Wire bytes of one client datagram with the given packet id.
    pub fn build(&self, pid: u64, target: &Addr, payload: &[u8]) -> Vec<u8> {
        match self.cred.proto {
            Proto::Ss22(c) => {
                let p = UdpClientPacket { sid: self.sid, pid, typ: 0, ts: now_secs(), padding: vec![], addr: target.clone(), payload: payload.to_vec(), xnonce: if c.is_aes() { vec![] } else { rand24() } };
                ss2022::encode_udp_client(c, &self.keys.client_upsk, &self.keys.client_ipsks, &p)
            }
            Proto::SsLegacy(l) => {
                let salt = &blake3::hash(&[&pid.to_le_bytes()[..], &self.sid.to_le_bytes()[..], &rand24()].concat()).as_bytes()[..l.key_len()].to_vec();
                ss::encode_datagram(l, &self.keys.legacy_key, salt, target, payload)
            }
            _ => vec![],
        }
    }

    pub fn send_wire(&self, wire: &[u8]) {
        let _ = self.sock.send_to(wire, self.server);
    }

    pub fn send(&self, pid: u64, target: &Addr, payload: &[u8]) -> Vec<u8> {
        let w = self.build(pid, target, payload);
        self.send_wire(&w);
        w
    }

    /// Everything that arrives within `dur`, decoded with the reference: (server packet id, source label, payload).
    pub fn recv_all(&self, dur: Duration) -> Vec<Result<(u64, Addr, Vec<u8>), String>> {
        let t0 = std::time::Instant::now();
        let mut out = vec![];
        let mut buf = vec![0u8; 70000];
        while t0.elapsed() < dur {
            if let Ok((n, _)) = self.sock.recv_from(&mut buf) {
                out.push(self.decode_reply(&buf[..n]));
            }
        }
        out
    }

    pub fn recv_raw(&self, dur: Duration, want: usize) -> Vec<Vec<u8>> {
        let t0 = std::time::Instant::now();
        let mut out = vec![];
        let mut buf = vec![0u8; 70000];
        while t0.elapsed() < dur && out.len() < want {
            if let Ok((n, _)) = self.sock.recv_from(&mut buf) {
                out.push(buf[..n].to_vec());
            }
        }
        out
    }

    pub fn decode_reply(&self, wire: &[u8]) -> Result<(u64, Addr, Vec<u8>), String> {
        match self.cred.proto {
            Proto::Ss22(c) => {
                let d = ss2022::decode_udp_server(c, &self.keys.client_upsk, wire)?;
                if d.pkt.client_sid != self.sid {
                    return Err(format!("reply names client session {} instead of {}", d.pkt.client_sid, self.sid));
                }
                if d.pkt.typ != 1 {
                    return Err(format!("reply type {}", d.pkt.typ));
                }
                Ok((d.pkt.pid, d.pkt.addr, d.pkt.payload))
            }
            Proto::SsLegacy(l) => {
                let (a, p, _) = ss::decode_datagram(l, &self.keys.legacy_key, wire)?;
                Ok((0, a, p))
            }
            _ => Err("not a shadowsocks credential".into()),
        }
    }
}

/// Reference Shadowsocks 2022 UDP *server* for the real client: decodes what the client sends and answers each
/// datagram with replies whose packet ids the case chooses.
pub struct RefUdpServer {
    pub port: u16,
    /// (client session id, packet id, target address, payload) of every datagram that decoded
    pub got: Arc<Mutex<Vec<(u64, u64, Addr, Vec<u8>)>>>,
    pub undecodable: Arc<Mutex<Vec<String>>>,
    /// scripted reply packet ids: for the k-th decoded datagram, replies are sent with the ids in script[k] (in order)
    stop: Arc<AtomicBool>,
    handle: Option<std::thread::JoinHandle<()>>,
}

impl RefUdpServer {
    /// `script[k]` = packet ids of the replies sent in answer to the k-th received datagram; the reply payload is
    /// `reply_payload(k, j)` for the j-th reply. `ssid` is the server session id.
    pub fn spawn(cred: &Cred, port: u16, ssid: u64, script: Vec<Vec<u64>>, reply_payload: fn(usize, usize, u64) -> Vec<u8>) -> Result<RefUdpServer, String> {
        let Proto::Ss22(c) = cred.proto else { return Err("RefUdpServer needs a 2022 cipher".into()) };
        let keys = ref_keys(cred)?;
        let sock = UdpSocket::bind(SocketAddrV4::new(Ipv4Addr::LOCALHOST, port)).map_err(|e| format!("ref server bind: {}", e))?;
        sock.set_read_timeout(Some(Duration::from_millis(30))).ok();
        let got = Arc::new(Mutex::new(vec![]));
        let undecodable = Arc::new(Mutex::new(vec![]));
        let stop = Arc::new(AtomicBool::new(false));
        let (g2, u2, s2) = (got.clone(), undecodable.clone(), stop.clone());
        let handle = std::thread::spawn(move || {
            let mut buf = vec![0u8; 70000];
            let mut k = 0usize;
            while !s2.load(Ordering::Relaxed) {
                let Ok((n, from)) = sock.recv_from(&mut buf) else { continue };
                match ss2022::decode_udp_client(c, &keys.server_psk, &keys.user_psks, &buf[..n]) {
                    Ok(d) => {
                        g2.lock().unwrap().push((d.pkt.sid, d.pkt.pid, d.pkt.addr.clone(), d.pkt.payload.clone()));
                        let ids = script.get(k).cloned().unwrap_or_default();
                        // replies are sealed under the key of the user that sent the datagram (or the single PSK)
                        let key = keys.client_upsk.clone();
                        for (j, pid) in ids.iter().enumerate() {
                            let p = UdpServerPacket {
                                ssid,
                                pid: *pid,
                                typ: 1,
                                ts: now_secs(),
                                client_sid: d.pkt.sid,
                                padding: vec![],
                                addr: d.pkt.addr.clone(),
                                payload: reply_payload(k, j, *pid),
                                xnonce: if c.is_aes() { vec![] } else { rand24() },
                            };
                            let w = ss2022::encode_udp_server(c, &key, &p);
                            let _ = sock.send_to(&w, from);
                            std::thread::sleep(Duration::from_millis(2));
                        }
                        k += 1;
                    }
                    Err(e) => u2.lock().unwrap().push(e),
                }
            }
        });
        Ok(RefUdpServer { port, got, undecodable, stop, handle: Some(handle) })
    }
}

impl Drop for RefUdpServer {
    fn drop(&mut self) {
        self.stop.store(true, Ordering::Relaxed);
        if let Some(h) = self.handle.take() {
            let _ = h.join();
        }
    }
}

// ------------------------------------------------------------------------------------------------ TCP reference peers

use crate::gen::Det;
use crate::refside::{self, ReqOpts, RespOpts};
use std::io::{Read, Write};
use std::net::{TcpListener, TcpStream};

/// Reference client -> real server (plain tcp transport): one request carrying `up` for a scripted target that answers
/// `down` and closes. Ok(()) iff the target saw exactly `up` and the reference decodes the server's response to `down`.
pub fn ref_tcp_roundtrip(cred: &Cred, server_port: u16, up: &[u8], down: &[u8], deadline: Duration) -> Result<(), String> {
    let tl = TcpListener::bind(SocketAddrV4::new(Ipv4Addr::LOCALHOST, 0)).map_err(|e| e.to_string())?;
    let tport = tl.local_addr().map_err(|e| e.to_string())?.port();
    tl.set_nonblocking(true).ok();
    let mut d = Det::new(now_secs() ^ tport as u64, "ref-tcp");
    let frames = refside::ref_client_request(cred, &Addr::V4([127, 0, 0, 1], tport), &[up.to_vec()], &ReqOpts::new(now_secs()), &mut d)?;
    let mut s = TcpStream::connect_timeout(&SocketAddr::V4(SocketAddrV4::new(Ipv4Addr::LOCALHOST, server_port)), deadline).map_err(|e| format!("connect to the server: {}", e))?;
    s.set_nodelay(true).ok();
    s.write_all(&frames.wire).map_err(|e| format!("write request: {}", e))?;
    let t0 = std::time::Instant::now();
    let mut t = loop {
        match tl.accept() {
            Ok((t, _)) => break t,
            Err(_) if t0.elapsed() < deadline => std::thread::sleep(Duration::from_millis(3)),
            Err(_) => return Err(format!("the server did not dial the target within {:?} for a reference-built request", deadline)),
        }
    };
    t.set_nonblocking(false).ok();
    t.set_read_timeout(Some(deadline)).ok();
    let mut got = vec![0u8; up.len()];
    t.read_exact(&mut got).map_err(|e| format!("target read: {}", e))?;
    if got != up {
        return Err("the target received different bytes than the reference client sent".into());
    }
    t.write_all(down).map_err(|e| format!("target write: {}", e))?;
    let _ = t.shutdown(std::net::Shutdown::Both);
    s.set_read_timeout(Some(deadline)).ok();
    let mut resp = vec![];
    let mut buf = [0u8; 16384];
    loop {
        match s.read(&mut buf) {
            Ok(0) => break,
            Ok(n) => resp.extend_from_slice(&buf[..n]),
            Err(e) => {
                if resp.is_empty() {
                    return Err(format!("no response from the server: {}", e));
                }
                break;
            }
        }
    }
    let dec = refside::ref_client_decode(cred, &frames.session, &resp, now_secs()).map_err(|e| format!("the reference cannot decode the server's response ({} bytes): {}", resp.len(), e))?;
    if dec.payload != down {
        return Err(format!("the reference decoded {} response bytes, the target wrote {}", dec.payload.len(), down.len()));
    }
    Ok(())
}

/// Reference server for the real client (plain tcp transport): accepts one connection, decodes the request with the
/// reference, answers `down` with a reference-built response and closes. Returns (target address, payload) it decoded.
pub fn ref_tcp_serve_once(cred: &Cred, listener: &TcpListener, want_payload: usize, down: &[u8], deadline: Duration) -> Result<(Addr, Vec<u8>), String> {
    listener.set_nonblocking(true).ok();
    let t0 = std::time::Instant::now();
    let mut s = loop {
        match listener.accept() {
            Ok((s, _)) => break s,
            Err(_) if t0.elapsed() < deadline => std::thread::sleep(Duration::from_millis(3)),
            Err(_) => return Err(format!("the client did not connect to the reference server within {:?}", deadline)),
        }
    };
    s.set_nonblocking(false).ok();
    s.set_read_timeout(Some(Duration::from_millis(200))).ok();
    let mut wire = vec![];
    let mut buf = [0u8; 16384];
    let mut last_err = String::from("nothing received");
    while t0.elapsed() < deadline {
        match s.read(&mut buf) {
            Ok(0) => break,
            Ok(n) => wire.extend_from_slice(&buf[..n]),
            Err(_) => {}
        }
        if wire.is_empty() {
            continue;
        }
        match refside::ref_server_decode(cred, &wire, now_secs()) {
            Ok(d) if d.payload.len() >= want_payload => {
                let mut det = Det::new(now_secs(), "ref-tcp-resp");
                if let Ok(fr) = refside::ref_server_response(cred, &d.session, &[down.to_vec()], &RespOpts::new(now_secs()), &mut det) {
                    let _ = s.write_all(&fr.wire);
                }
                let _ = s.shutdown(std::net::Shutdown::Both);
                return Ok((d.addr, d.payload));
            }
            Ok(d) => last_err = format!("decoded only {} of {} payload bytes so far", d.payload.len(), want_payload),
            Err(e) => last_err = e,
        }
    }
    Err(format!("the reference server cannot decode what the client sent ({} bytes): {}", wire.len(), last_err))
}

// ---------------------------------------------------------------------------------------------- raw QUIC peer

/// Presents `wire` on one bidirectional stream of a fresh QUIC connection to the server's QUIC listener (the way the
/// real client opens its tunnel: ALPN http/1.1, the fixture certificate as the only root, server name localhost), keeps
/// the stream open for `hold`, and returns what came back meanwhile.
pub fn quic_present(server_port: u16, wire: &[u8], hold: Duration) -> Result<Vec<u8>, String> {
    use quinn::rustls;
    use std::sync::Arc;
    let _ = rustls::crypto::aws_lc_rs::default_provider().install_default();
    let pem = std::fs::read(crate::sys::fixture("cert.pem")).map_err(|e| format!("harness: fixture certificate: {}", e))?;
    let der = pem_to_der(&pem).ok_or("harness: fixture certificate is not PEM")?;
    let mut roots = rustls::RootCertStore::empty();
    roots.add(rustls::pki_types::CertificateDer::from(der)).map_err(|e| format!("harness: root store: {}", e))?;
    let mut tls = rustls::ClientConfig::builder().with_root_certificates(roots).with_no_client_auth();
    tls.alpn_protocols = vec![b"http/1.1".to_vec()];
    let qcc = quinn::crypto::rustls::QuicClientConfig::try_from(tls).map_err(|e| format!("harness: quic config: {}", e))?;
    let rt = tokio::runtime::Builder::new_current_thread().enable_all().build().map_err(|e| e.to_string())?;
    let wire = wire.to_vec();
    rt.block_on(async move {
        let mut ep = quinn::Endpoint::client(SocketAddr::V4(SocketAddrV4::new(Ipv4Addr::LOCALHOST, 0))).map_err(|e| format!("quic endpoint: {}", e))?;
        ep.set_default_client_config(quinn::ClientConfig::new(Arc::new(qcc)));
        let conn = tokio::time::timeout(Duration::from_secs(8), async { ep.connect(SocketAddr::V4(SocketAddrV4::new(Ipv4Addr::LOCALHOST, server_port)), "localhost").map_err(|e| e.to_string())?.await.map_err(|e| e.to_string()) })
            .await
            .map_err(|_| "quic connect timed out".to_string())?
            .map_err(|e| format!("quic connect: {}", e))?;
        let (mut send, mut recv) = conn.open_bi().await.map_err(|e| format!("open_bi: {}", e))?;
        send.write_all(&wire).await.map_err(|e| format!("quic write: {}", e))?;
        let mut got = vec![];
        let _ = tokio::time::timeout(hold, async {
            let mut buf = [0u8; 4096];
            while let Ok(Some(n)) = recv.read(&mut buf).await {
                got.extend_from_slice(&buf[..n]);
            }
        })
        .await;
        conn.close(0u32.into(), b"done");
        ep.wait_idle().await;
        Ok(got)
    })
}

fn pem_to_der(pem: &[u8]) -> Option<Vec<u8>> {
    use base64ct::{Base64, Encoding};
    let t = std::str::from_utf8(pem).ok()?;
    let body: String = t.lines().skip_while(|l| !l.starts_with("-----BEGIN")).skip(1).take_while(|l| !l.starts_with("-----END")).collect();
    Base64::decode_vec(&body).ok()
}
