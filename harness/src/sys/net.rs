//! Scripted local applications and scripted targets (blocking sockets + reader threads).
use crate::gen::keystream;
use serde::{Deserialize, Serialize};
use std::io::{Read, Write};
use std::net::{Ipv4Addr, Shutdown, SocketAddr, SocketAddrV4, TcpListener, TcpStream, UdpSocket};
use std::sync::atomic::{AtomicBool, Ordering};
use std::sync::{Arc, Mutex};
use std::time::{Duration, Instant};

#[derive(Clone, Copy, Debug, PartialEq, Eq, Hash, Serialize, Deserialize)]
pub enum Hs {
    Socks5V4,
    Socks5Domain,
    HttpConnect,
    HttpPlain,
}

impl Hs {
    pub const ALL: [Hs; 4] = [Hs::Socks5V4, Hs::Socks5Domain, Hs::HttpConnect, Hs::HttpPlain];
    pub fn name(&self) -> &'static str {
        match self {
            Hs::Socks5V4 => "socks5-ipv4",
            Hs::Socks5Domain => "socks5-domain",
            Hs::HttpConnect => "http-connect",
            Hs::HttpPlain => "http-plain",
        }
    }
}

fn read_exact_to(s: &mut TcpStream, n: usize) -> Result<Vec<u8>, String> {
    let mut v = vec![0u8; n];
    s.read_exact(&mut v).map_err(|e| format!("handshake read: {}", e))?;
    Ok(v)
}

/// Complete a local handshake with the client. Returns the connected stream and the bytes the *target* must see
/// before any payload (non-empty for plain HTTP only: the request head is forwarded untouched).
pub fn app_connect(client_port: u16, hs: Hs, target_port: u16, tmo: Duration) -> Result<(TcpStream, Vec<u8>), String> {
    app_connect_opt(client_port, hs, target_port, tmo, None)
}

/// A connected loopback socket whose receive buffer was set *before* connecting (so that the window it advertises is
/// small from the first segment on): an application that reads slowly leaves the bytes in the sender's queue.
fn connect_small_rcvbuf(port: u16, rcvbuf: u32) -> Result<TcpStream, String> {
    use std::os::fd::FromRawFd;
    unsafe {
        let fd = libc::socket(libc::AF_INET, libc::SOCK_STREAM | libc::SOCK_CLOEXEC, 0);
        if fd < 0 {
            return Err(format!("socket: {}", std::io::Error::last_os_error()));
        }
        let v: libc::c_int = rcvbuf as libc::c_int;
        libc::setsockopt(fd, libc::SOL_SOCKET, libc::SO_RCVBUF, &v as *const _ as *const libc::c_void, std::mem::size_of::<libc::c_int>() as libc::socklen_t);
        let mut sa: libc::sockaddr_in = std::mem::zeroed();
        sa.sin_family = libc::AF_INET as libc::sa_family_t;
        sa.sin_port = port.to_be();
        sa.sin_addr = libc::in_addr { s_addr: u32::from(Ipv4Addr::LOCALHOST).to_be() };
        if libc::connect(fd, &sa as *const _ as *const libc::sockaddr, std::mem::size_of::<libc::sockaddr_in>() as libc::socklen_t) != 0 {
            let e = std::io::Error::last_os_error();
            libc::close(fd);
            return Err(format!("connect: {}", e));
        }
        Ok(TcpStream::from_raw_fd(fd))
    }
}

/// `app_connect`, optionally with a small receive buffer on the application's socket.
pub fn app_connect_opt(client_port: u16, hs: Hs, target_port: u16, tmo: Duration, rcvbuf: Option<u32>) -> Result<(TcpStream, Vec<u8>), String> {
    let mut s = match rcvbuf {
        None => TcpStream::connect_timeout(&SocketAddr::V4(SocketAddrV4::new(Ipv4Addr::LOCALHOST, client_port)), tmo).map_err(|e| format!("connect to client port: {}", e))?,
        Some(n) => connect_small_rcvbuf(client_port, n).map_err(|e| format!("connect to client port: {}", e))?,
    };
    s.set_nodelay(true).ok();
    s.set_read_timeout(Some(tmo)).ok();
    s.set_write_timeout(Some(tmo)).ok();
    let mut pre = vec![];
    match hs {
        Hs::Socks5V4 | Hs::Socks5Domain => {
            s.write_all(&[5, 1, 0]).map_err(|e| format!("socks5 greeting: {}", e))?;
            let r = read_exact_to(&mut s, 2)?;
            if r != [5, 0] {
                return Err(format!("socks5 method reply {:?}", r));
            }
            let mut req = vec![5u8, 1, 0];
            if hs == Hs::Socks5V4 {
                req.push(1);
                req.extend_from_slice(&[127, 0, 0, 1]);
            } else {
                req.push(3);
                req.push(9);
                req.extend_from_slice(b"localhost");
            }
            req.extend_from_slice(&target_port.to_be_bytes());
            s.write_all(&req).map_err(|e| format!("socks5 request: {}", e))?;
            let h = read_exact_to(&mut s, 4)?;
            if h[0] != 5 || h[1] != 0 {
                return Err(format!("socks5 reply {:?}", h));
            }
            let n = match h[3] {
                1 => 4 + 2,
                4 => 16 + 2,
                3 => read_exact_to(&mut s, 1)?[0] as usize + 2,
                t => return Err(format!("socks5 reply address type {}", t)),
            };
            read_exact_to(&mut s, n)?;
        }
        Hs::HttpConnect => {
            let req = format!("CONNECT 127.0.0.1:{p} HTTP/1.1\r\nHost: 127.0.0.1:{p}\r\nProxy-Connection: keep-alive\r\n\r\n", p = target_port);
            s.write_all(req.as_bytes()).map_err(|e| format!("connect request: {}", e))?;
            let mut got = vec![];
            let mut b = [0u8; 1];
            while !got.ends_with(b"\r\n\r\n") {
                match s.read(&mut b) {
                    Ok(0) => return Err(format!("EOF inside CONNECT reply after {:?}", String::from_utf8_lossy(&got))),
                    Ok(_) => got.push(b[0]),
                    Err(e) => return Err(format!("CONNECT reply read: {}", e)),
                }
                if got.len() > 4096 {
                    return Err("CONNECT reply too long".into());
                }
            }
            let line = String::from_utf8_lossy(&got);
            let code = line.split_whitespace().nth(1).unwrap_or("");
            if !code.starts_with('2') {
                return Err(format!("CONNECT refused: {}", line.lines().next().unwrap_or("")));
            }
        }
        Hs::HttpPlain => {
            let req = format!("POST http://127.0.0.1:{p}/up/load?x=1 HTTP/1.1\r\nHost: 127.0.0.1:{p}\r\nContent-Type: application/octet-stream\r\n\r\n", p = target_port);
            s.write_all(req.as_bytes()).map_err(|e| format!("http request: {}", e))?;
            pre = req.into_bytes();
        }
    }
    Ok((s, pre))
}

/// What a reader thread has seen so far, verified on the fly against `prefix ++ keystream(tag)`.
#[derive(Default, Debug, Clone)]
pub struct Rx {
    pub count: usize,
    pub eof: bool,
    pub err: Option<String>,
    /// first offset at which the received byte differs from the expected stream
    pub bad_at: Option<usize>,
    pub t_eof: Option<Instant>,
}

pub struct Reader {
    pub rx: Arc<Mutex<Rx>>,
    /// while set the thread does not read (a slow application / target)
    pub pause: Arc<AtomicBool>,
    stop: Arc<AtomicBool>,
    handle: Option<std::thread::JoinHandle<()>>,
}

impl Reader {
    pub fn spawn(mut s: TcpStream, prefix: Vec<u8>, tag: u64) -> Reader {
        let rx = Arc::new(Mutex::new(Rx::default()));
        let stop = Arc::new(AtomicBool::new(false));
        let pause = Arc::new(AtomicBool::new(false));
        let (rx2, stop2, pause2) = (rx.clone(), stop.clone(), pause.clone());
        s.set_read_timeout(Some(Duration::from_millis(50))).ok();
        let handle = std::thread::spawn(move || {
            let mut buf = vec![0u8; 65536];
            loop {
                if stop2.load(Ordering::Relaxed) {
                    return;
                }
                if pause2.load(Ordering::Relaxed) {
                    std::thread::sleep(Duration::from_millis(2));
                    continue;
                }
                match s.read(&mut buf) {
                    Ok(0) => {
                        let mut g = rx2.lock().unwrap();
                        g.eof = true;
                        g.t_eof = Some(Instant::now());
                        return;
                    }
                    Ok(n) => {
                        let off = rx2.lock().unwrap().count;
                        let mut exp = Vec::with_capacity(n);
                        if off < prefix.len() {
                            let k = (prefix.len() - off).min(n);
                            exp.extend_from_slice(&prefix[off..off + k]);
                        }
                        if exp.len() < n {
                            let ks_off = (off + exp.len()) - prefix.len();
                            exp.extend_from_slice(&keystream(tag, ks_off, n - exp.len()));
                        }
                        let bad = (0..n).find(|i| buf[*i] != exp[*i]);
                        let mut g = rx2.lock().unwrap();
                        if g.bad_at.is_none() {
                            if let Some(b) = bad {
                                g.bad_at = Some(off + b);
                            }
                        }
                        g.count += n;
                    }
                    Err(e) if e.kind() == std::io::ErrorKind::WouldBlock || e.kind() == std::io::ErrorKind::TimedOut => continue,
                    Err(e) => {
                        let mut g = rx2.lock().unwrap();
                        g.err = Some(e.to_string());
                        g.t_eof = Some(Instant::now());
                        return;
                    }
                }
            }
        });
        Reader { rx, pause, stop, handle: Some(handle) }
    }
    pub fn snap(&self) -> Rx {
        self.rx.lock().unwrap().clone()
    }
    /// wait until `pred` holds or the deadline passes; returns the last snapshot and whether pred held
    pub fn wait(&self, deadline: Duration, pred: impl Fn(&Rx) -> bool) -> (Rx, bool) {
        let t0 = Instant::now();
        loop {
            let s = self.snap();
            if pred(&s) {
                return (s, true);
            }
            if t0.elapsed() > deadline {
                return (s, false);
            }
            std::thread::sleep(Duration::from_millis(2));
        }
    }
}

impl Drop for Reader {
    fn drop(&mut self) {
        self.stop.store(true, Ordering::Relaxed);
        if let Some(h) = self.handle.take() {
            let _ = h.join();
        }
    }
}

/// Write `len` bytes of keystream `tag` starting at `off`, in one write call per `piece` bytes.
pub fn write_ks(s: &mut TcpStream, tag: u64, off: usize, len: usize) -> Result<(), String> {
    let mut done = 0;
    while done < len {
        let n = (len - done).min(1 << 20);
        let b = keystream(tag, off + done, n);
        s.write_all(&b).map_err(|e| format!("write: {}", e))?;
        done += n;
    }
    Ok(())
}

/// A listening target on its own port that records every connection it accepts.
pub struct Listener {
    pub port: u16,
    pub l: TcpListener,
}

impl Listener {
    pub fn bind() -> Listener {
        // bound once and kept: no window in which another process could take the port
        let l = TcpListener::bind(SocketAddrV4::new(Ipv4Addr::LOCALHOST, 0)).expect("harness: bind target");
        let p = l.local_addr().expect("harness: local_addr").port();
        l.set_nonblocking(true).ok();
        Listener { port: p, l }
    }
    /// A listener whose accepted sockets have a small receive buffer (set on the listening socket, so that the window is
    /// small from the first segment on): what is sent to a target that reads late waits in the sender's queue.
    pub fn bind_small_rcvbuf(rcvbuf: u32) -> Listener {
        use std::os::fd::AsRawFd;
        let l = Listener::bind();
        let v: libc::c_int = rcvbuf as libc::c_int;
        unsafe {
            libc::setsockopt(l.l.as_raw_fd(), libc::SOL_SOCKET, libc::SO_RCVBUF, &v as *const _ as *const libc::c_void, std::mem::size_of::<libc::c_int>() as libc::socklen_t);
        }
        l
    }
    pub fn bind_at(p: u16) -> Option<Listener> {
        let l = TcpListener::bind(SocketAddrV4::new(Ipv4Addr::LOCALHOST, p)).ok()?;
        l.set_nonblocking(true).ok();
        Some(Listener { port: p, l })
    }
    pub fn accept(&self, deadline: Duration) -> Option<TcpStream> {
        let t0 = Instant::now();
        loop {
            match self.l.accept() {
                Ok((s, _)) => {
                    s.set_nonblocking(false).ok();
                    s.set_nodelay(true).ok();
                    s.set_write_timeout(Some(Duration::from_secs(30))).ok();
                    return Some(s);
                }
                Err(_) => {
                    if t0.elapsed() > deadline {
                        return None;
                    }
                    std::thread::sleep(Duration::from_millis(2));
                }
            }
        }
    }
    /// number of further connections waiting right now
    pub fn pending(&self) -> usize {
        let mut n = 0;
        while let Ok((_s, _)) = self.l.accept() {
            n += 1;
        }
        n
    }
}

/// A target that listens but whose accept queue is kept full, so that further SYNs are dropped: a connection attempt
/// neither succeeds nor fails until `release` is called (then every pending and later connection is accepted, read to its
/// end and closed).
pub struct StalledTarget {
    pub port: u16,
    l: Option<TcpListener>,
    fillers: Vec<TcpStream>,
    stop: Arc<AtomicBool>,
    acceptor: Option<std::thread::JoinHandle<()>>,
}

impl StalledTarget {
    pub fn new() -> StalledTarget {
        use std::os::fd::AsRawFd;
        let l = TcpListener::bind(SocketAddrV4::new(Ipv4Addr::LOCALHOST, 0)).expect("harness: bind stalled target");
        let port = l.local_addr().expect("harness: local_addr").port();
        // shrink the backlog to its minimum: one established connection fills the queue
        unsafe {
            libc::listen(l.as_raw_fd(), 0);
        }
        let mut fillers = vec![];
        for _ in 0..3 {
            if let Ok(f) = TcpStream::connect_timeout(&SocketAddr::V4(SocketAddrV4::new(Ipv4Addr::LOCALHOST, port)), Duration::from_millis(150)) {
                fillers.push(f);
            }
        }
        StalledTarget { port, l: Some(l), fillers, stop: Arc::new(AtomicBool::new(false)), acceptor: None }
    }
    /// a fresh connection attempt is still pending after 1.2 s
    pub fn is_stalled(&self) -> bool {
        match TcpStream::connect_timeout(&SocketAddr::V4(SocketAddrV4::new(Ipv4Addr::LOCALHOST, self.port)), Duration::from_millis(1200)) {
            Err(e) => e.kind() == std::io::ErrorKind::TimedOut || e.kind() == std::io::ErrorKind::WouldBlock,
            Ok(_) => false,
        }
    }
    pub fn release(&mut self) {
        self.fillers.clear();
        let Some(l) = self.l.take() else { return };
        l.set_nonblocking(true).ok();
        let stop = self.stop.clone();
        self.acceptor = Some(std::thread::spawn(move || {
            while !stop.load(Ordering::Relaxed) {
                match l.accept() {
                    Ok((mut s, _)) => {
                        std::thread::spawn(move || {
                            s.set_nonblocking(false).ok();
                            s.set_read_timeout(Some(Duration::from_secs(60))).ok();
                            let mut b = [0u8; 4096];
                            while let Ok(n) = s.read(&mut b) {
                                if n == 0 {
                                    break;
                                }
                            }
                        });
                    }
                    Err(_) => std::thread::sleep(Duration::from_millis(5)),
                }
            }
        }));
    }
}

impl Drop for StalledTarget {
    fn drop(&mut self) {
        self.stop.store(true, Ordering::Relaxed);
        if let Some(h) = self.acceptor.take() {
            let _ = h.join();
        }
    }
}

pub fn reset(s: &TcpStream) {
    // SO_LINGER 0 => RST on close
    use std::os::fd::AsRawFd;
    let l = libc::linger { l_onoff: 1, l_linger: 0 };
    unsafe {
        libc::setsockopt(s.as_raw_fd(), libc::SOL_SOCKET, libc::SO_LINGER, &l as *const _ as *const libc::c_void, std::mem::size_of::<libc::linger>() as u32);
    }
}

pub fn half_close(s: &TcpStream) {
    let _ = s.shutdown(Shutdown::Write);
}

// ------------------------------------------------------------------------------------------------ UDP

/// SOCKS5-UDP request datagram: RSV(2) FRAG ATYP ADDR PORT DATA
pub fn socks5_udp(target: &crate::refimpl::Addr, data: &[u8]) -> Vec<u8> {
    let mut v = vec![0u8, 0, 0];
    v.extend_from_slice(&target.socks());
    v.extend_from_slice(data);
    v
}

pub fn parse_socks5_udp(d: &[u8]) -> Option<(crate::refimpl::Addr, Vec<u8>)> {
    if d.len() < 4 || d[0] != 0 || d[1] != 0 || d[2] != 0 {
        return None;
    }
    let (a, n) = crate::refimpl::Addr::parse_socks(&d[3..])?;
    Some((a, d[3 + n..].to_vec()))
}

pub fn udp_socket(tmo: Duration) -> UdpSocket {
    let s = UdpSocket::bind(SocketAddrV4::new(Ipv4Addr::LOCALHOST, 0)).expect("harness: udp bind");
    s.set_read_timeout(Some(tmo)).ok();
    s
}

/// An echoing UDP target: answers every datagram with `tag(8) ‖ len(4) ‖ blake3(payload)[..8] ‖ payload`-style reply built by
/// `reply_for`, and records what it received.
pub struct UdpTarget {
    pub port: u16,
    pub got: Arc<Mutex<Vec<(SocketAddr, Vec<u8>)>>>,
    stop: Arc<AtomicBool>,
    handle: Option<std::thread::JoinHandle<()>>,
}

pub fn reply_for(target_tag: u8, payload: &[u8]) -> Vec<u8> {
    let mut v = vec![b'R', target_tag];
    v.extend_from_slice(&(payload.len() as u32).to_be_bytes());
    v.extend_from_slice(payload);
    v
}

impl UdpTarget {
    pub fn spawn(tag: u8, echo: bool) -> UdpTarget {
        UdpTarget::spawn_delayed(tag, echo, 0)
    }

    /// As `spawn`, but every reply is sent `delay_ms` after its request arrived (replies that come back after the
    /// application has moved on to another target).
    pub fn spawn_delayed(tag: u8, echo: bool, delay_ms: u16) -> UdpTarget {
        let s = UdpSocket::bind(SocketAddrV4::new(Ipv4Addr::LOCALHOST, 0)).expect("harness: udp target bind");
        let port = s.local_addr().expect("harness: local_addr").port();
        s.set_read_timeout(Some(Duration::from_millis(2))).ok();
        let got = Arc::new(Mutex::new(vec![]));
        let stop = Arc::new(AtomicBool::new(false));
        let (g2, s2) = (got.clone(), stop.clone());
        let handle = std::thread::spawn(move || {
            let mut buf = vec![0u8; 70000];
            let mut due: std::collections::VecDeque<(Instant, SocketAddr, Vec<u8>)> = Default::default();
            while !s2.load(Ordering::Relaxed) {
                if let Ok((n, from)) = s.recv_from(&mut buf) {
                    g2.lock().unwrap().push((from, buf[..n].to_vec()));
                    if echo {
                        // a request that starts with this marker is answered with an empty datagram
                        let r = if buf[..n].starts_with(b"EMPTYREPLY") { vec![] } else { reply_for(tag, &buf[..n]) };
                        due.push_back((Instant::now() + Duration::from_millis(delay_ms as u64), from, r));
                    }
                }
                while due.front().map(|(t, _, _)| *t <= Instant::now()).unwrap_or(false) {
                    let (_, to, r) = due.pop_front().unwrap();
                    let _ = s.send_to(&r, to);
                }
            }
        });
        UdpTarget { port, got, stop, handle: Some(handle) }
    }
    pub fn received(&self) -> Vec<(SocketAddr, Vec<u8>)> {
        self.got.lock().unwrap().clone()
    }
}

impl Drop for UdpTarget {
    fn drop(&mut self) {
        self.stop.store(true, Ordering::Relaxed);
        if let Some(h) = self.handle.take() {
            let _ = h.join();
        }
    }
}
