//! /proc readers: descriptors and sockets of a process.
use std::collections::HashSet;

#[derive(Clone, Debug, PartialEq, Eq)]
pub struct Sock {
    pub proto: &'static str,
    pub local_port: u16,
    pub remote_port: u16,
    pub state: u8,
    pub inode: u64,
}

fn parse_table(path: &str, proto: &'static str) -> Vec<Sock> {
    let Ok(s) = std::fs::read_to_string(path) else { return vec![] };
    let mut v = vec![];
    for line in s.lines().skip(1) {
        let f: Vec<&str> = line.split_whitespace().collect();
        if f.len() < 10 {
            continue;
        }
        let lp = f[1].rsplit(':').next().and_then(|p| u16::from_str_radix(p, 16).ok()).unwrap_or(0);
        let rp = f[2].rsplit(':').next().and_then(|p| u16::from_str_radix(p, 16).ok()).unwrap_or(0);
        let st = u8::from_str_radix(f[3], 16).unwrap_or(0);
        let inode = f[9].parse().unwrap_or(0);
        v.push(Sock { proto, local_port: lp, remote_port: rp, state: st, inode });
    }
    v
}

pub fn all_socks() -> Vec<Sock> {
    let mut v = parse_table("/proc/net/tcp", "tcp");
    v.extend(parse_table("/proc/net/tcp6", "tcp"));
    v.extend(parse_table("/proc/net/udp", "udp"));
    v.extend(parse_table("/proc/net/udp6", "udp"));
    v
}

/// socket inodes held by `pid`
pub fn socket_inodes(pid: u32) -> HashSet<u64> {
    let mut set = HashSet::new();
    if let Ok(rd) = std::fs::read_dir(format!("/proc/{}/fd", pid)) {
        for e in rd.flatten() {
            if let Ok(t) = std::fs::read_link(e.path()) {
                let t = t.to_string_lossy().into_owned();
                if let Some(r) = t.strip_prefix("socket:[") {
                    if let Ok(i) = r.trim_end_matches(']').parse() {
                        set.insert(i);
                    }
                }
            }
        }
    }
    set
}

pub fn fd_count(pid: u32) -> usize {
    std::fs::read_dir(format!("/proc/{}/fd", pid)).map(|rd| rd.count()).unwrap_or(0)
}

/// sockets of `pid` joined with the kernel tables
pub fn socks_of(pid: u32) -> Vec<Sock> {
    let ino = socket_inodes(pid);
    all_socks().into_iter().filter(|s| ino.contains(&s.inode)).collect()
}

pub const TCP_LISTEN: u8 = 0x0A;
pub const TCP_ESTABLISHED: u8 = 0x01;

pub fn listens_tcp(pid: u32, port: u16) -> bool {
    socks_of(pid).iter().any(|s| s.proto == "tcp" && s.local_port == port && s.state == TCP_LISTEN)
}

pub fn binds_udp(pid: u32, port: u16) -> bool {
    socks_of(pid).iter().any(|s| s.proto == "udp" && s.local_port == port)
}

pub fn threads(pid: u32) -> usize {
    std::fs::read_dir(format!("/proc/{}/task", pid)).map(|rd| rd.count()).unwrap_or(0)
}
