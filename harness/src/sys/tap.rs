//! Byte-transparent TCP forwarder placed between the client and the server: re-cuts the byte stream into generated
//! segment sizes (with optional pauses), can cut every link on command, and counts what passed.
use std::io::{Read, Write};
use std::net::{Ipv4Addr, Shutdown, SocketAddr, SocketAddrV4, TcpListener, TcpStream};
use std::sync::atomic::{AtomicBool, AtomicU64, Ordering};
use std::sync::{Arc, Mutex};
use std::time::Duration;

pub struct Tap {
    pub port: u16,
    stop: Arc<AtomicBool>,
    cut: Arc<AtomicBool>,
    pub bytes_up: Arc<AtomicU64>,
    pub bytes_down: Arc<AtomicU64>,
    pub conns: Arc<AtomicU64>,
    links: Arc<Mutex<Vec<(TcpStream, TcpStream)>>>,
    handle: Option<std::thread::JoinHandle<()>>,
}

#[derive(Clone, Debug)]
pub struct Policy {
    /// segment sizes used cyclically for client->server bytes (empty = forward reads as they come)
    pub up: Vec<usize>,
    pub down: Vec<usize>,
    pub pause_us: u64,
    /// the first segment of each direction is never cut below this many bytes (Shadowsocks 2022 requires salt and
    /// fixed-length header to arrive in one read; the property exempts that boundary)
    pub first_min: usize,
    /// only the first `recut_bytes` of each direction are re-cut (and at most 400 pauses inserted): the tap must not
    /// itself become the reason a deadline is missed
    pub recut_bytes: usize,
}

fn pump(mut from: TcpStream, mut to: TcpStream, sizes: Vec<usize>, policy: Policy, counter: Arc<AtomicU64>, stop: Arc<AtomicBool>) {
    let pause_us = policy.pause_us;
    let mut total = 0usize;
    let mut pauses = 0usize;
    from.set_read_timeout(Some(Duration::from_millis(50))).ok();
    to.set_nodelay(true).ok();
    let mut buf = vec![0u8; 65536];
    let mut k = 0usize;
    loop {
        if stop.load(Ordering::Relaxed) {
            break;
        }
        match from.read(&mut buf) {
            Ok(0) => {
                let _ = to.shutdown(Shutdown::Write);
                break;
            }
            Ok(n) => {
                let mut off = 0;
                while off < n {
                    let mut want = if sizes.is_empty() || total >= policy.recut_bytes { n - off } else { sizes[k % sizes.len()].max(1) };
                    if total == 0 {
                        want = want.max(policy.first_min);
                    }
                    k += 1;
                    let m = want.min(n - off);
                    if to.write_all(&buf[off..off + m]).is_err() {
                        let _ = from.shutdown(Shutdown::Both);
                        return;
                    }
                    counter.fetch_add(m as u64, Ordering::Relaxed);
                    off += m;
                    total += m;
                    if pause_us > 0 && off < n && pauses < 400 && total < policy.recut_bytes {
                        pauses += 1;
                        std::thread::sleep(Duration::from_micros(pause_us));
                    }
                }
            }
            Err(e) if e.kind() == std::io::ErrorKind::WouldBlock || e.kind() == std::io::ErrorKind::TimedOut => continue,
            Err(_) => {
                let _ = to.shutdown(Shutdown::Both);
                break;
            }
        }
    }
}

impl Tap {
    /// A listener for a tap, bound before the client is configured with its port (so nobody else can take the port).
    pub fn reserve() -> (TcpListener, u16) {
        let l = TcpListener::bind(SocketAddrV4::new(Ipv4Addr::LOCALHOST, 0)).expect("harness: tap bind");
        let p = l.local_addr().expect("harness: local_addr").port();
        (l, p)
    }

    pub fn start(l: TcpListener, server_port: u16, policy: Policy) -> Tap {
        let listen_port = l.local_addr().map(|a| a.port()).unwrap_or(0);
        l.set_nonblocking(true).ok();
        let stop = Arc::new(AtomicBool::new(false));
        let cut = Arc::new(AtomicBool::new(false));
        let bytes_up = Arc::new(AtomicU64::new(0));
        let bytes_down = Arc::new(AtomicU64::new(0));
        let conns = Arc::new(AtomicU64::new(0));
        let links: Arc<Mutex<Vec<(TcpStream, TcpStream)>>> = Arc::new(Mutex::new(vec![]));
        let (stop2, up2, down2, conns2, links2) = (stop.clone(), bytes_up.clone(), bytes_down.clone(), conns.clone(), links.clone());
        let handle = std::thread::spawn(move || {
            while !stop2.load(Ordering::Relaxed) {
                match l.accept() {
                    Ok((c, _)) => {
                        c.set_nonblocking(false).ok();
                        let Ok(s) = TcpStream::connect_timeout(&SocketAddr::V4(SocketAddrV4::new(Ipv4Addr::LOCALHOST, server_port)), Duration::from_secs(5)) else {
                            continue;
                        };
                        conns2.fetch_add(1, Ordering::Relaxed);
                        if let (Ok(c2), Ok(s2)) = (c.try_clone(), s.try_clone()) {
                            links2.lock().unwrap().push((c2, s2));
                        }
                        let (Ok(c_r), Ok(s_r)) = (c.try_clone(), s.try_clone()) else { continue };
                        let (p, st) = (policy.clone(), stop2.clone());
                        let u = up2.clone();
                        std::thread::spawn(move || pump(c_r, s, p.up.clone(), p, u, st));
                        let (p, st) = (policy.clone(), stop2.clone());
                        let d = down2.clone();
                        std::thread::spawn(move || pump(s_r, c, p.down.clone(), p, d, st));
                    }
                    Err(_) => std::thread::sleep(Duration::from_millis(2)),
                }
            }
        });
        Tap { port: listen_port, stop, cut, bytes_up, bytes_down, conns, links, handle: Some(handle) }
    }

    /// Cut every link that exists now (both halves closed at once, as a failing network path would).
    pub fn cut_links(&self) {
        self.cut.store(true, Ordering::Relaxed);
        let mut g = self.links.lock().unwrap();
        for (c, s) in g.drain(..) {
            let _ = c.shutdown(Shutdown::Both);
            let _ = s.shutdown(Shutdown::Both);
        }
    }
}

impl Drop for Tap {
    fn drop(&mut self) {
        self.stop.store(true, Ordering::Relaxed);
        self.cut_links();
        if let Some(h) = self.handle.take() {
            let _ = h.join();
        }
    }
}
