//! Reference peers assembled from `refimpl`: a reference client (builds requests, decodes responses) and a
//! reference server (decodes requests, builds responses), configured only from the *configured password strings*.
use crate::gen::Det;
use crate::real::{Cred, Proto};
use crate::refimpl::ss2022::{self, TcpRequest, TcpResponse};
use crate::refimpl::vmess::{self, Body, ReqHeader};
use crate::refimpl::{ss, trojan, unb64, Addr, Unit};

#[derive(Clone, Debug, Default)]
pub struct RefKeys {
    pub legacy_key: Vec<u8>,
    pub server_psk: Vec<u8>,
    pub user_psks: Vec<Vec<u8>>,
    pub client_ipsks: Vec<Vec<u8>>,
    pub client_upsk: Vec<u8>,
    pub cmd_keys: Vec<[u8; 16]>,
    pub client_cmd_key: [u8; 16],
    pub trojan_server_pw: Vec<u8>,
    pub trojan_client_pw: Vec<u8>,
}

fn psk(s: &str, n: usize) -> Result<Vec<u8>, String> {
    let b = unb64(s).ok_or_else(|| format!("PSK {:?} is not base64", s))?;
    if b.len() != n {
        return Err(format!("PSK has {} bytes, cipher needs {}", b.len(), n));
    }
    Ok(b)
}

pub fn ref_keys(cred: &Cred) -> Result<RefKeys, String> {
    let mut k = RefKeys::default();
    let cpw = cred.client_password.clone().unwrap_or_else(|| cred.password.clone());
    match cred.proto {
        Proto::SsLegacy(l) => {
            k.legacy_key = ss::evp_bytes_to_key(cred.password.as_bytes(), l.key_len());
        }
        Proto::Ss22(c) => {
            let n = c.key_len();
            k.server_psk = psk(&cred.password, n)?;
            for (_, p) in &cred.users {
                k.user_psks.push(psk(p, n)?);
            }
            let mut parts: Vec<Vec<u8>> = vec![];
            for s in cpw.split(':') {
                parts.push(psk(s, n)?);
            }
            k.client_upsk = parts.pop().ok_or("empty password")?;
            k.client_ipsks = parts;
        }
        Proto::Vmess(_) => {
            for (_, u) in &cred.users {
                let id = uuid::Uuid::parse_str(u).map_err(|e| e.to_string())?;
                k.cmd_keys.push(vmess::cmd_key(id.as_bytes()));
            }
            let id = uuid::Uuid::parse_str(&cpw).map_err(|e| e.to_string())?;
            k.client_cmd_key = vmess::cmd_key(id.as_bytes());
        }
        Proto::Trojan => {
            k.trojan_server_pw = cred.password.as_bytes().to_vec();
            k.trojan_client_pw = cpw.as_bytes().to_vec();
        }
    }
    Ok(k)
}

/// What a response needs to know about the request it answers.
#[derive(Clone, Debug)]
pub enum SessionInfo {
    None,
    Ss22 { request_salt: Vec<u8>, key: Vec<u8> },
    Vmess(ReqHeader),
}

#[derive(Clone, Debug)]
pub struct Frames {
    pub wire: Vec<u8>,
    /// (end offset on the wire, cumulative application payload bytes deliverable once that offset has arrived)
    pub frame_ends: Vec<(usize, usize)>,
    pub units: Vec<Unit>,
    pub session: SessionInfo,
    /// unauthenticated byte ranges (VMess global padding)
    pub unauth: Vec<(usize, usize)>,
    /// offset at which the handshake header (everything before the first payload-bearing byte) ends
    pub header_end: usize,
}

#[derive(Clone, Debug)]
pub struct ReqOpts {
    pub now: u64,
    pub ts_delta: i64,
    /// Shadowsocks-2022 stream type byte (0 = client request)
    pub typ: u8,
    pub vmess_opt: u8,
    pub vmess_hdr_pad: usize,
    pub ss22_pad: usize,
    /// put the first payload chunk into the header frame (2022 variable header / legacy first chunk)
    pub first_in_header: bool,
    pub udp_cmd: bool,
    /// classic Shadowsocks: the target address is spread over the first two chunks, cut after this many of its bytes
    /// (0 = the whole address sits in the first chunk). The request is a byte stream: any chunking is a valid one.
    pub legacy_addr_split: usize,
}

impl ReqOpts {
    pub fn new(now: u64) -> ReqOpts {
        ReqOpts { now, ts_delta: 0, typ: 0, vmess_opt: 0x1d, vmess_hdr_pad: 0, ss22_pad: 0, first_in_header: true, udp_cmd: false, legacy_addr_split: 0 }
    }
}

pub fn rechunk(chunks: &[Vec<u8>], limit: usize) -> Vec<Vec<u8>> {
    let mut out = vec![];
    for c in chunks {
        if c.is_empty() {
            continue;
        }
        for p in c.chunks(limit) {
            out.push(p.to_vec());
        }
    }
    out
}

fn ends_from_units(units: &[Unit], base_payload: usize) -> Vec<(usize, usize)> {
    let mut cum = base_payload;
    let mut v = vec![];
    for u in units {
        if u.app_bytes > 0 {
            cum += u.app_bytes;
            v.push((u.end, cum));
        }
    }
    v
}

/// Reference client: builds a complete request stream carrying `chunks` for `addr`.
pub fn ref_client_request(cred: &Cred, addr: &Addr, chunks: &[Vec<u8>], o: &ReqOpts, d: &mut Det) -> Result<Frames, String> {
    let k = ref_keys(cred)?;
    ref_client_request_with_keys(cred, &k, addr, chunks, o, d)
}

/// Same, with explicit key material (used to build handshakes under keys that differ from the configured ones).
pub fn ref_client_request_with_keys(cred: &Cred, k: &RefKeys, addr: &Addr, chunks: &[Vec<u8>], o: &ReqOpts, d: &mut Det) -> Result<Frames, String> {
    match cred.proto {
        Proto::SsLegacy(l) => {
            let a = addr.socks();
            let mut cs = rechunk(chunks, 0x3FFF - a.len());
            let split = o.legacy_addr_split.min(a.len() - 1);
            let mut first = a[split..].to_vec();
            if o.first_in_header && !cs.is_empty() {
                first.extend(cs.remove(0));
            }
            let mut all = if split > 0 { vec![a[..split].to_vec(), first] } else { vec![first] };
            all.extend(rechunk(&cs, 0x3FFF));
            let salt = d.bytes(l.key_len());
            let wire = ss::encode_stream(l, &k.legacy_key, &salt, &all);
            let dec = ss::decode_stream(l, &k.legacy_key, &wire, true)?;
            let mut units = dec.units.clone();
            // the address bytes inside the first chunk(s) are not application payload
            let mut left = [split, a.len() - split];
            if split == 0 {
                left = [a.len(), 0];
            }
            let mut header_end = wire.len();
            for (i, u) in units.iter_mut().filter(|u| u.kind == "payload").take(if split > 0 { 2 } else { 1 }).enumerate() {
                u.app_bytes -= left[i];
                header_end = u.end;
            }
            Ok(Frames { frame_ends: ends_from_units(&units, 0), wire, units, session: SessionInfo::None, unauth: vec![], header_end })
        }
        Proto::Ss22(c) => {
            let mut cs = rechunk(chunks, 0xFFFF);
            let a = addr.socks();
            let mut first = vec![];
            if o.first_in_header && !cs.is_empty() {
                let room = 0xFFFF - a.len() - 2 - o.ss22_pad;
                let f = cs.remove(0);
                if f.len() <= room {
                    first = f;
                } else {
                    first = f[..room].to_vec();
                    cs.insert(0, f[room..].to_vec());
                }
            }
            let pad_len = if first.is_empty() && o.ss22_pad == 0 { 1 } else { o.ss22_pad };
            let req = TcpRequest {
                salt: d.bytes(c.key_len()),
                ts: (o.now as i64).wrapping_add(o.ts_delta) as u64,
                typ: o.typ,
                addr: addr.clone(),
                padding: d.bytes(pad_len),
                first,
                chunks: cs,
            };
            let ipsks = if c.is_aes() { k.client_ipsks.clone() } else { vec![] };
            let wire = ss2022::encode_tcp_request(c, &k.client_upsk, &ipsks, &req);
            let kl = c.key_len();
            // decode with knowledge of the chain to recover the unit table
            let dec = decode_own_ss22_request(c, &k.client_upsk, ipsks.len(), &wire)?;
            let _ = kl;
            Ok(Frames {
                frame_ends: ends_from_units(&dec.units, 0),
                header_end: dec.header_end,
                wire,
                units: dec.units,
                session: SessionInfo::Ss22 { request_salt: req.salt.clone(), key: k.client_upsk.clone() },
                unauth: vec![],
            })
        }
        Proto::Vmess(sec) => {
            let hdr = ReqHeader {
                body_iv: d.arr(),
                body_key: d.arr(),
                v: d.u8(),
                opt: o.vmess_opt,
                pad: d.bytes(o.vmess_hdr_pad.min(15)),
                sec,
                cmd: if o.udp_cmd { 2 } else { 1 },
                addr: addr.clone(),
            };
            let ts = (o.now as i64).wrapping_add(o.ts_delta);
            let mut wire = vmess::seal_request_header(&k.client_cmd_key, ts, d.arr(), d.arr(), &hdr.plain());
            let hl = wire.len();
            let body = Body::request(&hdr);
            let cs = if o.udp_cmd { chunks.to_vec() } else { rechunk(chunks, 16384 - 64) };
            let mut dd = Det::new(d.u64(), "vmess-pad");
            wire.extend(body.encode(&cs, &mut || dd.u8()));
            let bd = body.decode(&wire[hl..])?;
            let opened = vmess::open_request_header(&[k.client_cmd_key], &wire)?;
            let mut units = opened.units.clone();
            units.extend(bd.units.iter().map(|u| Unit { start: u.start + hl, end: u.end + hl, ..u.clone() }));
            let unauth = bd.padding.iter().map(|(a, b)| (a + hl, b + hl)).collect::<Vec<_>>();
            // a frame is complete only after its trailing padding
            let mut frame_ends = vec![];
            let mut cum = 0;
            let mut pi = 0;
            for u in units.iter().filter(|u| u.kind == "payload") {
                cum += u.app_bytes;
                let mut end = u.end;
                if pi < unauth.len() && unauth[pi].0 == end {
                    end = unauth[pi].1;
                    pi += 1;
                }
                if u.app_bytes > 0 {
                    frame_ends.push((end, cum));
                }
            }
            Ok(Frames { wire, frame_ends, units, session: SessionInfo::Vmess(hdr), unauth, header_end: hl })
        }
        Proto::Trojan => {
            let cmd = if o.udp_cmd { trojan::CMD_UDP } else { trojan::CMD_CONNECT };
            let mut wire = trojan::encode_request(&k.trojan_client_pw, cmd, addr, &[]);
            let hl = wire.len();
            let mut frame_ends = vec![];
            let mut cum = 0;
            for c in chunks {
                wire.extend_from_slice(c);
                cum += c.len();
                if !c.is_empty() {
                    frame_ends.push((wire.len(), cum));
                }
            }
            Ok(Frames { wire, frame_ends, units: vec![], session: SessionInfo::None, unauth: vec![], header_end: hl })
        }
    }
}

fn decode_own_ss22_request(c: ss2022::C22, upsk: &[u8], n_eih: usize, wire: &[u8]) -> Result<ss2022::TcpRequestDecoded, String> {
    ss2022::decode_tcp_request(c, upsk, &[], n_eih, wire)
}

#[derive(Clone, Debug)]
pub struct DecodedRequest {
    pub addr: Addr,
    pub payload: Vec<u8>,
    pub user: Option<usize>,
    pub units: Vec<Unit>,
    pub session: SessionInfo,
    pub notes: Vec<String>,
    pub udp_cmd: bool,
    /// VMess UDP command / Trojan UDP: payload as a datagram list
    pub datagrams: Vec<(Option<Addr>, Vec<u8>)>,
}

/// Reference server: decode a client request stream (as far as complete), enforcing sender limits.
pub fn ref_server_decode(cred: &Cred, wire: &[u8], now: u64) -> Result<DecodedRequest, String> {
    let k = ref_keys(cred)?;
    match cred.proto {
        Proto::SsLegacy(l) => {
            let d = ss::decode_stream(l, &k.legacy_key, wire, true)?;
            let plain: Vec<u8> = d.chunks.concat();
            let (addr, payload) = ss::split_request(&plain).ok_or("request plaintext does not start with a complete address")?;
            Ok(DecodedRequest { addr, payload, user: None, units: d.units, session: SessionInfo::None, notes: vec![], udp_cmd: false, datagrams: vec![] })
        }
        Proto::Ss22(c) => {
            let users = if c.is_aes() { k.user_psks.clone() } else { vec![] };
            let d = ss2022::decode_tcp_request(c, &k.server_psk, &users, 0, wire)?;
            if d.req.typ != 0 {
                return Err(format!("request type byte {} != 0", d.req.typ));
            }
            if (d.req.ts as i64 - now as i64).abs() > 30 {
                return Err(format!("timestamp {} more than 30 s from {}", d.req.ts, now));
            }
            if d.req.padding.len() > 900 {
                return Err(format!("padding {} > 900", d.req.padding.len()));
            }
            let mut payload = d.req.first.clone();
            for ch in &d.req.chunks {
                payload.extend_from_slice(ch);
            }
            let key = match d.user {
                Some(u) => users[u].clone(),
                None => k.server_psk.clone(),
            };
            let mut notes = vec![];
            if d.req.first.is_empty() && d.req.padding.is_empty() {
                notes.push("request with neither payload nor padding".to_string());
            }
            Ok(DecodedRequest {
                addr: d.req.addr.clone(),
                payload,
                user: d.user,
                units: d.units,
                session: SessionInfo::Ss22 { request_salt: d.req.salt.clone(), key },
                notes,
                udp_cmd: false,
                datagrams: vec![],
            })
        }
        Proto::Vmess(_) => {
            let o = vmess::open_request_header(&k.cmd_keys, wire)?;
            if (o.ts - now as i64).abs() > 120 {
                return Err(format!("auth-id timestamp {} more than 120 s from {}", o.ts, now));
            }
            let h = &o.header;
            if h.sec != vmess::SEC_AES && h.sec != vmess::SEC_CHACHA {
                return Err(format!("security {} not an AEAD security", h.sec));
            }
            if h.cmd != 1 && h.cmd != 2 {
                return Err(format!("command {}", h.cmd));
            }
            if !vmess::valid_masks().contains(&h.opt) {
                return Err(format!("option mask {:#x} is not one a conforming peer accepts", h.opt));
            }
            let body = Body::request(h);
            let bd = body.decode(&wire[o.consumed..])?;
            if bd.max_data > Body::MAX_DATA {
                return Err(format!("chunk of {} data bytes exceeds 2^14", bd.max_data));
            }
            let mut units = o.units.clone();
            units.extend(bd.units.iter().map(|u| Unit { start: u.start + o.consumed, end: u.end + o.consumed, ..u.clone() }));
            let udp = h.cmd == 2;
            Ok(DecodedRequest {
                addr: h.addr.clone(),
                payload: bd.chunks.concat(),
                user: Some(o.user),
                units,
                session: SessionInfo::Vmess(h.clone()),
                notes: vec![],
                udp_cmd: udp,
                datagrams: if udp { bd.chunks.iter().map(|c| (None, c.clone())).collect() } else { vec![] },
            })
        }
        Proto::Trojan => {
            let (cmd, addr, hl) = trojan::decode_request(&k.trojan_server_pw, wire)?;
            let rest = &wire[hl..];
            if cmd == trojan::CMD_UDP {
                let (units, used) = trojan::decode_udp_units(rest)?;
                let _ = used;
                Ok(DecodedRequest {
                    addr,
                    payload: units.iter().flat_map(|(_, p)| p.clone()).collect(),
                    user: None,
                    units: vec![],
                    session: SessionInfo::None,
                    notes: vec![],
                    udp_cmd: true,
                    datagrams: units.into_iter().map(|(a, p)| (Some(a), p)).collect(),
                })
            } else if cmd == trojan::CMD_CONNECT {
                Ok(DecodedRequest { addr, payload: rest.to_vec(), user: None, units: vec![], session: SessionInfo::None, notes: vec![], udp_cmd: false, datagrams: vec![] })
            } else {
                Err(format!("command {}", cmd))
            }
        }
    }
}

#[derive(Clone, Debug)]
pub struct RespOpts {
    pub now: u64,
    pub ts_delta: i64,
    pub typ: u8,
    /// override of the echoed request salt (None = the session's)
    pub echo: Option<Vec<u8>>,
    /// override of the VMess response authentication byte
    pub v: Option<u8>,
    pub udp_cmd: bool,
}

impl RespOpts {
    pub fn new(now: u64) -> RespOpts {
        RespOpts { now, ts_delta: 0, typ: 1, echo: None, v: None, udp_cmd: false }
    }
}

/// Reference server: builds a response stream carrying `chunks`, answering `session`.
pub fn ref_server_response(cred: &Cred, session: &SessionInfo, chunks: &[Vec<u8>], o: &RespOpts, d: &mut Det) -> Result<Frames, String> {
    let k = ref_keys(cred)?;
    match cred.proto {
        Proto::SsLegacy(l) => {
            let cs = rechunk(chunks, 0x3FFF);
            let salt = d.bytes(l.key_len());
            let wire = ss::encode_stream(l, &k.legacy_key, &salt, &cs);
            let dec = ss::decode_stream(l, &k.legacy_key, &wire, true)?;
            Ok(Frames { frame_ends: ends_from_units(&dec.units, 0), wire, units: dec.units, session: SessionInfo::None, unauth: vec![], header_end: l.key_len() })
        }
        Proto::Ss22(c) => {
            let SessionInfo::Ss22 { request_salt, key } = session else {
                return Err("harness: response without a 2022 session".into());
            };
            let mut cs = rechunk(chunks, 0xFFFF);
            let first = if cs.is_empty() { vec![] } else { cs.remove(0) };
            let resp = TcpResponse {
                salt: d.bytes(c.key_len()),
                ts: (o.now as i64).wrapping_add(o.ts_delta) as u64,
                typ: o.typ,
                request_salt: o.echo.clone().unwrap_or_else(|| request_salt.clone()),
                first,
                chunks: cs,
            };
            let wire = ss2022::encode_tcp_response(c, key, &resp);
            let dec = ss2022::decode_tcp_response(c, key, &wire)?;
            let header_end = dec.units[0].end;
            Ok(Frames { frame_ends: ends_from_units(&dec.units, 0), wire, units: dec.units, session: session.clone(), unauth: vec![], header_end })
        }
        Proto::Vmess(_) => {
            let SessionInfo::Vmess(h) = session else {
                return Err("harness: response without a VMess session".into());
            };
            let (rk, ri) = vmess::response_keys(&h.body_key, &h.body_iv);
            let mut wire = vmess::encode_response_header(&rk, &ri, o.v.unwrap_or(h.v), h.opt);
            let hl = wire.len();
            let body = Body::response(h);
            let cs = if o.udp_cmd { chunks.to_vec() } else { rechunk(chunks, 16384 - 64) };
            let mut dd = Det::new(d.u64(), "vmess-pad");
            wire.extend(body.encode(&cs, &mut || dd.u8()));
            let bd = body.decode(&wire[hl..])?;
            let (_, _, mut units) = vmess::decode_response_header(&rk, &ri, &wire)?;
            units.extend(bd.units.iter().map(|u| Unit { start: u.start + hl, end: u.end + hl, ..u.clone() }));
            let unauth = bd.padding.iter().map(|(a, b)| (a + hl, b + hl)).collect::<Vec<_>>();
            let mut frame_ends = vec![];
            let mut cum = 0;
            let mut pi = 0;
            for u in units.iter().filter(|u| u.kind == "payload") {
                cum += u.app_bytes;
                let mut end = u.end;
                if pi < unauth.len() && unauth[pi].0 == end {
                    end = unauth[pi].1;
                    pi += 1;
                }
                if u.app_bytes > 0 {
                    frame_ends.push((end, cum));
                }
            }
            Ok(Frames { wire, frame_ends, units, session: session.clone(), unauth, header_end: hl })
        }
        Proto::Trojan => {
            let mut wire = vec![];
            let mut frame_ends = vec![];
            let mut cum = 0;
            for c in chunks {
                wire.extend_from_slice(c);
                cum += c.len();
                if !c.is_empty() {
                    frame_ends.push((wire.len(), cum));
                }
            }
            Ok(Frames { wire, frame_ends, units: vec![], session: SessionInfo::None, unauth: vec![], header_end: 0 })
        }
    }
}

#[derive(Clone, Debug)]
pub struct DecodedResponse {
    pub payload: Vec<u8>,
    pub units: Vec<Unit>,
    pub chunks: Vec<Vec<u8>>,
}

/// Reference client: decode a server response stream belonging to `session`.
pub fn ref_client_decode(cred: &Cred, session: &SessionInfo, wire: &[u8], now: u64) -> Result<DecodedResponse, String> {
    let k = ref_keys(cred)?;
    match cred.proto {
        Proto::SsLegacy(l) => {
            let d = ss::decode_stream(l, &k.legacy_key, wire, true)?;
            Ok(DecodedResponse { payload: d.chunks.concat(), units: d.units, chunks: d.chunks })
        }
        Proto::Ss22(c) => {
            let SessionInfo::Ss22 { request_salt, key } = session else {
                return Err("harness: no 2022 session".into());
            };
            let d = ss2022::decode_tcp_response(c, key, wire)?;
            if d.resp.typ != 1 {
                return Err(format!("response type byte {} != 1", d.resp.typ));
            }
            if (d.resp.ts as i64 - now as i64).abs() > 30 {
                return Err(format!("response timestamp {} more than 30 s from {}", d.resp.ts, now));
            }
            if &d.resp.request_salt != request_salt {
                return Err("response does not echo the request salt".into());
            }
            let mut chunks = vec![d.resp.first.clone()];
            chunks.extend(d.resp.chunks.clone());
            Ok(DecodedResponse { payload: chunks.concat(), units: d.units, chunks })
        }
        Proto::Vmess(_) => {
            let SessionInfo::Vmess(h) = session else {
                return Err("harness: no VMess session".into());
            };
            let (rk, ri) = vmess::response_keys(&h.body_key, &h.body_iv);
            let (hb, hl, mut units) = vmess::decode_response_header(&rk, &ri, wire)?;
            if hb.len() < 4 {
                return Err("response header shorter than 4 bytes".into());
            }
            if hb[0] != h.v {
                return Err(format!("response authentication byte {} != {}", hb[0], h.v));
            }
            let body = Body::response(h);
            let bd = body.decode(&wire[hl..])?;
            if bd.max_data > Body::MAX_DATA {
                return Err(format!("chunk of {} data bytes exceeds 2^14", bd.max_data));
            }
            units.extend(bd.units.iter().map(|u| Unit { start: u.start + hl, end: u.end + hl, ..u.clone() }));
            Ok(DecodedResponse { payload: bd.chunks.concat(), units, chunks: bd.chunks })
        }
        Proto::Trojan => Ok(DecodedResponse { payload: wire.to_vec(), units: vec![], chunks: vec![wire.to_vec()] }),
    }
}
