//! Driving real codecs synchronously with FramedRead's calling convention (decode until Ok(None), stop at the
//! first error), with panic capture.
use crate::real::{Item, ServerTcp};
use crate::refimpl::Addr;
use crate::rt::catch;
use bytes::BytesMut;
use tokio_util::codec::{Decoder, Encoder};

pub struct Fed<T> {
    pub items: Vec<T>,
    pub err: Option<String>,
    pub panic: Option<String>,
    /// bytes still buffered undecoded at the end
    pub leftover: usize,
    /// number of decode calls made
    pub calls: usize,
}

impl<T> Fed<T> {
    pub fn clean(&self) -> bool {
        self.err.is_none() && self.panic.is_none()
    }
}

/// Feed segments the way `FramedRead` does: append a segment, call `decode` until it returns `Ok(None)`;
/// stop at the first `Err` (FramedRead yields the error and then ends) or panic.
pub fn feed<D: Decoder>(dec: &mut D, segs: &[Vec<u8>]) -> Fed<D::Item>
where
    D::Error: std::fmt::Display,
{
    feed_with(dec, segs, |_| {})
}

/// `feed`, with `before(i)` called just before segment i is delivered (moves the clock between reads).
pub fn feed_with<D: Decoder>(dec: &mut D, segs: &[Vec<u8>], mut before: impl FnMut(usize)) -> Fed<D::Item>
where
    D::Error: std::fmt::Display,
{
    let mut buf = BytesMut::new();
    let mut out = Fed { items: vec![], err: None, panic: None, leftover: 0, calls: 0 };
    'outer: for (si, s) in segs.iter().enumerate() {
        before(si);
        buf.extend_from_slice(s);
        loop {
            out.calls += 1;
            match catch(|| dec.decode(&mut buf)) {
                Err(p) => {
                    out.panic = Some(p);
                    break 'outer;
                }
                Ok(Err(e)) => {
                    out.err = Some(e.to_string());
                    break 'outer;
                }
                Ok(Ok(None)) => break,
                Ok(Ok(Some(it))) => out.items.push(it),
            }
            if out.calls > 1_000_000 {
                out.err = Some("harness: decode loop did not terminate".into());
                break 'outer;
            }
        }
    }
    out.leftover = buf.len();
    out
}

/// Encode items one by one into a single buffer; returns per-item end offsets.
pub fn encode_all<E, I>(enc: &mut E, items: Vec<I>) -> Result<(Vec<u8>, Vec<usize>), String>
where
    E: Encoder<I>,
    E::Error: std::fmt::Display,
{
    let mut buf = BytesMut::new();
    let mut ends = vec![];
    for it in items {
        match catch(|| enc.encode(it, &mut buf)) {
            Err(p) => return Err(format!("panic: {}", p)),
            Ok(Err(e)) => return Err(format!("encode error: {}", e)),
            Ok(Ok(())) => ends.push(buf.len()),
        }
    }
    Ok((buf.to_vec(), ends))
}

/// Server-side caller model (server/template.rs relay_to): the first item decides the flow.
#[derive(Debug, Clone, PartialEq, Eq)]
pub enum Flow {
    /// nothing yielded yet
    Idle,
    /// ConnectTcp first: dial addr, stream bytes
    Tcp { addr: Addr, bytes: Vec<u8> },
    /// RelayUdp first: datagram list (each with its own destination)
    Udp { datagrams: Vec<(Addr, Vec<u8>)> },
    /// RelayTcp first: flow rejected ("expect a connect message for the first time")
    Rejected,
    /// later item of the wrong kind for the flow (try_into fails => flow error)
    Confused(String),
}

pub fn flow_of(items: &[Item]) -> Flow {
    let mut f = Flow::Idle;
    for it in items {
        f = match (f, it) {
            (Flow::Idle, Item::Connect(b, a)) => Flow::Tcp { addr: a.clone(), bytes: b.clone() },
            (Flow::Idle, Item::Udp(b, a)) => Flow::Udp { datagrams: vec![(a.clone(), b.clone())] },
            (Flow::Idle, Item::Tcp(_)) => Flow::Rejected,
            (Flow::Tcp { addr, mut bytes }, Item::Tcp(b)) => {
                bytes.extend_from_slice(b);
                Flow::Tcp { addr, bytes }
            }
            (Flow::Tcp { .. }, other) => Flow::Confused(format!("{:?} inside a TCP flow", kind(other))),
            (Flow::Udp { mut datagrams }, Item::Udp(b, a)) => {
                datagrams.push((a.clone(), b.clone()));
                Flow::Udp { datagrams }
            }
            (Flow::Udp { .. }, other) => Flow::Confused(format!("{:?} inside a UDP flow", kind(other))),
            (f @ Flow::Rejected, _) | (f @ Flow::Confused(_), _) => f,
        };
    }
    f
}

fn kind(i: &Item) -> &'static str {
    match i {
        Item::Connect(..) => "ConnectTcp",
        Item::Tcp(..) => "RelayTcp",
        Item::Udp(..) => "RelayUdp",
    }
}

/// Feed a real server decoder and convert what it yields. Returns (items, all addresses valid UTF-8, Fed meta).
pub fn feed_server(dec: &mut ServerTcp, segs: &[Vec<u8>]) -> (Vec<Item>, bool, Fed<()>) {
    let fed = feed(dec, segs);
    let mut ok_utf8 = true;
    let items = fed
        .items
        .iter()
        .map(|i| {
            let (it, v) = Item::from_inbound(i);
            ok_utf8 &= v;
            it
        })
        .collect();
    (items, ok_utf8, Fed { items: vec![], err: fed.err, panic: fed.panic, leftover: fed.leftover, calls: fed.calls })
}

/// Cut `wire` at the given sorted offsets (offsets outside 1..len are ignored).
pub fn cut(wire: &[u8], cuts: &[usize]) -> Vec<Vec<u8>> {
    let mut v = vec![];
    let mut last = 0;
    let mut cs: Vec<usize> = cuts.iter().copied().filter(|c| *c > 0 && *c < wire.len()).collect();
    cs.sort();
    cs.dedup();
    for c in cs {
        v.push(wire[last..c].to_vec());
        last = c;
    }
    v.push(wire[last..].to_vec());
    v
}
