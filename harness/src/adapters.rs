//! Mock transports that deliver a chosen segmentation and then go quiet, under the *real* adapters
//! (tokio_util FramedRead, octo_squirrel WebSocketFramed), run to quiescence on a paused current-thread runtime:
//! "all input delivered, runtime idle, item still missing" is then a deterministic statement (no wall clock).
use crate::rt::catch;
use bytes::BytesMut;
use futures::{SinkExt, StreamExt};
use octo_squirrel::codec::WebSocketFramed;
use std::collections::VecDeque;
use std::pin::Pin;
use std::task::{Context, Poll};
use std::time::Duration;
use tokio::io::{AsyncRead, ReadBuf};
use tokio_util::codec::{Decoder, Encoder, FramedRead};

/// Hands out scripted segments, at most one per `poll_read`, then EOF or pending-forever (never wakes).
pub struct SegReader {
    segs: VecDeque<Vec<u8>>,
    eof: bool,
}

impl SegReader {
    pub fn new(segs: Vec<Vec<u8>>, eof: bool) -> SegReader {
        SegReader { segs: segs.into_iter().filter(|s| !s.is_empty()).collect(), eof }
    }
}

impl AsyncRead for SegReader {
    fn poll_read(mut self: Pin<&mut Self>, _cx: &mut Context<'_>, buf: &mut ReadBuf<'_>) -> Poll<std::io::Result<()>> {
        match self.segs.pop_front() {
            Some(mut seg) => {
                let n = seg.len().min(buf.remaining());
                buf.put_slice(&seg[..n]);
                if n < seg.len() {
                    let rest = seg.split_off(n);
                    self.segs.push_front(rest);
                }
                Poll::Ready(Ok(()))
            }
            None => {
                if self.eof {
                    Poll::Ready(Ok(()))
                } else {
                    Poll::Pending
                }
            }
        }
    }
}

#[derive(Debug)]
pub struct Collected<T> {
    /// everything the adapter yielded, in order, until it ended or went quiet
    pub seq: Vec<Result<T, String>>,
    /// the stream returned None
    pub ended: bool,
    pub panic: Option<String>,
}

impl<T> Collected<T> {
    pub fn first_err(&self) -> Option<&String> {
        self.seq.iter().find_map(|r| r.as_ref().err())
    }
    pub fn oks(&self) -> impl Iterator<Item = &T> {
        self.seq.iter().filter_map(|r| r.as_ref().ok())
    }
}

fn runtime() -> tokio::runtime::Runtime {
    tokio::runtime::Builder::new_current_thread().enable_time().start_paused(true).build().expect("runtime")
}

const MAX_ITEMS: usize = 200_000;

/// FramedRead over a SegReader, run to quiescence.
pub fn run_framed<D>(decoder: D, segs: Vec<Vec<u8>>, eof: bool) -> Collected<D::Item>
where
    D: Decoder + 'static,
    D::Error: std::fmt::Display,
    D::Item: 'static,
{
    let r = catch(move || {
        let rt = runtime();
        rt.block_on(async move {
            let mut framed = FramedRead::new(SegReader::new(segs, eof), decoder);
            let mut seq = vec![];
            let mut ended = false;
            let consumer = async {
                loop {
                    match framed.next().await {
                        Some(Ok(it)) => seq.push(Ok(it)),
                        Some(Err(e)) => seq.push(Err(e.to_string())),
                        None => {
                            ended = true;
                            break;
                        }
                    }
                    if seq.len() > MAX_ITEMS {
                        break;
                    }
                }
            };
            // the sleep only completes when the consumer is parked with nothing to wake it (auto-advance)
            tokio::select! {
                _ = consumer => {}
                _ = tokio::time::sleep(Duration::from_secs(3600)) => {}
            }
            (seq, ended)
        })
    });
    match r {
        Ok((seq, ended)) => Collected { seq, ended, panic: None },
        Err(p) => Collected { seq: vec![], ended: false, panic: Some(p) },
    }
}

#[derive(Clone, Copy, PartialEq, Eq, Debug)]
pub enum WsRole {
    /// the adapter under test is the server end (peer = client, masks its frames)
    Server,
    /// the adapter under test is the client end
    Client,
}

/// WebSocketFramed over an in-memory duplex; the peer sends one binary message per element of `msgs`
/// (`frames_per_write` > 1 coalesces several messages into one transport write), then closes or stays quiet.
pub fn run_ws<C, E, D>(codec: C, msgs: Vec<Vec<u8>>, role: WsRole, close: bool) -> Collected<D>
where
    C: Encoder<E, Error = anyhow::Error> + Decoder<Item = D, Error = anyhow::Error> + Unpin + 'static,
    D: std::fmt::Debug + 'static,
    E: 'static,
{
    let total: usize = msgs.iter().map(|m| m.len() + 32).sum::<usize>() + 1024;
    let r = catch(move || {
        let rt = runtime();
        let local = tokio::task::LocalSet::new();
        local.block_on(&rt, async move {
            let (a, b) = tokio::io::duplex(total.max(65536) * 2);
            let (mut peer, under_test) = match role {
                WsRole::Server => (tokio_websockets::ClientBuilder::new().take_over(a), tokio_websockets::ServerBuilder::new().serve(b)),
                WsRole::Client => (tokio_websockets::ServerBuilder::new().serve(a), tokio_websockets::ClientBuilder::new().take_over(b)),
            };
            let mut framed: WebSocketFramed<_, C, E, D> = WebSocketFramed::new(under_test, codec);
            let seq = std::rc::Rc::new(std::cell::RefCell::new(Vec::new()));
            let ended = std::rc::Rc::new(std::cell::Cell::new(false));
            // The consumer is its own task, as the relay task is in the product: it is re-polled only when something it
            // registered a waker with wakes it. A `Poll::Pending` returned without a registered waker parks it for good.
            let (seq2, ended2) = (seq.clone(), ended.clone());
            let consumer = tokio::task::spawn_local(async move {
                loop {
                    match framed.next().await {
                        Some(Ok(it)) => seq2.borrow_mut().push(Ok(it)),
                        Some(Err(e)) => seq2.borrow_mut().push(Err(e.to_string())),
                        None => {
                            ended2.set(true);
                            break;
                        }
                    }
                    if seq2.borrow().len() > MAX_ITEMS {
                        break;
                    }
                }
            });
            for m in msgs {
                if m.is_empty() {
                    continue;
                }
                let _ = peer.send(tokio_websockets::Message::binary(BytesMut::from(&m[..]))).await;
                tokio::task::yield_now().await;
            }
            if close {
                // close() waits for the peer's close reply, which a consumer that stopped polling never flushes: bound it
                // (paused clock: the timeout fires only when everything is parked), then drop the transport
                let _ = tokio::time::timeout(Duration::from_secs(5), peer.close()).await;
                drop(peer);
            }
            // stay connected and quiet; the timer fires only once every task is parked (paused clock auto-advance)
            tokio::time::sleep(Duration::from_secs(3600)).await;
            consumer.abort();
            if let Err(e) = consumer.await {
                if e.is_panic() {
                    std::panic::resume_unwind(e.into_panic());
                }
            }
            let s = std::mem::take(&mut *seq.borrow_mut());
            (s, ended.get())
        })
    });
    match r {
        Ok((seq, ended)) => Collected { seq, ended, panic: None },
        Err(p) => Collected { seq: vec![], ended: false, panic: Some(p) },
    }
}
