//! Construction of the *real* codecs the way the binaries construct them: JSON text -> ServerConfig (serde) ->
//! ClientContext::try_from / ServerContext::init / vmess::new_codec / trojan::new_codec -> codec.
use crate::refimpl::ss::Legacy;
use crate::refimpl::ss2022::C22;
use crate::refimpl::Addr;
use anyhow::{anyhow, Result};
use bytes::BytesMut;
use octo_squirrel::codec::shadowsocks::udp::{Context as UdpContext, Session as UdpSession, SessionCodec};
use octo_squirrel::config::ServerConfig;
use octo_squirrel::manager::shadowsocks::{ServerUser, ServerUserManager};
use octo_squirrel::protocol::address::Address;
use octo_squirrel::protocol::shadowsocks::aead_2022::password_to_keys;
use octo_squirrel::protocol::shadowsocks::Mode;
use octo_squirrel_client::client::verif as cv;
use octo_squirrel_server::server::verif as sv;
use serde::{Deserialize, Serialize};
use serde_json::json;
use std::collections::HashMap;
use std::net::{Ipv4Addr, Ipv6Addr, SocketAddr, SocketAddrV4, SocketAddrV6};
use std::sync::Arc;
use tokio_util::codec::{Decoder, Encoder};

pub use sv::{InboundIn, OutboundIn};

#[derive(Clone, Copy, Debug, PartialEq, Eq, Hash, Serialize, Deserialize)]
pub enum Proto {
    SsLegacy(Legacy),
    Ss22(C22),
    /// security: 3 = aes-128-gcm, 4 = chacha20-poly1305
    Vmess(u8),
    Trojan,
}

impl Proto {
    pub fn all() -> Vec<Proto> {
        let mut v = vec![];
        for l in Legacy::ALL {
            v.push(Proto::SsLegacy(l));
        }
        for c in C22::ALL {
            v.push(Proto::Ss22(c));
        }
        v.push(Proto::Vmess(3));
        v.push(Proto::Vmess(4));
        v.push(Proto::Trojan);
        v
    }
    pub fn protocol_name(&self) -> &'static str {
        match self {
            Proto::SsLegacy(_) | Proto::Ss22(_) => "shadowsocks",
            Proto::Vmess(_) => "vmess",
            Proto::Trojan => "trojan",
        }
    }
    pub fn cipher_name(&self) -> &'static str {
        match self {
            Proto::SsLegacy(l) => l.name(),
            Proto::Ss22(c) => c.name(),
            Proto::Vmess(4) => "chacha20-poly1305",
            Proto::Vmess(_) => "aes-128-gcm",
            Proto::Trojan => "aes-128-gcm",
        }
    }
    pub fn key_len(&self) -> usize {
        match self {
            Proto::SsLegacy(l) => l.key_len(),
            Proto::Ss22(c) => c.key_len(),
            _ => 16,
        }
    }
    pub fn short(&self) -> String {
        match self {
            Proto::SsLegacy(l) => format!("ss/{}", l.name()),
            Proto::Ss22(c) => format!("ss/{}", c.name()),
            Proto::Vmess(s) => format!("vmess/{}", if *s == 4 { "chacha20-poly1305" } else { "aes-128-gcm" }),
            Proto::Trojan => "trojan".into(),
        }
    }
    pub fn encrypted(&self) -> bool {
        !matches!(self, Proto::Trojan)
    }
}

/// Credential set: `password` is the configured password string of the server entry (and of the client entry
/// unless `client_password` overrides it, e.g. "iPSK:uPSK"); `users` is the server's user table.
#[derive(Clone, Debug, PartialEq, Eq, Serialize, Deserialize)]
pub struct Cred {
    pub proto: Proto,
    pub password: String,
    #[serde(default)]
    pub client_password: Option<String>,
    #[serde(default)]
    pub users: Vec<(String, String)>,
}

impl Cred {
    pub fn server_json(&self, host: &str, port: u16) -> serde_json::Value {
        let users: Vec<_> = self.users.iter().map(|(n, p)| json!({"name": n, "password": p})).collect();
        json!({
            "host": host, "port": port, "password": self.password,
            "protocol": self.proto.protocol_name(), "cipher": self.proto.cipher_name(), "user": users,
        })
    }
    pub fn client_server_json(&self, host: &str, port: u16) -> serde_json::Value {
        json!({
            "host": host, "port": port, "password": self.client_password.clone().unwrap_or_else(|| self.password.clone()),
            "protocol": self.proto.protocol_name(), "cipher": self.proto.cipher_name(),
        })
    }
    pub fn server_cfg(&self) -> Result<ServerConfig<sv::SslConfig>> {
        Ok(serde_json::from_str(&self.server_json("127.0.0.1", 1).to_string())?)
    }
    pub fn client_cfg(&self) -> Result<ServerConfig<cv::SslConfig>> {
        Ok(serde_json::from_str(&self.client_server_json("127.0.0.1", 1).to_string())?)
    }
}

pub fn to_address(a: &Addr) -> Option<Address> {
    Some(match a {
        Addr::V4(ip, p) => Address::Socket(SocketAddr::V4(SocketAddrV4::new(Ipv4Addr::from(*ip), *p))),
        Addr::V6(ip, p) => Address::Socket(SocketAddr::V6(SocketAddrV6::new(Ipv6Addr::from(*ip), *p, 0, 0))),
        Addr::Name(n, p) => Address::Domain(String::from_utf8(n.clone()).ok()?, *p),
    })
}

pub fn from_address(a: &Address) -> Addr {
    match a {
        Address::Socket(SocketAddr::V4(s)) => Addr::V4(s.ip().octets(), s.port()),
        Address::Socket(SocketAddr::V6(s)) => Addr::V6(s.ip().octets(), s.port()),
        Address::Domain(h, p) => Addr::Name(h.as_bytes().to_vec(), *p),
    }
}

/// Is the Domain's String valid UTF-8? (false means an invalid String was built from network bytes.)
pub fn address_is_valid_utf8(a: &Address) -> bool {
    match a {
        Address::Domain(h, _) => std::str::from_utf8(h.as_bytes()).is_ok(),
        _ => true,
    }
}

// ------------------------------------------------------------------ type-erased TCP codecs

trait ClientTcpDyn: Send {
    fn enc(&mut self, item: BytesMut, dst: &mut BytesMut) -> Result<()>;
    fn dec(&mut self, src: &mut BytesMut) -> Result<Option<BytesMut>>;
}

impl<C> ClientTcpDyn for C
where
    C: Encoder<BytesMut, Error = anyhow::Error> + Decoder<Item = BytesMut, Error = anyhow::Error> + Send,
{
    fn enc(&mut self, item: BytesMut, dst: &mut BytesMut) -> Result<()> {
        Encoder::encode(self, item, dst)
    }
    fn dec(&mut self, src: &mut BytesMut) -> Result<Option<BytesMut>> {
        Decoder::decode(self, src)
    }
}

pub struct ClientTcp(Box<dyn ClientTcpDyn>);

impl Encoder<BytesMut> for ClientTcp {
    type Error = anyhow::Error;
    fn encode(&mut self, item: BytesMut, dst: &mut BytesMut) -> Result<()> {
        self.0.enc(item, dst)
    }
}

impl Decoder for ClientTcp {
    type Item = BytesMut;
    type Error = anyhow::Error;
    fn decode(&mut self, src: &mut BytesMut) -> Result<Option<BytesMut>> {
        self.0.dec(src)
    }
}

/// Per-process client context (what `transfer_tcp` builds once and clones per connection).
pub enum ClientCtx {
    Ss16(cv::shadowsocks::tcp::ClientContext<16>),
    Ss32(cv::shadowsocks::tcp::ClientContext<32>),
    Vmess(octo_squirrel::codec::aead::CipherKind, String),
    Trojan(String),
}

impl ClientCtx {
    pub fn new(cred: &Cred) -> Result<ClientCtx> {
        let cfg = cred.client_cfg()?;
        Ok(match cred.proto {
            Proto::SsLegacy(_) | Proto::Ss22(_) => {
                if cred.proto.key_len() == 16 {
                    ClientCtx::Ss16(cv::shadowsocks::tcp::ClientContext::<16>::try_from(&cfg)?)
                } else {
                    ClientCtx::Ss32(cv::shadowsocks::tcp::ClientContext::<32>::try_from(&cfg)?)
                }
            }
            Proto::Vmess(_) => ClientCtx::Vmess(cfg.cipher, cfg.password.clone()),
            Proto::Trojan => ClientCtx::Trojan(cfg.password.clone()),
        })
    }
    /// New per-connection codec for `addr` (mirrors `new_codec(peer_addr, context)` in try_transfer_tcp).
    pub fn codec(&self, addr: &Address) -> Result<ClientTcp> {
        Ok(match self {
            ClientCtx::Ss16(c) => ClientTcp(Box::new(cv::shadowsocks::tcp::new_payload_codec::<16>(addr, c.clone())?)),
            ClientCtx::Ss32(c) => ClientTcp(Box::new(cv::shadowsocks::tcp::new_payload_codec::<32>(addr, c.clone())?)),
            ClientCtx::Vmess(k, p) => ClientTcp(Box::new(cv::vmess::new_tcp_codec(addr, (*k, p.clone()))?)),
            ClientCtx::Trojan(p) => ClientTcp(Box::new(cv::trojan::new_tcp_codec(addr, p.clone())?)),
        })
    }
}

trait ServerTcpDyn: Send {
    fn enc(&mut self, item: OutboundIn, dst: &mut BytesMut) -> Result<()>;
    fn dec(&mut self, src: &mut BytesMut) -> Result<Option<InboundIn>>;
}

impl<C> ServerTcpDyn for C
where
    C: Encoder<OutboundIn, Error = anyhow::Error> + Decoder<Item = InboundIn, Error = anyhow::Error> + Send,
{
    fn enc(&mut self, item: OutboundIn, dst: &mut BytesMut) -> Result<()> {
        Encoder::encode(self, item, dst)
    }
    fn dec(&mut self, src: &mut BytesMut) -> Result<Option<InboundIn>> {
        Decoder::decode(self, src)
    }
}

pub struct ServerTcp(Box<dyn ServerTcpDyn>);

impl Encoder<OutboundIn> for ServerTcp {
    type Error = anyhow::Error;
    fn encode(&mut self, item: OutboundIn, dst: &mut BytesMut) -> Result<()> {
        self.0.enc(item, dst)
    }
}

impl Decoder for ServerTcp {
    type Item = InboundIn;
    type Error = anyhow::Error;
    fn decode(&mut self, src: &mut BytesMut) -> Result<Option<InboundIn>> {
        self.0.dec(src)
    }
}

fn user_manager<const N: usize>(cfg: &ServerConfig<sv::SslConfig>) -> Result<Arc<ServerUserManager<N>>> {
    // same loop as server/shadowsocks.rs::startup
    let mut um: ServerUserManager<N> = ServerUserManager::new();
    for user in cfg.user.iter() {
        um.add_user(ServerUser::try_from(user).map_err(|e| anyhow!(e))?);
    }
    Ok(Arc::new(um))
}

/// Per-listener server context (what startup_tcp builds once).
pub enum ServerCtx {
    Ss16(sv::shadowsocks::ServerContext<16>),
    Ss32(sv::shadowsocks::ServerContext<32>),
    Vmess(ServerConfig<sv::SslConfig>),
    Trojan(ServerConfig<sv::SslConfig>),
}

impl ServerCtx {
    pub fn new(cred: &Cred) -> Result<ServerCtx> {
        let cfg = cred.server_cfg()?;
        Ok(match cred.proto {
            Proto::SsLegacy(_) | Proto::Ss22(_) => {
                if cred.proto.key_len() == 16 {
                    ServerCtx::Ss16(sv::shadowsocks::ServerContext::<16>::init(&cfg, user_manager::<16>(&cfg)?)?)
                } else {
                    ServerCtx::Ss32(sv::shadowsocks::ServerContext::<32>::init(&cfg, user_manager::<32>(&cfg)?)?)
                }
            }
            Proto::Vmess(_) => ServerCtx::Vmess(cfg),
            Proto::Trojan => ServerCtx::Trojan(cfg),
        })
    }
    pub fn codec(&self) -> Result<ServerTcp> {
        Ok(match self {
            ServerCtx::Ss16(c) => ServerTcp(Box::new(sv::shadowsocks::PayloadCodec::<16>::from(c))),
            ServerCtx::Ss32(c) => ServerTcp(Box::new(sv::shadowsocks::PayloadCodec::<32>::from(c))),
            ServerCtx::Vmess(cfg) => ServerTcp(Box::new(sv::vmess::new_codec(cfg)?)),
            ServerCtx::Trojan(cfg) => ServerTcp(Box::new(sv::trojan::new_codec(cfg)?)),
        })
    }
}

/// Neutral, comparable form of what a server decoder yields.
#[derive(Clone, Debug, PartialEq, Eq)]
pub enum Item {
    Connect(Vec<u8>, Addr),
    Tcp(Vec<u8>),
    Udp(Vec<u8>, Addr),
}

impl Item {
    pub fn from_inbound(i: &InboundIn) -> (Item, bool) {
        match i {
            InboundIn::ConnectTcp(b, a) => (Item::Connect(b.to_vec(), from_address(a)), address_is_valid_utf8(a)),
            InboundIn::RelayTcp(b) => (Item::Tcp(b.to_vec()), true),
            InboundIn::RelayUdp(b, a) => (Item::Udp(b.to_vec(), from_address(a)), address_is_valid_utf8(a)),
        }
    }
    pub fn is_dial(&self) -> bool {
        matches!(self, Item::Connect(..) | Item::Udp(..))
    }
}

// ------------------------------------------------------------------ Shadowsocks UDP

#[derive(Clone, Debug, PartialEq, Eq)]
pub struct USession {
    pub client_sid: u64,
    pub server_sid: u64,
    pub pid: u64,
    pub user: Option<String>,
}

pub trait ClientUdpDyn: Send {
    fn encode(&mut self, content: &[u8], addr: Address, dst: &mut BytesMut) -> Result<()>;
    fn decode(&mut self, src: &mut BytesMut) -> Result<Option<(Vec<u8>, Address)>>;
    fn set_packet_id(&mut self, id: u64);
    fn session(&self) -> USession;
}

struct ClientUdpImpl<const N: usize>(cv::shadowsocks::udp::DatagramPacketCodec<'static, N>);

impl<const N: usize> ClientUdpDyn for ClientUdpImpl<N> {
    fn encode(&mut self, content: &[u8], addr: Address, dst: &mut BytesMut) -> Result<()> {
        Encoder::encode(&mut self.0, (BytesMut::from(content), addr), dst)
    }
    fn decode(&mut self, src: &mut BytesMut) -> Result<Option<(Vec<u8>, Address)>> {
        Ok(Decoder::decode(&mut self.0, src)?.map(|(c, a)| (c.to_vec(), a)))
    }
    fn set_packet_id(&mut self, id: u64) {
        self.0.verif_set_packet_id(id)
    }
    fn session(&self) -> USession {
        let s = self.0.verif_session();
        USession { client_sid: s.client_session_id, server_sid: s.server_session_id, pid: s.packet_id, user: s.user.as_ref().map(|u| u.name.clone()) }
    }
}

/// Built by the real `Client::new_static` (which leaks address-stable keys: the implementation's cipher cache is
/// keyed by key *address*).
pub enum ClientUdpCtx {
    C16(cv::shadowsocks::udp::Client<'static, 16>),
    C32(cv::shadowsocks::udp::Client<'static, 32>),
}

impl ClientUdpCtx {
    pub fn new(cred: &Cred) -> Result<ClientUdpCtx> {
        let cfg = cred.client_cfg()?;
        Ok(if cred.proto.key_len() == 16 {
            ClientUdpCtx::C16(cv::shadowsocks::udp::Client::<16>::new_static(cfg)?)
        } else {
            ClientUdpCtx::C32(cv::shadowsocks::udp::Client::<32>::new_static(cfg)?)
        })
    }
    /// New binding codec (what new_plain_outbound builds, without the socket).
    pub fn codec(&self) -> Box<dyn ClientUdpDyn> {
        match self {
            ClientUdpCtx::C16(c) => Box::new(ClientUdpImpl::<16>(c.verif_new_codec())),
            ClientUdpCtx::C32(c) => Box::new(ClientUdpImpl::<32>(c.verif_new_codec())),
        }
    }
}

pub trait ServerUdpDyn: Send + Sync {
    fn decode(&self, src: &mut BytesMut) -> Result<Option<(Vec<u8>, Address, USession)>>;
    fn encode(&self, content: &[u8], addr: Address, s: &USession, dst: &mut BytesMut) -> Result<()>;
}

struct ServerUdpImpl<const N: usize> {
    codec: SessionCodec<'static, N>,
    users: HashMap<String, Arc<ServerUser<N>>>,
}

impl<const N: usize> ServerUdpDyn for ServerUdpImpl<N> {
    fn decode(&self, src: &mut BytesMut) -> Result<Option<(Vec<u8>, Address, USession)>> {
        Ok(self.codec.decode(src)?.map(|(c, a, s)| {
            (c.to_vec(), a, USession { client_sid: s.client_session_id, server_sid: s.server_session_id, pid: s.packet_id, user: s.user.as_ref().map(|u| u.name.clone()) })
        }))
    }
    fn encode(&self, content: &[u8], addr: Address, s: &USession, dst: &mut BytesMut) -> Result<()> {
        let user = match &s.user {
            Some(n) => Some(self.users.get(n).ok_or_else(|| anyhow!("harness: unknown user {}", n))?.clone()),
            None => None,
        };
        let sess = UdpSession::<N>::new(s.client_sid, s.server_sid, s.pid, user);
        self.codec.encode((BytesMut::from(content), addr, sess), dst)
    }
}

fn server_udp_n<const N: usize>(cred: &Cred) -> Result<Box<dyn ServerUdpDyn>> {
    // mirrors server/shadowsocks.rs::startup_udp (its key derivation is inline there and cannot be called; the system
    // engine exercises the real start-up path)
    let cfg = cred.server_cfg()?;
    let um = user_manager::<N>(&cfg)?;
    // user keys live for the whole process in the real server; the implementation's cipher cache is keyed by key
    // *address*, so the harness must never let a user key's address be reused by another key
    std::mem::forget(um.clone());
    let (key, identity_keys) = if cfg.cipher.is_aead_2022() {
        password_to_keys::<N>(&cfg.password).map_err(|e| anyhow!(e))?
    } else {
        (octo_squirrel::protocol::shadowsocks::aead::openssl_bytes_to_key(cfg.password.as_bytes()), Vec::new())
    };
    let key: &'static [u8; N] = Box::leak(Box::new(key));
    let identity_keys: &'static Vec<[u8; N]> = Box::leak(Box::new(identity_keys));
    let mut users = HashMap::new();
    for u in um.users_iter() {
        if let Some(a) = um.clone_user_by_hash(&u.identity_hash()) {
            users.insert(u.name.clone(), a);
        }
    }
    let context = UdpContext::new(Mode::Server, Some(um), &key[..], &identity_keys[..]);
    let codec = sv::shadowsocks::new_udp_codec::<N>(&cfg, context)?;
    Ok(Box::new(ServerUdpImpl::<N> { codec, users }))
}

pub fn server_udp(cred: &Cred) -> Result<Box<dyn ServerUdpDyn>> {
    if cred.proto.key_len() == 16 {
        server_udp_n::<16>(cred)
    } else {
        server_udp_n::<32>(cred)
    }
}

// ------------------------------------------------------------------ VMess / Trojan datagram-in-stream client codecs

pub fn vmess_udp_client(cred: &Cred, addr: &Address) -> Result<cv::vmess::ClientAEADCodec> {
    cv::vmess::new_udp_codec(addr, &cred.client_cfg()?)
}

pub fn trojan_udp_client(cred: &Cred, addr: &Address) -> cv::trojan::UdpClientCodec {
    cv::trojan::UdpClientCodec::new(cred.client_password.clone().unwrap_or_else(|| cred.password.clone()).as_bytes(), 3, addr.clone())
}

pub fn set_clock(t: Option<u64>) {
    octo_squirrel::verif::set_clock(t);
}
