pub mod drive;
pub mod ev;
pub mod gen;
pub mod props;
pub mod real;
pub mod refimpl;
pub mod refside;
pub mod rt;
