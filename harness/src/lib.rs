pub mod ev;
pub mod props;
pub mod real;
pub mod refimpl;
pub mod rt;
