//! Coverage-guided tier: libFuzzer campaigns over the in-process sub-checks (fuzz/fz_sub: the fuzzer's bytes are the random
//! stream of the sub-check's own strategy) and over raw network input (fuzz/fz_raw), plus the seconds-long replay of the
//! committed corpora that every run does.
use crate::ev::{Fail, PropCtx, Tier};
use crate::rt::DynSub;
use serde_json::{json, Value};
use std::collections::BTreeMap;
use std::path::{Path, PathBuf};
use std::process::{Command, Stdio};
use std::sync::atomic::{AtomicBool, Ordering};

/// Set when a campaign ended in a time-out / out-of-memory artifact: the run is inconclusive (exit 2) unless it also found
/// a violation.
pub static INCONCLUSIVE: AtomicBool = AtomicBool::new(false);

pub struct Plan {
    /// sub-check name, or "raw" for the byte-level target
    pub sub: &'static str,
    /// total libFuzzer runs in the thorough tier (split over the workers)
    pub runs: u64,
}

fn fuzz_bin(name: &str) -> PathBuf {
    crate::ev::verif_root().join("target/fuzz/x86_64-unknown-linux-gnu/release").join(name)
}

pub fn corpus_dir(id: &str, sub: &str) -> PathBuf {
    crate::ev::verif_root().join("corpus").join(format!("{}-{}", id, sub))
}

fn files_of(dir: &Path) -> Vec<PathBuf> {
    let mut v: Vec<PathBuf> = match std::fs::read_dir(dir) {
        Ok(rd) => rd.filter_map(|e| e.ok()).map(|e| e.path()).filter(|p| p.is_file()).collect(),
        Err(_) => vec![],
    };
    v.sort();
    v
}

/// Runs one fuzzer input in this process (release profile, no sanitizer). Returns the failure, if any.
fn run_input(id: &str, sub: &str, s: Option<&dyn DynSub>, fz: Option<&(dyn Fn(&[u8], bool) -> Option<crate::rt::FuzzRun>)>, data: &[u8]) -> (Option<crate::ev::Outcome>, Option<Value>) {
    let _ = (id, s);
    if sub == "raw" {
        // the raw target keeps its own counters; here only the verdict matters
        let case = crate::props::c07::raw_fuzz_case(data);
        let fail = crate::rt::catch(|| crate::props::c07::raw_fuzz_entry(data)).unwrap_or_else(|p| Some(Fail::new("raw/uncaught-panic", p)));
        let mut out = crate::ev::Outcome::new();
        if let Some(c) = &case {
            out.nontrivial = Some(format!("{:?}", match c {
                Ok(f) => format!("{:?}|{}|{}", f.tgt, f.cred.proto.short(), data.len().min(64) / 8),
                Err(sc) => format!("sealed|{}|{}", sc.cipher, data.len().min(64) / 8),
            }));
        }
        out.fail = fail;
        let cj = case.map(|c| match c {
            Ok(f) => json!({"raw-bytes": f}),
            Err(sc) => json!({"sealed-malformed": sc}),
        });
        return (Some(out), cj);
    }
    match fz.and_then(|f| f(data, false)) {
        None => (None, None),
        Some(r) => (Some(r.out), r.case),
    }
}

/// Replays the committed corpus of one target in-process. Part of every run (quick and thorough).
pub fn replay_corpus(ctx: &PropCtx, subs: &[Box<dyn DynSub>], sub: &str) {
    let dir = corpus_dir(&ctx.id, sub);
    let files = files_of(&dir);
    if files.is_empty() {
        return;
    }
    let s = subs.iter().find(|s| s.name() == sub);
    let fz = s.map(|s| s.byte_fuzzer(ctx.tier));
    let name = format!("corpus/{}", sub);
    for f in &files {
        let Ok(data) = std::fs::read(f) else { continue };
        let (out, _) = run_input(&ctx.id, sub, s.map(|b| b.as_ref()), fz.as_deref(), &data);
        let Some(out) = out else { continue };
        if out.fail.is_some() {
            report_failing_input(ctx, subs, sub, &data, &format!("committed corpus file {}", f.display()), "");
            return;
        }
        ctx.record(&name, || json!({"corpus_file": f.file_name().map(|n| n.to_string_lossy().into_owned()), "bytes": data.len()}), &out);
    }
    ctx.note(&name, "committed libFuzzer corpus of this target, decoded and executed in-process by the same oracle");
}

/// A fuzzer input that fails: shrink it through the sub-check's own strategy where it reproduces here, otherwise report
/// the raw input (a failure that only the sanitizer / debug-assertion build shows).
fn report_failing_input(ctx: &PropCtx, subs: &[Box<dyn DynSub>], sub: &str, data: &[u8], origin: &str, log_tail: &str) {
    if sub == "raw" {
        let case = crate::props::c07::raw_fuzz_case(data);
        let fail = crate::rt::catch(|| crate::props::c07::raw_fuzz_entry(data)).unwrap_or_else(|p| Some(Fail::new("raw/uncaught-panic", p)));
        if let (Some(c), Some(f)) = (&case, &fail) {
            // re-express as a case of the proptest sub-check where that one reproduces it (then it is replayable as such)
            let (sname, cj) = match c {
                Ok(fc) => ("raw-bytes", serde_json::to_value(fc).unwrap_or(Value::Null)),
                Err(sc) => ("sealed-malformed", serde_json::to_value(sc).unwrap_or(Value::Null)),
            };
            if let Some(s) = subs.iter().find(|s| s.name() == sname) {
                if let Ok(out) = s.replay(&cj) {
                    if let Some(f2) = out.fail {
                        ctx.violation(sname, &cj, &f2);
                        return;
                    }
                }
            }
            ctx.violation("fuzz-raw", &json!({"fuzz_input_hex": crate::ev::hex(data), "target": "raw"}), f);
            return;
        }
    } else if let Some(s) = subs.iter().find(|s| s.name() == sub) {
        if s.shrink_fuzz_input(ctx, data) {
            return;
        }
    }
    let f = Fail::new(
        format!("fuzz/{}/fails-only-in-the-sanitizer-build", sub),
        format!("{}: the input makes the libFuzzer build (AddressSanitizer, debug assertions, overflow checks) fail but passes in the release harness; worker output: {}", origin, crate::ev::truncate(log_tail, 1500)),
    );
    ctx.violation(&format!("fuzz-{}", sub), &json!({"fuzz_input_hex": crate::ev::hex(data), "target": sub}), &f);
}

/// Thorough tier: one libFuzzer campaign per plan entry, `workers` processes each, fixed number of runs, seeds derived from
/// VERIF_SEED. Counters written by the workers are merged into the evidence.
pub fn campaign(ctx: &PropCtx, subs: &[Box<dyn DynSub>], plans: &[Plan]) {
    std::env::set_var("OVF_FUZZ_RAW_ORACLE", ctx.id.to_lowercase());
    for p in plans {
        replay_corpus(ctx, subs, p.sub);
    }
    if ctx.tier != Tier::Thorough || ctx.violations() > 0 {
        return;
    }
    let workers = crate::rt::threads().clamp(1, 8) as u64;
    for p in plans {
        let bin = fuzz_bin(if p.sub == "raw" { "fz_raw" } else { "fz_sub" });
        if !bin.exists() {
            eprintln!("INCONCLUSIVE: the libFuzzer target {} is not built (run.sh builds it for the thorough tier)", bin.display());
            INCONCLUSIVE.store(true, Ordering::Relaxed);
            return;
        }
        let work = crate::ev::verif_root().join("work/fuzz").join(format!("{}-{}", ctx.id, p.sub));
        let _ = std::fs::remove_dir_all(&work);
        let (cdir, adir, sdir, ldir) = (work.join("corpus"), work.join("artifacts"), work.join("stats"), work.join("logs"));
        for d in [&cdir, &adir, &sdir, &ldir] {
            std::fs::create_dir_all(d).expect("harness: fuzz work dir");
        }
        for f in files_of(&corpus_dir(&ctx.id, p.sub)) {
            let _ = std::fs::copy(&f, cdir.join(f.file_name().unwrap()));
        }
        let per = (p.runs / workers).max(1);
        let t0 = std::time::Instant::now();
        let mut kids = vec![];
        for j in 0..workers {
            let log = std::fs::File::create(ldir.join(format!("{}.log", j))).expect("harness: log");
            let mut c = Command::new(&bin);
            c.arg(&cdir)
                .arg(format!("-runs={}", per))
                .arg(format!("-seed={}", (ctx.seed.wrapping_mul(1000) + j + 1) & 0x7fff_ffff))
                .arg("-max_len=4096")
                .arg("-len_control=0")
                .arg("-detect_leaks=0")
                .arg("-timeout=120")
                .arg("-rss_limit_mb=8000")
                .arg("-reload=1")
                .arg("-print_final_stats=1")
                .arg(format!("-artifact_prefix={}/", adir.display()))
                .env("OVF_FUZZ_SUB", format!("{}/{}", ctx.id, p.sub))
                .env("OVF_FUZZ_TIER", "thorough")
                // the harness leaks on purpose (address-stable keys, as the real processes have them)
                .env("ASAN_OPTIONS", "detect_leaks=0")
                .env("OVF_FUZZ_STATS", &sdir)
                .env("VERIF_ROOT", crate::ev::verif_root())
                .stdin(Stdio::null())
                .stdout(Stdio::null())
                .stderr(log);
            kids.push(c.spawn().expect("harness: spawn fuzz worker"));
        }
        let mut bad_exit = 0;
        for mut k in kids {
            if !k.wait().map(|s| s.success()).unwrap_or(false) {
                bad_exit += 1;
            }
        }
        // merge the workers' counters
        let mut execs = 0u64;
        let mut decoded = 0u64;
        let mut nontrivial: Vec<String> = vec![];
        let mut labels: BTreeMap<String, u64> = BTreeMap::new();
        let mut samples: Vec<Value> = vec![];
        for f in files_of(&sdir) {
            let Ok(t) = std::fs::read_to_string(&f) else { continue };
            let Ok(v) = serde_json::from_str::<Value>(&t) else { continue };
            execs += v["execs"].as_u64().unwrap_or(0);
            decoded += v["decoded"].as_u64().unwrap_or(0);
            for n in v["nontrivial"].as_array().cloned().unwrap_or_default() {
                if let Some(s) = n.as_str() {
                    nontrivial.push(s.to_string());
                }
            }
            for (k, n) in v["labels"].as_object().cloned().unwrap_or_default() {
                *labels.entry(k).or_default() += n.as_u64().unwrap_or(0);
            }
            for s in v["samples"].as_array().cloned().unwrap_or_default() {
                if samples.len() < 3 {
                    samples.push(s);
                }
            }
        }
        let corpus_after = files_of(&cdir).len();
        let name = format!("fuzz/{}", p.sub);
        ctx.record_bulk(&name, decoded, &nontrivial, &labels, samples);
        ctx.note(
            &name,
            &format!(
                "libFuzzer (ASan, debug assertions, overflow checks): {} workers x {} runs, {} executions ({} decoded into a case), corpus {} files afterwards, {:.0} s",
                workers,
                per,
                execs,
                decoded,
                corpus_after,
                t0.elapsed().as_secs_f64()
            ),
        );
        // artifacts
        let arts = files_of(&adir);
        let log_tail = |_: &Path| -> String {
            let mut t = String::new();
            for f in files_of(&ldir) {
                if let Ok(s) = std::fs::read_to_string(&f) {
                    if s.contains("OVF-FUZZ-FAIL") || s.contains("ERROR: ") || s.contains("panicked at") {
                        let lines: Vec<&str> = s.lines().filter(|l| l.contains("OVF-FUZZ-FAIL") || l.contains("ERROR") || l.contains("panicked at") || l.contains("SUMMARY")).take(8).collect();
                        t = lines.join(" | ");
                        break;
                    }
                }
            }
            t
        };
        let mut reported = false;
        for a in &arts {
            let fname = a.file_name().map(|n| n.to_string_lossy().into_owned()).unwrap_or_default();
            let Ok(data) = std::fs::read(a) else { continue };
            if fname.starts_with("crash-") {
                if !reported {
                    report_failing_input(ctx, subs, p.sub, &data, &format!("libFuzzer artifact {}", a.display()), &log_tail(a));
                    reported = true;
                }
            } else if fname.starts_with("timeout-") || fname.starts_with("oom-") || fname.starts_with("slow-unit-") {
                if !fname.starts_with("slow-unit-") {
                    eprintln!("INCONCLUSIVE: fuzz campaign {}/{} hit {} (kept at {})", ctx.id, p.sub, fname, a.display());
                    INCONCLUSIVE.store(true, Ordering::Relaxed);
                }
            }
        }
        if bad_exit > 0 && arts.is_empty() {
            eprintln!("INCONCLUSIVE: {} fuzz worker(s) of {}/{} ended abnormally without an artifact; logs in {}", bad_exit, ctx.id, p.sub, ldir.display());
            INCONCLUSIVE.store(true, Ordering::Relaxed);
        }
        if ctx.violations() > 0 {
            return;
        }
    }
}
