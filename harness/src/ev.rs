//! Evidence collection, violation reporting, known findings.
use serde::{Deserialize, Serialize};
use serde_json::{json, Value};
use std::collections::{BTreeMap, HashSet};
use std::hash::{Hash, Hasher};
use std::path::{Path, PathBuf};
use std::sync::Mutex;
use std::time::Instant;

#[derive(Clone, Copy, PartialEq, Eq, Debug)]
pub enum Tier {
    Quick,
    Thorough,
}

impl Tier {
    pub fn name(&self) -> &'static str {
        match self {
            Tier::Quick => "quick",
            Tier::Thorough => "thorough",
        }
    }
    /// pick a count by tier
    pub fn pick(&self, quick: u32, thorough: u32) -> u32 {
        match self {
            Tier::Quick => quick,
            Tier::Thorough => thorough,
        }
    }
}

#[derive(Clone, Debug, Serialize, Deserialize)]
pub struct Fail {
    /// narrow semantic signature: sub-check / component / structural class / failure kind
    pub sig: String,
    pub msg: String,
}

impl Fail {
    pub fn new(sig: impl Into<String>, msg: impl Into<String>) -> Fail {
        // messages may quote strings the code under test built from network bytes without validation
        let clean = |s: String| String::from_utf8_lossy(s.as_bytes()).into_owned();
        Fail { sig: clean(sig.into()), msg: clean(msg.into()) }
    }
}

/// Result of executing one generated case.
#[derive(Clone, Debug, Default)]
pub struct Outcome {
    /// Some(fingerprint) when the case is non-trivial by the property's stated rule
    pub nontrivial: Option<String>,
    pub labels: Vec<String>,
    pub fail: Option<Fail>,
    /// number of elementary executions this case stands for (default 1)
    pub weight: u64,
}

impl Outcome {
    pub fn new() -> Outcome {
        Outcome { nontrivial: None, labels: vec![], fail: None, weight: 1 }
    }
    pub fn label(&mut self, l: impl Into<String>) -> &mut Self {
        self.labels.push(l.into());
        self
    }
    pub fn nontrivial(&mut self, fp: impl Into<String>) -> &mut Self {
        self.nontrivial = Some(fp.into());
        self
    }
    pub fn fail(&mut self, sig: impl Into<String>, msg: impl Into<String>) -> &mut Self {
        if self.fail.is_none() {
            self.fail = Some(Fail::new(sig, msg));
        }
        self
    }
    pub fn failed(&self) -> bool {
        self.fail.is_some()
    }
}

#[derive(Clone, Debug, Deserialize)]
pub struct KnownEntry {
    pub property: String,
    pub id: String,
    /// "known" or "fixed"
    pub status: String,
    /// signature prefix that failures must match exactly (known only)
    #[serde(default)]
    pub sig: String,
    pub what: String,
    #[serde(default)]
    pub commit: String,
    #[serde(default)]
    pub witness: String,
}

pub fn verif_root() -> PathBuf {
    if let Ok(p) = std::env::var("VERIF_ROOT") {
        return PathBuf::from(p);
    }
    PathBuf::from("/verif")
}

pub fn load_known() -> Vec<KnownEntry> {
    let p = verif_root().join("known_findings.json");
    match std::fs::read_to_string(&p) {
        Ok(s) => {
            let v: Value = serde_json::from_str(&s).expect("known_findings.json must parse");
            serde_json::from_value(v["findings"].clone()).expect("known_findings.json findings")
        }
        Err(_) => vec![],
    }
}

#[derive(Default)]
pub struct SubStats {
    pub evaluations: u64,
    pub nontrivial: HashSet<u64>,
    pub labels: BTreeMap<String, u64>,
    pub samples: Vec<Value>,
    pub excluded_known: BTreeMap<String, u64>,
    pub exhaustive: bool,
    pub note: String,
}

pub struct PropCtx {
    pub id: String,
    pub tier: Tier,
    pub seed: u64,
    pub level: &'static str,
    pub rule: String,
    pub assumptions: Vec<String>,
    pub strict: bool,
    start: Instant,
    known: Vec<KnownEntry>,
    inner: Mutex<Inner>,
}

#[derive(Default)]
struct Inner {
    subs: BTreeMap<String, SubStats>,
    order: Vec<String>,
    violations: Vec<(String, PathBuf)>,
    known_hit: BTreeMap<String, u64>,
    extra: BTreeMap<String, Value>,
}

fn h64(s: &str) -> u64 {
    let mut h = std::collections::hash_map::DefaultHasher::new();
    s.hash(&mut h);
    h.finish()
}

impl PropCtx {
    pub fn new(id: &str, tier: Tier, seed: u64) -> PropCtx {
        let known = load_known().into_iter().filter(|k| k.property == id).collect();
        PropCtx {
            id: id.to_string(),
            tier,
            seed,
            level: "exploration",
            rule: String::new(),
            assumptions: vec![],
            strict: false,
            start: Instant::now(),
            known,
            inner: Mutex::new(Inner::default()),
        }
    }

    /// Returns the known-finding id if `sig` matches a listed (status=known) finding.
    pub fn known_for(&self, sig: &str) -> Option<String> {
        if self.strict {
            return None;
        }
        self.known.iter().find(|k| k.status == "known" && !k.sig.is_empty() && sig == k.sig).map(|k| k.id.clone())
    }

    pub fn known_entries(&self) -> &[KnownEntry] {
        &self.known
    }

    pub fn record(&self, sub: &str, case: impl FnOnce() -> Value, out: &Outcome) {
        let mut g = self.inner.lock().unwrap();
        if !g.subs.contains_key(sub) {
            g.order.push(sub.to_string());
        }
        let s = g.subs.entry(sub.to_string()).or_default();
        s.evaluations += out.weight.max(1);
        for l in &out.labels {
            *s.labels.entry(l.clone()).or_default() += 1;
        }
        let mut want_sample = s.samples.is_empty();
        if let Some(fp) = &out.nontrivial {
            let new = s.nontrivial.insert(h64(fp));
            if new && s.samples.len() < 4 && (s.nontrivial.len() == 1 || s.nontrivial.len() % 97 == 0) {
                want_sample = true;
            }
        }
        if want_sample && s.samples.len() < 4 {
            let mut v = case();
            truncate_value(&mut v, 600);
            s.samples.push(json!({"case": v, "nontrivial": out.nontrivial, "labels": out.labels}));
        }
    }

    /// Counters collected by other processes (fuzz workers): `evaluations` cases, their non-trivial fingerprints and labels.
    pub fn record_bulk(&self, sub: &str, evaluations: u64, nontrivial: &[String], labels: &BTreeMap<String, u64>, samples: Vec<Value>) {
        let mut g = self.inner.lock().unwrap();
        if !g.subs.contains_key(sub) {
            g.order.push(sub.to_string());
        }
        let s = g.subs.entry(sub.to_string()).or_default();
        s.evaluations += evaluations;
        for fp in nontrivial {
            s.nontrivial.insert(h64(fp));
        }
        for (k, n) in labels {
            *s.labels.entry(k.clone()).or_default() += n;
        }
        for mut smp in samples {
            if s.samples.len() < 4 {
                truncate_value(&mut smp, 600);
                s.samples.push(smp);
            }
        }
    }

    pub fn record_excluded(&self, sub: &str, known_id: &str) {
        let mut g = self.inner.lock().unwrap();
        *g.known_hit.entry(known_id.to_string()).or_default() += 1;
        let s = g.subs.entry(sub.to_string()).or_default();
        *s.excluded_known.entry(known_id.to_string()).or_default() += 1;
    }

    pub fn mark_exhaustive(&self, sub: &str, note: &str) {
        let mut g = self.inner.lock().unwrap();
        let s = g.subs.entry(sub.to_string()).or_default();
        s.exhaustive = true;
        s.note = note.to_string();
    }

    pub fn note(&self, sub: &str, note: &str) {
        let mut g = self.inner.lock().unwrap();
        let s = g.subs.entry(sub.to_string()).or_default();
        s.note = note.to_string();
    }

    pub fn extra(&self, key: &str, v: Value) {
        self.inner.lock().unwrap().extra.insert(key.to_string(), v);
    }

    /// Report a violation: writes the replay file and prints the VIOLATION line.
    pub fn violation(&self, sub: &str, case: &Value, fail: &Fail) {
        {
            // one report per (sub, signature): parallel workers often find the same thing
            let g = self.inner.lock().unwrap();
            if g.violations.iter().any(|(s, _)| *s == fail.sig) {
                return;
            }
        }
        let dir = verif_root().join("replays");
        let _ = std::fs::create_dir_all(&dir);
        let body = json!({
            "property": self.id, "sub": sub, "case": case, "sig": fail.sig, "msg": fail.msg,
            "seed": self.seed, "tier": self.tier.name(), "expect": "pass",
        });
        let text = serde_json::to_string_pretty(&body).unwrap();
        let name = format!("{}-{}-{:016x}.json", self.id, sub.replace('/', "_"), h64(&text));
        let path = dir.join(name);
        let _ = std::fs::write(&path, &text);
        println!("VIOLATION property={} replay={}", self.id, path.display());
        println!("  sub={} sig={} msg={}", sub, fail.sig, truncate(&fail.msg, 1500));
        self.inner.lock().unwrap().violations.push((fail.sig.clone(), path));
    }

    pub fn violations(&self) -> usize {
        self.inner.lock().unwrap().violations.len()
    }

    pub fn print_known(&self, id: &str, what: &str) {
        println!("KNOWN-FINDING: property={} {} [{}]", self.id, what, id);
    }

    pub fn finish(&self) -> i32 {
        let g = self.inner.lock().unwrap();
        let mut evaluations = 0u64;
        let mut distinct = 0u64;
        let mut samples = vec![];
        let mut subs = vec![];
        let mut all_exh = !g.subs.is_empty();
        for name in &g.order {
            let s = &g.subs[name];
            evaluations += s.evaluations;
            distinct += s.nontrivial.len() as u64;
            for smp in &s.samples {
                samples.push(json!({"sub": name, "sample": smp}));
            }
            all_exh &= s.exhaustive;
            subs.push(json!({
                "sub": name, "evaluations": s.evaluations, "distinct_nontrivial": s.nontrivial.len(),
                "labels": s.labels, "excluded_known": s.excluded_known, "exhaustive": s.exhaustive, "note": s.note,
            }));
        }
        let wall = self.start.elapsed().as_secs_f64();
        let mut coverage = json!({
            "evaluations": evaluations,
            "distinct_nontrivial": distinct,
            "rule": self.rule,
            "samples": samples,
            "sub_checks": subs,
            "excluded_known_findings": g.known_hit,
            "exhaustive": all_exh,
        });
        for (k, v) in &g.extra {
            coverage[k] = v.clone();
        }
        let ev = json!({
            "property_id": self.id,
            "tier": self.tier.name(),
            "seed": self.seed,
            "level": self.level,
            "coverage": coverage,
            "assumptions": self.assumptions,
            "wall_s": wall,
            "violations": g.violations.len(),
        });
        let dir = verif_root().join("evidence");
        let _ = std::fs::create_dir_all(&dir);
        let path = dir.join(format!("{}.json", self.id));
        std::fs::write(&path, serde_json::to_string_pretty(&ev).unwrap()).expect("write evidence");
        println!(
            "[{}] tier={} seed={} evaluations={} distinct_nontrivial={} violations={} wall={:.1}s",
            self.id,
            self.tier.name(),
            self.seed,
            evaluations,
            distinct,
            g.violations.len(),
            wall
        );
        if g.violations.is_empty() {
            0
        } else {
            1
        }
    }
}

pub fn truncate(s: &str, n: usize) -> String {
    if s.len() <= n {
        s.to_string()
    } else {
        let mut e = n;
        while !s.is_char_boundary(e) {
            e -= 1;
        }
        format!("{}…(+{} bytes)", &s[..e], s.len() - e)
    }
}

fn truncate_value(v: &mut Value, n: usize) {
    match v {
        Value::String(s) => {
            if s.len() > n {
                *s = truncate(s, n);
            }
        }
        Value::Array(a) => {
            if a.len() > 40 {
                let extra = a.len() - 40;
                a.truncate(40);
                a.push(Value::String(format!("…(+{} items)", extra)));
            }
            for x in a.iter_mut() {
                truncate_value(x, n);
            }
        }
        Value::Object(o) => {
            for (_, x) in o.iter_mut() {
                truncate_value(x, n);
            }
        }
        _ => {}
    }
}

pub fn read_replay(path: &Path) -> anyhow::Result<Value> {
    let s = std::fs::read_to_string(path)?;
    Ok(serde_json::from_str(&s)?)
}

pub fn hex(b: &[u8]) -> String {
    let mut s = String::with_capacity(b.len() * 2);
    for x in b {
        s.push_str(&format!("{:02x}", x));
    }
    s
}

pub fn unhex(s: &str) -> Vec<u8> {
    (0..s.len() / 2).map(|i| u8::from_str_radix(&s[2 * i..2 * i + 2], 16).unwrap_or(0)).collect()
}
