//! Independent reference implementation of the wire protocols, written from DESIGN.md Appendix A
//! (i.e. from the published specifications), not from the code under test. Stateless functions over
//! byte slices with explicit counters. Shares only the cryptographic primitive crates.
pub mod http_uri;
pub mod socks5;
pub mod ss;
pub mod ss2022;
pub mod trojan;
pub mod vmess;

use aes_gcm::aead::{Aead, KeyInit, Payload};
use serde::{Deserialize, Serialize};

#[derive(Clone, Debug, PartialEq, Eq, Hash, Serialize, Deserialize)]
pub enum Addr {
    V4([u8; 4], u16),
    V6([u8; 16], u16),
    /// raw name bytes as they appear on the wire
    Name(Vec<u8>, u16),
}

impl Addr {
    pub fn port(&self) -> u16 {
        match self {
            Addr::V4(_, p) | Addr::V6(_, p) | Addr::Name(_, p) => *p,
        }
    }
    /// SOCKS5 order: ATYP(1 v4 | 3 name | 4 v6) addr port. Names longer than 255 are not representable.
    pub fn socks(&self) -> Vec<u8> {
        let mut v = vec![];
        match self {
            Addr::V4(a, p) => {
                v.push(1);
                v.extend_from_slice(a);
                v.extend_from_slice(&p.to_be_bytes());
            }
            Addr::V6(a, p) => {
                v.push(4);
                v.extend_from_slice(a);
                v.extend_from_slice(&p.to_be_bytes());
            }
            Addr::Name(n, p) => {
                assert!(n.len() <= 255, "reference: name not representable");
                v.push(3);
                v.push(n.len() as u8);
                v.extend_from_slice(n);
                v.extend_from_slice(&p.to_be_bytes());
            }
        }
        v
    }
    /// Parse SOCKS5-order address; returns (addr, consumed)
    pub fn parse_socks(b: &[u8]) -> Option<(Addr, usize)> {
        let t = *b.first()?;
        match t {
            1 => {
                if b.len() < 7 {
                    return None;
                }
                Some((Addr::V4(b[1..5].try_into().unwrap(), u16::from_be_bytes([b[5], b[6]])), 7))
            }
            4 => {
                if b.len() < 19 {
                    return None;
                }
                Some((Addr::V6(b[1..17].try_into().unwrap(), u16::from_be_bytes([b[17], b[18]])), 19))
            }
            3 => {
                let l = *b.get(1)? as usize;
                if b.len() < 2 + l + 2 {
                    return None;
                }
                Some((Addr::Name(b[2..2 + l].to_vec(), u16::from_be_bytes([b[2 + l], b[3 + l]])), 4 + l))
            }
            _ => None,
        }
    }
    /// VMess order: port T(1 v4 | 2 name | 3 v6) addr
    pub fn vmess(&self) -> Vec<u8> {
        let mut v = vec![];
        v.extend_from_slice(&self.port().to_be_bytes());
        match self {
            Addr::V4(a, _) => {
                v.push(1);
                v.extend_from_slice(a);
            }
            Addr::V6(a, _) => {
                v.push(3);
                v.extend_from_slice(a);
            }
            Addr::Name(n, _) => {
                assert!(n.len() <= 255 && !n.is_empty(), "reference: name not representable");
                v.push(2);
                v.push(n.len() as u8);
                v.extend_from_slice(n);
            }
        }
        v
    }
    pub fn parse_vmess(b: &[u8]) -> Option<(Addr, usize)> {
        if b.len() < 3 {
            return None;
        }
        let port = u16::from_be_bytes([b[0], b[1]]);
        match b[2] {
            1 => {
                if b.len() < 7 {
                    return None;
                }
                Some((Addr::V4(b[3..7].try_into().unwrap(), port), 7))
            }
            3 => {
                if b.len() < 19 {
                    return None;
                }
                Some((Addr::V6(b[3..19].try_into().unwrap(), port), 19))
            }
            2 => {
                let l = *b.get(3)? as usize;
                if b.len() < 4 + l {
                    return None;
                }
                Some((Addr::Name(b[4..4 + l].to_vec(), port), 4 + l))
            }
            _ => None,
        }
    }
    pub fn kind(&self) -> &'static str {
        match self {
            Addr::V4(..) => "v4",
            Addr::V6(..) => "v6",
            Addr::Name(..) => "name",
        }
    }
}

#[derive(Clone, Copy, Debug, PartialEq, Eq, Hash, Serialize, Deserialize)]
pub enum AeadAlg {
    Aes128Gcm,
    Aes256Gcm,
    ChaCha20,
    ChaCha8,
    XChaCha20,
    XChaCha8,
}

impl AeadAlg {
    pub fn key_len(&self) -> usize {
        match self {
            AeadAlg::Aes128Gcm => 16,
            _ => 32,
        }
    }
    pub fn nonce_len(&self) -> usize {
        match self {
            AeadAlg::XChaCha20 | AeadAlg::XChaCha8 => 24,
            _ => 12,
        }
    }
    pub fn seal(&self, key: &[u8], nonce: &[u8], aad: &[u8], pt: &[u8]) -> Vec<u8> {
        let p = Payload { msg: pt, aad };
        let key = &key[..self.key_len()];
        match self {
            AeadAlg::Aes128Gcm => aes_gcm::Aes128Gcm::new_from_slice(key).unwrap().encrypt(nonce.into(), p),
            AeadAlg::Aes256Gcm => aes_gcm::Aes256Gcm::new_from_slice(key).unwrap().encrypt(nonce.into(), p),
            AeadAlg::ChaCha20 => chacha20poly1305::ChaCha20Poly1305::new_from_slice(key).unwrap().encrypt(nonce.into(), p),
            AeadAlg::ChaCha8 => chacha20poly1305::ChaCha8Poly1305::new_from_slice(key).unwrap().encrypt(nonce.into(), p),
            AeadAlg::XChaCha20 => chacha20poly1305::XChaCha20Poly1305::new_from_slice(key).unwrap().encrypt(nonce.into(), p),
            AeadAlg::XChaCha8 => chacha20poly1305::XChaCha8Poly1305::new_from_slice(key).unwrap().encrypt(nonce.into(), p),
        }
        .expect("seal")
    }
    pub fn open(&self, key: &[u8], nonce: &[u8], aad: &[u8], ct: &[u8]) -> Option<Vec<u8>> {
        if ct.len() < 16 {
            return None;
        }
        let p = Payload { msg: ct, aad };
        let key = &key[..self.key_len()];
        match self {
            AeadAlg::Aes128Gcm => aes_gcm::Aes128Gcm::new_from_slice(key).unwrap().decrypt(nonce.into(), p),
            AeadAlg::Aes256Gcm => aes_gcm::Aes256Gcm::new_from_slice(key).unwrap().decrypt(nonce.into(), p),
            AeadAlg::ChaCha20 => chacha20poly1305::ChaCha20Poly1305::new_from_slice(key).unwrap().decrypt(nonce.into(), p),
            AeadAlg::ChaCha8 => chacha20poly1305::ChaCha8Poly1305::new_from_slice(key).unwrap().decrypt(nonce.into(), p),
            AeadAlg::XChaCha20 => chacha20poly1305::XChaCha20Poly1305::new_from_slice(key).unwrap().decrypt(nonce.into(), p),
            AeadAlg::XChaCha8 => chacha20poly1305::XChaCha8Poly1305::new_from_slice(key).unwrap().decrypt(nonce.into(), p),
        }
        .ok()
    }
}

/// One authenticated unit found on the wire by a reference decoder.
#[derive(Clone, Debug, PartialEq, Eq)]
pub struct Unit {
    pub start: usize,
    pub end: usize,
    pub key: Vec<u8>,
    pub nonce: Vec<u8>,
    /// what this unit is: "len", "payload", "fixed", "var", "hdr-len", "hdr", "authlen", "dgram"
    pub kind: &'static str,
    /// application payload bytes this unit contributes once opened
    pub app_bytes: usize,
}

/// 96-bit little-endian counter nonce
pub fn le_nonce(counter: u64) -> [u8; 12] {
    let mut n = [0u8; 12];
    n[..8].copy_from_slice(&counter.to_le_bytes());
    n
}

pub fn aes_ecb_encrypt_block(key: &[u8], block: &mut [u8; 16]) {
    use aes::cipher::{BlockEncrypt, KeyInit};
    let b = aes::Block::from_mut_slice(block);
    match key.len() {
        16 => aes::Aes128::new_from_slice(key).unwrap().encrypt_block(b),
        32 => aes::Aes256::new_from_slice(key).unwrap().encrypt_block(b),
        _ => panic!("reference: bad AES key length {}", key.len()),
    }
}

pub fn aes_ecb_decrypt_block(key: &[u8], block: &mut [u8; 16]) {
    use aes::cipher::{BlockDecrypt, KeyInit};
    let b = aes::Block::from_mut_slice(block);
    match key.len() {
        16 => aes::Aes128::new_from_slice(key).unwrap().decrypt_block(b),
        32 => aes::Aes256::new_from_slice(key).unwrap().decrypt_block(b),
        _ => panic!("reference: bad AES key length {}", key.len()),
    }
}

pub fn b64(b: &[u8]) -> String {
    use base64ct::Encoding;
    base64ct::Base64::encode_string(b)
}

pub fn unb64(s: &str) -> Option<Vec<u8>> {
    use base64ct::Encoding;
    base64ct::Base64::decode_vec(s).ok()
}

/// Known-answer tests anchoring the reference to third-party vectors (values originate from upstream
/// implementations; they are the same constants the repository's unit tests use, applied here to the
/// *reference*, not to the code under test).
pub fn self_test() {
    // EVP_BytesToKey
    let pw = b"Personal search-enabled assistant for programmers";
    assert_eq!(b64(&ss::evp_bytes_to_key(pw, 16)), "zsWfM5hwvmTusK6sGOop5w==");
    assert_eq!(b64(&ss::evp_bytes_to_key(pw, 32)), "zsWfM5hwvmTusK6sGOop57hBNhUblVO/PpBKSm34Vu4=");
    // blake3 session subkey
    let key = unb64("Lc3tTx0BY6ZJ/fCwOx3JvF0I/anhwJBO5p2+FA5Vce4=").unwrap();
    let salt = unb64("3oFO0VyLyGI4nFN0M9P+62vPND/L6v8IingaPJWTbJA=").unwrap();
    assert_eq!(b64(&ss2022::session_subkey(&key, &salt, 32)), "EdNE+4U8dVnHT0+poAFDK2bdlwfrHT61sUNr9WYPh+E=");
    // SIP023 identity header
    let ipsk = unb64("leWhlhIIhjHhGeaGVpqpRA==").unwrap();
    let upsk = unb64("BomScdlR6tXdKxm4FyZg9g==").unwrap();
    let salt = unb64("/xyg1YnI2gNuMydqgt8MgbfT0zDMougbi64SbDsVn1Q=").unwrap();
    // (vector computed with the AES-256 variant over a 32-byte identity subkey)
    let eih = ss2022::tcp_eih(&[ipsk.clone()], &upsk, &salt, 32);
    assert_eq!(b64(&eih), "jGIxVuv1qqwcBYak0kGGaA==");
    // VMess KDF
    assert_eq!(b64(&vmess::kdf(b"Demo Key for Auth ID Test", &[])), "e50sLh+rC0B6LsALqzcblmfKNfZnQIbvOEJRgh9gBfg=");
    assert_eq!(b64(&vmess::kdf(b"Demo Key for Auth ID Test", &[b"Demo Path for Auth ID Test"])[..16]), "ZuQa1H+nRfv9HpcyXpPb9A==");
    // cmd key
    let uuid = uuid::Uuid::parse_str("b831381d-6324-4d53-ad4f-8cda48b30811").unwrap();
    assert_eq!(b64(&vmess::cmd_key(uuid.as_bytes())), "tQ2RasDOwGeYGvjl84p1jw==");
    // chacha key expansion / shake / fnv share one test vector string
    let data = b"fn bubble_sort<T: Ord>(arr: &mut [T]) {let mut swapped = true;while swapped {swapped = false;for i in 1..arr.len() {if arr[i - 1] > arr[i] {arr.swap(i - 1, i);swapped = true;}}}}";
    assert_eq!(b64(&vmess::chacha_key(data)), "UDKJ9PJ4zh6hDio6vuw0UhcSqk8njawoEziFz405238=");
    assert_eq!(vmess::fnv1a32(data), 3156541508);
    let mut sh = vmess::Shake::new(data);
    assert_eq!([sh.next16() % 64, sh.next16() % 64, sh.next16() % 64, sh.next16() % 64], [30, 11, 35, 8]);
    // trojan
    assert_eq!(String::from_utf8(trojan::key_hex(b"password1").to_vec()).unwrap(), "9440e64e095ff718c1926110fd811e64948984c9dee7ef860feb4d5d");
}
