//! RFC 3986 / RFC 9112 request-target authority extraction (independent of the implementation's string surgery).
#[derive(Clone, Debug, PartialEq, Eq)]
pub enum Target {
    /// CONNECT authority-form
    Connect(String, u16),
    /// absolute-form (host, port with default 80)
    Absolute(String, u16),
    /// not a proxy request this client can serve
    Invalid(&'static str),
    /// outside the grammar the property speaks about (authority with userinfo)
    Unspecified,
}

/// host[:port] with "last colon outside brackets" rule. Host may be reg-name, IPv4 or [IPv6].
fn split_host_port(authority: &str) -> Result<(String, Option<u16>), &'static str> {
    // strip userinfo
    let authority = match authority.rfind('@') {
        Some(i) => &authority[i + 1..],
        None => authority,
    };
    if authority.is_empty() {
        return Err("empty authority");
    }
    let (host, port) = if authority.starts_with('[') {
        let close = authority.find(']').ok_or("unterminated IPv6 literal")?;
        let host = &authority[..=close];
        let rest = &authority[close + 1..];
        if rest.is_empty() {
            (host, None)
        } else if let Some(p) = rest.strip_prefix(':') {
            (host, Some(p))
        } else {
            return Err("garbage after IPv6 literal");
        }
    } else {
        match authority.rfind(':') {
            Some(i) => (&authority[..i], Some(&authority[i + 1..])),
            None => (authority, None),
        }
    };
    if host.is_empty() {
        return Err("empty host");
    }
    let port = match port {
        None => None,
        Some("") => return Err("empty port"),
        Some(p) => {
            if !p.bytes().all(|b| b.is_ascii_digit()) {
                return Err("non-numeric port");
            }
            Some(p.parse::<u32>().ok().filter(|v| *v <= 65535).ok_or("port out of range")? as u16)
        }
    };
    Ok((host.to_string(), port))
}

pub fn extract(method: &str, target: &str) -> Target {
    if method == "CONNECT" {
        // authority-form is host ":" port and nothing else (RFC 9112 3.2.3): no scheme, path, query or userinfo
        if target.contains(|c| c == '/' || c == '?' || c == '#' || c == '@') {
            return Target::Invalid("CONNECT target is not authority-form");
        }
        match split_host_port(target) {
            Ok((h, Some(p))) => Target::Connect(h, p),
            Ok((_, None)) => Target::Invalid("CONNECT without port"),
            Err(e) => Target::Invalid(e),
        }
    } else {
        let Some(i) = target.find("://") else {
            return Target::Invalid("not absolute-form");
        };
        let scheme = &target[..i];
        if scheme.is_empty() || !scheme.bytes().all(|b| b.is_ascii_alphanumeric() || b == b'+' || b == b'-' || b == b'.') {
            return Target::Invalid("bad scheme");
        }
        let rest = &target[i + 3..];
        let end = rest.find(|c| c == '/' || c == '?' || c == '#').unwrap_or(rest.len());
        if rest[..end].contains('@') {
            return Target::Unspecified;
        }
        match split_host_port(&rest[..end]) {
            Ok((h, p)) => Target::Absolute(h, p.unwrap_or(80)),
            Err(e) => Target::Invalid(e),
        }
    }
}
