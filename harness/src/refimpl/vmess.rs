//! VMess AEAD reference (header sealing, auth-id, KDF, body chunks with all option masks).
use super::{aes_ecb_decrypt_block, aes_ecb_encrypt_block, Addr, AeadAlg, Unit};
use md5::{Digest, Md5};
use serde::{Deserialize, Serialize};
use sha2::Sha256;
use sha3::digest::{ExtendableOutput, Update, XofReader};

pub const OPT_S: u8 = 1;
pub const OPT_R: u8 = 2;
pub const OPT_M: u8 = 4;
pub const OPT_P: u8 = 8;
pub const OPT_A: u8 = 16;
pub const SEC_AES: u8 = 3;
pub const SEC_CHACHA: u8 = 4;

pub fn cmd_key(uuid: &[u8; 16]) -> [u8; 16] {
    let mut h = Md5::new();
    Digest::update(&mut h, uuid);
    Digest::update(&mut h, b"c48619fe-8f02-49e0-b9e9-edf763e17e21");
    h.finalize().into()
}

pub fn chacha_key(k: &[u8]) -> [u8; 32] {
    let a: [u8; 16] = Md5::digest(k).into();
    let b: [u8; 16] = Md5::digest(a).into();
    let mut out = [0u8; 32];
    out[..16].copy_from_slice(&a);
    out[16..].copy_from_slice(&b);
    out
}

pub fn fnv1a32(d: &[u8]) -> u32 {
    let mut h: u32 = 0x811c9dc5;
    for b in d {
        h ^= *b as u32;
        h = h.wrapping_mul(0x01000193);
    }
    h
}

/// Level-`labels.len()` nested HMAC: level 0 is SHA-256, level i is HMAC keyed by labels[i-1] over level i-1.
fn nested(labels: &[&[u8]], data: &[u8]) -> [u8; 32] {
    match labels.split_last() {
        None => Sha256::digest(data).into(),
        Some((label, rest)) => {
            let mut k = [0u8; 64];
            if label.len() > 64 {
                k[..32].copy_from_slice(&nested(rest, label));
            } else {
                k[..label.len()].copy_from_slice(label);
            }
            let mut inner: Vec<u8> = k.iter().map(|b| b ^ 0x36).collect();
            inner.extend_from_slice(data);
            let ih = nested(rest, &inner);
            let mut outer: Vec<u8> = k.iter().map(|b| b ^ 0x5c).collect();
            outer.extend_from_slice(&ih);
            nested(rest, &outer)
        }
    }
}

pub fn kdf(key: &[u8], path: &[&[u8]]) -> [u8; 32] {
    let mut labels: Vec<&[u8]> = vec![b"VMess AEAD KDF"];
    labels.extend_from_slice(path);
    nested(&labels, key)
}

pub fn kdf16(key: &[u8], path: &[&[u8]]) -> [u8; 16] {
    kdf(key, path)[..16].try_into().unwrap()
}

pub struct Shake(Box<dyn XofReader>);

impl Shake {
    pub fn new(seed: &[u8]) -> Shake {
        let mut h = sha3::Shake128::default();
        h.update(seed);
        Shake(Box::new(h.finalize_xof()))
    }
    pub fn next16(&mut self) -> u16 {
        let mut b = [0u8; 2];
        self.0.read(&mut b);
        u16::from_be_bytes(b)
    }
}

pub fn auth_id(cmdkey: &[u8; 16], ts: i64, rand: [u8; 4]) -> [u8; 16] {
    let mut b = [0u8; 16];
    b[..8].copy_from_slice(&ts.to_be_bytes());
    b[8..12].copy_from_slice(&rand);
    let crc = crc32fast::hash(&b[..12]);
    b[12..].copy_from_slice(&crc.to_be_bytes());
    aes_ecb_encrypt_block(&kdf16(cmdkey, &[b"AES Auth ID Encryption"]), &mut b);
    b
}

/// Returns (ts, rand) if the CRC matches under this key.
pub fn open_auth_id(cmdkey: &[u8; 16], aid: &[u8; 16]) -> Option<(i64, [u8; 4])> {
    let mut b = *aid;
    aes_ecb_decrypt_block(&kdf16(cmdkey, &[b"AES Auth ID Encryption"]), &mut b);
    let crc = crc32fast::hash(&b[..12]);
    if b[12..] != crc.to_be_bytes() {
        return None;
    }
    Some((i64::from_be_bytes(b[..8].try_into().unwrap()), b[8..12].try_into().unwrap()))
}

#[derive(Clone, Debug, PartialEq, Eq, Serialize, Deserialize)]
pub struct ReqHeader {
    pub body_iv: [u8; 16],
    pub body_key: [u8; 16],
    pub v: u8,
    pub opt: u8,
    /// header padding bytes (0..=15)
    pub pad: Vec<u8>,
    pub sec: u8,
    pub cmd: u8,
    pub addr: Addr,
}

impl ReqHeader {
    pub fn plain(&self) -> Vec<u8> {
        assert!(self.pad.len() < 16);
        let mut h = vec![1u8];
        h.extend_from_slice(&self.body_iv);
        h.extend_from_slice(&self.body_key);
        h.push(self.v);
        h.push(self.opt);
        h.push(((self.pad.len() as u8) << 4) | (self.sec & 0x0f));
        h.push(0);
        h.push(self.cmd);
        h.extend(self.addr.vmess());
        h.extend_from_slice(&self.pad);
        let f = fnv1a32(&h);
        h.extend_from_slice(&f.to_be_bytes());
        h
    }
    pub fn parse(h: &[u8]) -> Result<ReqHeader, String> {
        if h.len() < 1 + 16 + 16 + 5 + 3 + 4 {
            return Err("short header".into());
        }
        if h[0] != 1 {
            return Err("bad version".into());
        }
        let body_iv = h[1..17].try_into().unwrap();
        let body_key = h[17..33].try_into().unwrap();
        let v = h[33];
        let opt = h[34];
        let p = (h[35] >> 4) as usize;
        let sec = h[35] & 0x0f;
        let cmd = h[37];
        let (addr, an) = Addr::parse_vmess(&h[38..]).ok_or("bad address")?;
        let end = 38 + an + p;
        if h.len() != end + 4 {
            return Err(format!("header length mismatch: {} vs {}", h.len(), end + 4));
        }
        let f = u32::from_be_bytes(h[end..end + 4].try_into().unwrap());
        if fnv1a32(&h[..end]) != f {
            return Err("fnv mismatch".into());
        }
        Ok(ReqHeader { body_iv, body_key, v, opt, pad: h[38 + an..end].to_vec(), sec, cmd, addr })
    }
}

const L_LEN_KEY: &[u8] = b"VMess Header AEAD Key_Length";
const L_LEN_IV: &[u8] = b"VMess Header AEAD Nonce_Length";
const L_HDR_KEY: &[u8] = b"VMess Header AEAD Key";
const L_HDR_IV: &[u8] = b"VMess Header AEAD Nonce";

pub fn seal_request_header(cmdkey: &[u8; 16], ts: i64, rand: [u8; 4], conn_nonce: [u8; 8], header_plain: &[u8]) -> Vec<u8> {
    let aid = auth_id(cmdkey, ts, rand);
    let lk = kdf16(cmdkey, &[L_LEN_KEY, &aid, &conn_nonce]);
    let li = kdf(cmdkey, &[L_LEN_IV, &aid, &conn_nonce]);
    let hk = kdf16(cmdkey, &[L_HDR_KEY, &aid, &conn_nonce]);
    let hi = kdf(cmdkey, &[L_HDR_IV, &aid, &conn_nonce]);
    let mut out = aid.to_vec();
    out.extend(AeadAlg::Aes128Gcm.seal(&lk, &li[..12], &aid, &(header_plain.len() as u16).to_be_bytes()));
    out.extend_from_slice(&conn_nonce);
    out.extend(AeadAlg::Aes128Gcm.seal(&hk, &hi[..12], &aid, header_plain));
    out
}

#[derive(Clone, Debug)]
pub struct OpenedRequest {
    pub header: ReqHeader,
    pub user: usize,
    pub ts: i64,
    pub rand: [u8; 4],
    pub auth_id: [u8; 16],
    pub conn_nonce: [u8; 8],
    pub consumed: usize,
    pub units: Vec<Unit>,
}

pub fn open_request_header(cmdkeys: &[[u8; 16]], wire: &[u8]) -> Result<OpenedRequest, String> {
    if wire.len() < 16 + 18 + 8 + 16 {
        return Err("short".into());
    }
    let aid: [u8; 16] = wire[..16].try_into().unwrap();
    let (user, (ts, rand)) = cmdkeys.iter().enumerate().find_map(|(i, k)| open_auth_id(k, &aid).map(|r| (i, r))).ok_or("auth-id matches no user")?;
    let cmdkey = &cmdkeys[user];
    let conn_nonce: [u8; 8] = wire[34..42].try_into().unwrap();
    let lk = kdf16(cmdkey, &[L_LEN_KEY, &aid, &conn_nonce]);
    let li = kdf(cmdkey, &[L_LEN_IV, &aid, &conn_nonce]);
    let lb = AeadAlg::Aes128Gcm.open(&lk, &li[..12], &aid, &wire[16..34]).ok_or("header length tag mismatch")?;
    let len = u16::from_be_bytes([lb[0], lb[1]]) as usize;
    if wire.len() < 42 + len + 16 {
        return Err("short header body".into());
    }
    let hk = kdf16(cmdkey, &[L_HDR_KEY, &aid, &conn_nonce]);
    let hi = kdf(cmdkey, &[L_HDR_IV, &aid, &conn_nonce]);
    let hp = AeadAlg::Aes128Gcm.open(&hk, &hi[..12], &aid, &wire[42..42 + len + 16]).ok_or("header tag mismatch")?;
    let header = ReqHeader::parse(&hp)?;
    let units = vec![
        Unit { start: 16, end: 34, key: lk.to_vec(), nonce: li[..12].to_vec(), kind: "hdr-len", app_bytes: 0 },
        Unit { start: 42, end: 42 + len + 16, key: hk.to_vec(), nonce: hi[..12].to_vec(), kind: "hdr", app_bytes: 0 },
    ];
    Ok(OpenedRequest { header, user, ts, rand, auth_id: aid, conn_nonce, consumed: 42 + len + 16, units })
}

pub fn response_keys(req_key: &[u8; 16], req_iv: &[u8; 16]) -> ([u8; 16], [u8; 16]) {
    let k: [u8; 16] = Sha256::digest(req_key)[..16].try_into().unwrap();
    let i: [u8; 16] = Sha256::digest(req_iv)[..16].try_into().unwrap();
    (k, i)
}

pub fn encode_response_header(resp_key: &[u8; 16], resp_iv: &[u8; 16], v: u8, opt: u8) -> Vec<u8> {
    encode_response_header_raw(resp_key, resp_iv, &[v, opt, 0, 0])
}

/// A sealed response header with arbitrary content (malformed responses: no authentication byte at all, ...).
pub fn encode_response_header_raw(resp_key: &[u8; 16], resp_iv: &[u8; 16], hdr: &[u8]) -> Vec<u8> {
    let lk = kdf16(resp_key, &[b"AEAD Resp Header Len Key"]);
    let li = kdf(resp_iv, &[b"AEAD Resp Header Len IV"]);
    let hk = kdf16(resp_key, &[b"AEAD Resp Header Key"]);
    let hi = kdf(resp_iv, &[b"AEAD Resp Header IV"]);
    let mut out = AeadAlg::Aes128Gcm.seal(&lk, &li[..12], &[], &(hdr.len() as u16).to_be_bytes());
    out.extend(AeadAlg::Aes128Gcm.seal(&hk, &hi[..12], &[], &hdr));
    out
}

/// returns (header bytes, consumed, units)
pub fn decode_response_header(resp_key: &[u8; 16], resp_iv: &[u8; 16], wire: &[u8]) -> Result<(Vec<u8>, usize, Vec<Unit>), String> {
    if wire.len() < 18 {
        return Err("short".into());
    }
    let lk = kdf16(resp_key, &[b"AEAD Resp Header Len Key"]);
    let li = kdf(resp_iv, &[b"AEAD Resp Header Len IV"]);
    let lb = AeadAlg::Aes128Gcm.open(&lk, &li[..12], &[], &wire[..18]).ok_or("response header length tag mismatch")?;
    let len = u16::from_be_bytes([lb[0], lb[1]]) as usize;
    if wire.len() < 18 + len + 16 {
        return Err("short response header".into());
    }
    let hk = kdf16(resp_key, &[b"AEAD Resp Header Key"]);
    let hi = kdf(resp_iv, &[b"AEAD Resp Header IV"]);
    let h = AeadAlg::Aes128Gcm.open(&hk, &hi[..12], &[], &wire[18..18 + len + 16]).ok_or("response header tag mismatch")?;
    let units = vec![
        Unit { start: 0, end: 18, key: lk.to_vec(), nonce: li[..12].to_vec(), kind: "hdr-len", app_bytes: 0 },
        Unit { start: 18, end: 34 + len, key: hk.to_vec(), nonce: hi[..12].to_vec(), kind: "hdr", app_bytes: 0 },
    ];
    Ok((h, 34 + len, units))
}

/// Parameters of one body direction.
#[derive(Clone, Debug)]
pub struct Body {
    pub sec: u8,
    pub opt: u8,
    /// this direction's key / IV (request: body key/IV; response: SHA-256 derived)
    pub key: [u8; 16],
    pub iv: [u8; 16],
    /// request key / IV (used by the authenticated-length cipher in both directions)
    pub req_key: [u8; 16],
    pub req_iv: [u8; 16],
}

impl Body {
    pub fn request(h: &ReqHeader) -> Body {
        Body { sec: h.sec, opt: h.opt, key: h.body_key, iv: h.body_iv, req_key: h.body_key, req_iv: h.body_iv }
    }
    pub fn response(h: &ReqHeader) -> Body {
        let (k, i) = response_keys(&h.body_key, &h.body_iv);
        Body { sec: h.sec, opt: h.opt, key: k, iv: i, req_key: h.body_key, req_iv: h.body_iv }
    }
    fn alg(&self) -> AeadAlg {
        if self.sec == SEC_CHACHA {
            AeadAlg::ChaCha20
        } else {
            AeadAlg::Aes128Gcm
        }
    }
    fn body_key(&self) -> Vec<u8> {
        if self.sec == SEC_CHACHA {
            chacha_key(&self.key).to_vec()
        } else {
            self.key.to_vec()
        }
    }
    fn authlen_key(&self) -> Vec<u8> {
        let k = kdf16(&self.req_key, &[b"auth_len"]);
        if self.sec == SEC_CHACHA {
            chacha_key(&k).to_vec()
        } else {
            k.to_vec()
        }
    }
    fn nonce(iv: &[u8; 16], count: u16) -> [u8; 12] {
        let mut n = [0u8; 12];
        n[..2].copy_from_slice(&count.to_be_bytes());
        n[2..].copy_from_slice(&iv[2..12]);
        n
    }
    pub fn len_field_size(&self) -> usize {
        if self.opt & OPT_A != 0 {
            18
        } else {
            2
        }
    }
    /// Max data bytes per chunk so that the 16-bit size field cannot overflow: 2^14 as v2fly uses.
    pub const MAX_DATA: usize = 16384;

    /// Encode `chunks` (each one chunk) starting at chunk index `k0`; `fill` is the padding filler byte source.
    pub fn encode(&self, chunks: &[Vec<u8>], fill: &mut dyn FnMut() -> u8) -> Vec<u8> {
        let mut shake = Shake::new(&self.iv);
        let alg = self.alg();
        let bk = self.body_key();
        let ak = self.authlen_key();
        let mut out = vec![];
        for (k, data) in chunks.iter().enumerate() {
            let k = k as u16;
            let pad = if self.opt & OPT_P != 0 { (shake.next16() % 64) as usize } else { 0 };
            let size = data.len() + 16 + pad;
            assert!(size <= 0xFFFF);
            if self.opt & OPT_A != 0 {
                out.extend(alg.seal(&ak, &Self::nonce(&self.req_iv, k), &[], &((size - 16) as u16).to_be_bytes()));
            } else if self.opt & OPT_M != 0 {
                out.extend_from_slice(&((size as u16) ^ shake.next16()).to_be_bytes());
            } else {
                out.extend_from_slice(&(size as u16).to_be_bytes());
            }
            out.extend(alg.seal(&bk, &Self::nonce(&self.iv, k), &[], data));
            for _ in 0..pad {
                out.push(fill());
            }
        }
        out
    }

    /// Decode as many complete chunks as `wire` holds.
    pub fn decode(&self, wire: &[u8]) -> Result<BodyDecoded, String> {
        let mut shake = Shake::new(&self.iv);
        let alg = self.alg();
        let bk = self.body_key();
        let ak = self.authlen_key();
        let mut d = BodyDecoded { chunks: vec![], units: vec![], consumed: 0, padding: vec![], max_data: 0 };
        let mut pos = 0usize;
        let mut k: u16 = 0;
        let lf = self.len_field_size();
        loop {
            if wire.len() - pos < lf {
                break;
            }
            // draws are consumed even if the chunk turns out incomplete: the loop ends there anyway
            let sh = &mut shake;
            let pad = if self.opt & OPT_P != 0 { (sh.next16() % 64) as usize } else { 0 };
            let size = if self.opt & OPT_A != 0 {
                let lb = alg.open(&ak, &Self::nonce(&self.req_iv, k), &[], &wire[pos..pos + 18]).ok_or_else(|| format!("auth-len tag mismatch at {}", pos))?;
                u16::from_be_bytes([lb[0], lb[1]]) as usize + 16
            } else if self.opt & OPT_M != 0 {
                (u16::from_be_bytes([wire[pos], wire[pos + 1]]) ^ sh.next16()) as usize
            } else {
                u16::from_be_bytes([wire[pos], wire[pos + 1]]) as usize
            };
            if size < 16 + pad {
                return Err(format!("chunk size {} smaller than tag+padding {}", size, 16 + pad));
            }
            if wire.len() - pos - lf < size {
                break;
            }
            let ct = &wire[pos + lf..pos + lf + size - pad];
            let pt = alg.open(&bk, &Self::nonce(&self.iv, k), &[], ct).ok_or_else(|| format!("chunk tag mismatch at {}", pos + lf))?;
            if self.opt & OPT_A != 0 {
                d.units.push(Unit { start: pos, end: pos + 18, key: ak.clone(), nonce: Self::nonce(&self.req_iv, k).to_vec(), kind: "authlen", app_bytes: 0 });
            }
            d.units.push(Unit { start: pos + lf, end: pos + lf + size - pad, key: bk.clone(), nonce: Self::nonce(&self.iv, k).to_vec(), kind: "payload", app_bytes: pt.len() });
            if pad > 0 {
                d.padding.push((pos + lf + size - pad, pos + lf + size));
            }
            d.max_data = d.max_data.max(pt.len());
            d.chunks.push(pt);
            pos += lf + size;
            k = k.wrapping_add(1);
            d.consumed = pos;
        }
        Ok(d)
    }
}

#[derive(Clone, Debug)]
pub struct BodyDecoded {
    pub chunks: Vec<Vec<u8>>,
    pub units: Vec<Unit>,
    pub consumed: usize,
    /// unauthenticated padding byte ranges
    pub padding: Vec<(usize, usize)>,
    pub max_data: usize,
}

/// Option masks a spec-conforming sender may use with AEAD securities (ChunkStream always on; GlobalPadding
/// only together with ChunkMasking; ConnectionReuse free; AuthenticatedLength free).
pub fn valid_masks() -> Vec<u8> {
    let mut v = vec![];
    for r in [0, OPT_R] {
        for base in [OPT_S, OPT_S | OPT_M, OPT_S | OPT_M | OPT_P] {
            for a in [0, OPT_A] {
                v.push(base | r | a);
            }
        }
    }
    v
}
