//! Trojan reference.
use super::Addr;
use sha2::{Digest, Sha224};

pub fn key_hex(password: &[u8]) -> [u8; 56] {
    let h = Sha224::digest(password);
    let mut out = [0u8; 56];
    const HEX: &[u8; 16] = b"0123456789abcdef";
    for (i, b) in h.iter().enumerate() {
        out[2 * i] = HEX[(b >> 4) as usize];
        out[2 * i + 1] = HEX[(b & 15) as usize];
    }
    out
}

pub const CMD_CONNECT: u8 = 1;
pub const CMD_UDP: u8 = 3;

pub fn encode_request(password: &[u8], cmd: u8, addr: &Addr, payload: &[u8]) -> Vec<u8> {
    let mut out = key_hex(password).to_vec();
    out.extend_from_slice(b"\r\n");
    out.push(cmd);
    out.extend(addr.socks());
    out.extend_from_slice(b"\r\n");
    out.extend_from_slice(payload);
    out
}

/// returns (cmd, addr, header length)
pub fn decode_request(password: &[u8], wire: &[u8]) -> Result<(u8, Addr, usize), String> {
    if wire.len() < 58 + 1 {
        return Err("short".into());
    }
    if wire[..56] != key_hex(password) {
        return Err("password hash mismatch".into());
    }
    if &wire[56..58] != b"\r\n" {
        return Err("missing CRLF after hash".into());
    }
    let cmd = wire[58];
    let (addr, n) = Addr::parse_socks(&wire[59..]).ok_or("bad address")?;
    let e = 59 + n;
    if wire.len() < e + 2 || &wire[e..e + 2] != b"\r\n" {
        return Err("missing CRLF after address".into());
    }
    Ok((cmd, addr, e + 2))
}

pub fn encode_udp_unit(addr: &Addr, payload: &[u8]) -> Vec<u8> {
    assert!(payload.len() <= 0xFFFF);
    let mut out = addr.socks();
    out.extend_from_slice(&(payload.len() as u16).to_be_bytes());
    out.extend_from_slice(b"\r\n");
    out.extend_from_slice(payload);
    out
}

/// Decode all complete UDP units; returns (units, consumed)
pub fn decode_udp_units(wire: &[u8]) -> Result<(Vec<(Addr, Vec<u8>)>, usize), String> {
    let mut pos = 0;
    let mut out = vec![];
    loop {
        let Some((addr, n)) = Addr::parse_socks(&wire[pos..]) else {
            if wire.len() > pos && ![1u8, 3, 4].contains(&wire[pos]) {
                return Err(format!("bad address type at {}", pos));
            }
            break;
        };
        if wire.len() < pos + n + 4 {
            break;
        }
        let len = u16::from_be_bytes([wire[pos + n], wire[pos + n + 1]]) as usize;
        if &wire[pos + n + 2..pos + n + 4] != b"\r\n" {
            return Err(format!("missing CRLF at {}", pos + n + 2));
        }
        if wire.len() < pos + n + 4 + len {
            break;
        }
        out.push((addr, wire[pos + n + 4..pos + n + 4 + len].to_vec()));
        pos += n + 4 + len;
    }
    Ok((out, pos))
}
