//! Shadowsocks 2022 (SIP022) with identity headers (SIP023) reference.
use super::{aes_ecb_decrypt_block, aes_ecb_encrypt_block, le_nonce, Addr, AeadAlg, Unit};
use serde::{Deserialize, Serialize};

#[derive(Clone, Copy, Debug, PartialEq, Eq, Hash, Serialize, Deserialize)]
pub enum C22 {
    Aes128,
    Aes256,
    ChaCha20,
    ChaCha8,
}

impl C22 {
    pub const ALL: [C22; 4] = [C22::Aes128, C22::Aes256, C22::ChaCha20, C22::ChaCha8];
    pub fn key_len(&self) -> usize {
        match self {
            C22::Aes128 => 16,
            _ => 32,
        }
    }
    pub fn tcp_alg(&self) -> AeadAlg {
        match self {
            C22::Aes128 => AeadAlg::Aes128Gcm,
            C22::Aes256 => AeadAlg::Aes256Gcm,
            C22::ChaCha20 => AeadAlg::ChaCha20,
            C22::ChaCha8 => AeadAlg::ChaCha8,
        }
    }
    pub fn udp_alg(&self) -> AeadAlg {
        match self {
            C22::Aes128 => AeadAlg::Aes128Gcm,
            C22::Aes256 => AeadAlg::Aes256Gcm,
            C22::ChaCha20 => AeadAlg::XChaCha20,
            C22::ChaCha8 => AeadAlg::XChaCha8,
        }
    }
    pub fn is_aes(&self) -> bool {
        matches!(self, C22::Aes128 | C22::Aes256)
    }
    pub fn name(&self) -> &'static str {
        match self {
            C22::Aes128 => "2022-blake3-aes-128-gcm",
            C22::Aes256 => "2022-blake3-aes-256-gcm",
            C22::ChaCha20 => "2022-blake3-chacha20-poly1305",
            C22::ChaCha8 => "2022-blake3-chacha8-poly1305",
        }
    }
}

pub fn session_subkey(key: &[u8], salt: &[u8], key_len: usize) -> Vec<u8> {
    let mut m = key.to_vec();
    m.extend_from_slice(salt);
    blake3::derive_key("shadowsocks 2022 session subkey", &m)[..key_len].to_vec()
}

pub fn identity_subkey(ipsk: &[u8], salt: &[u8], key_len: usize) -> Vec<u8> {
    let mut m = ipsk.to_vec();
    m.extend_from_slice(salt);
    blake3::derive_key("shadowsocks 2022 identity subkey", &m)[..key_len].to_vec()
}

pub fn psk_hash(psk: &[u8]) -> [u8; 16] {
    blake3::hash(psk).as_bytes()[..16].try_into().unwrap()
}

/// TCP identity headers for the chain iPSK_0 .. iPSK_{k-1}, uPSK. `aes_key_len` is the AES key size of the cipher.
pub fn tcp_eih(ipsks: &[Vec<u8>], upsk: &[u8], salt: &[u8], aes_key_len: usize) -> Vec<u8> {
    let mut out = vec![];
    for i in 0..ipsks.len() {
        let next: &[u8] = if i + 1 < ipsks.len() { &ipsks[i + 1] } else { upsk };
        let idk = identity_subkey(&ipsks[i], salt, aes_key_len);
        let mut block = psk_hash(next);
        aes_ecb_encrypt_block(&idk, &mut block);
        out.extend_from_slice(&block);
    }
    out
}

#[derive(Clone, Debug, PartialEq, Eq, Serialize, Deserialize)]
pub struct TcpRequest {
    pub salt: Vec<u8>,
    pub ts: u64,
    pub typ: u8,
    pub addr: Addr,
    pub padding: Vec<u8>,
    /// payload carried in the variable-length header
    pub first: Vec<u8>,
    /// following chunks (each 1..=0xFFFF bytes)
    pub chunks: Vec<Vec<u8>>,
}

pub fn encode_tcp_request(c: C22, upsk: &[u8], ipsks: &[Vec<u8>], r: &TcpRequest) -> Vec<u8> {
    let kl = c.key_len();
    assert_eq!(r.salt.len(), kl);
    let sk = session_subkey(upsk, &r.salt, kl);
    let alg = c.tcp_alg();
    let mut out = r.salt.clone();
    if c.is_aes() {
        out.extend(tcp_eih(ipsks, upsk, &r.salt, kl));
    }
    let mut var = r.addr.socks();
    var.extend_from_slice(&(r.padding.len() as u16).to_be_bytes());
    var.extend_from_slice(&r.padding);
    var.extend_from_slice(&r.first);
    assert!(var.len() <= 0xFFFF);
    let mut fixed = vec![r.typ];
    fixed.extend_from_slice(&r.ts.to_be_bytes());
    fixed.extend_from_slice(&(var.len() as u16).to_be_bytes());
    out.extend(alg.seal(&sk, &le_nonce(0), &[], &fixed));
    out.extend(alg.seal(&sk, &le_nonce(1), &[], &var));
    encode_chunks(alg, &sk, 2, &r.chunks, &mut out);
    out
}

fn encode_chunks(alg: AeadAlg, sk: &[u8], mut ctr: u64, chunks: &[Vec<u8>], out: &mut Vec<u8>) {
    for ch in chunks {
        assert!(!ch.is_empty() && ch.len() <= 0xFFFF);
        out.extend(alg.seal(sk, &le_nonce(ctr), &[], &(ch.len() as u16).to_be_bytes()));
        out.extend(alg.seal(sk, &le_nonce(ctr + 1), &[], ch));
        ctr += 2;
    }
}

#[derive(Clone, Debug)]
pub struct TcpRequestDecoded {
    pub req: TcpRequest,
    pub user: Option<usize>,
    pub units: Vec<Unit>,
    pub consumed: usize,
    pub header_end: usize,
}

/// Reference server side. `server_psk` is the configured key; `users` the registered user keys (AES ciphers only).
/// When `users` is non-empty the stream must carry one identity header naming a registered user.
/// `n_eih_skip`: additional leading identity headers to skip (relay chains; 0 for a single server).
pub fn decode_tcp_request(c: C22, server_psk: &[u8], users: &[Vec<u8>], n_eih_skip: usize, wire: &[u8]) -> Result<TcpRequestDecoded, String> {
    let kl = c.key_len();
    let alg = c.tcp_alg();
    if wire.len() < kl {
        return Err("short salt".into());
    }
    let salt = wire[..kl].to_vec();
    let mut pos = kl + 16 * n_eih_skip;
    let mut user = None;
    let body_key: Vec<u8> = if !users.is_empty() && c.is_aes() {
        if wire.len() < pos + 16 {
            return Err("short identity header".into());
        }
        let mut block: [u8; 16] = wire[pos..pos + 16].try_into().unwrap();
        pos += 16;
        let idk = identity_subkey(server_psk, &salt, kl);
        aes_ecb_decrypt_block(&idk, &mut block);
        let idx = users.iter().position(|u| psk_hash(u) == block).ok_or("identity header names no registered user")?;
        user = Some(idx);
        users[idx].clone()
    } else {
        server_psk.to_vec()
    };
    let sk = session_subkey(&body_key, &salt, kl);
    if wire.len() < pos + 11 + 16 {
        return Err("short fixed header".into());
    }
    let fixed = alg.open(&sk, &le_nonce(0), &[], &wire[pos..pos + 27]).ok_or("fixed header tag mismatch")?;
    let mut units = vec![Unit { start: pos, end: pos + 27, key: sk.clone(), nonce: le_nonce(0).to_vec(), kind: "fixed", app_bytes: 0 }];
    pos += 27;
    let typ = fixed[0];
    let ts = u64::from_be_bytes(fixed[1..9].try_into().unwrap());
    let vlen = u16::from_be_bytes([fixed[9], fixed[10]]) as usize;
    if wire.len() < pos + vlen + 16 {
        return Err("short variable header".into());
    }
    let var = alg.open(&sk, &le_nonce(1), &[], &wire[pos..pos + vlen + 16]).ok_or("variable header tag mismatch")?;
    let (addr, an) = Addr::parse_socks(&var).ok_or("bad address")?;
    if var.len() < an + 2 {
        return Err("no padding length".into());
    }
    let plen = u16::from_be_bytes([var[an], var[an + 1]]) as usize;
    if var.len() < an + 2 + plen {
        return Err("padding exceeds header".into());
    }
    let padding = var[an + 2..an + 2 + plen].to_vec();
    let first = var[an + 2 + plen..].to_vec();
    units.push(Unit { start: pos, end: pos + vlen + 16, key: sk.clone(), nonce: le_nonce(1).to_vec(), kind: "var", app_bytes: first.len() });
    pos += vlen + 16;
    let header_end = pos;
    let (chunks, consumed) = decode_chunks(alg, &sk, 2, wire, pos, &mut units)?;
    Ok(TcpRequestDecoded { req: TcpRequest { salt, ts, typ, addr, padding, first, chunks }, user, units, consumed, header_end })
}

fn decode_chunks(alg: AeadAlg, sk: &[u8], mut ctr: u64, wire: &[u8], mut pos: usize, units: &mut Vec<Unit>) -> Result<(Vec<Vec<u8>>, usize), String> {
    let mut chunks = vec![];
    loop {
        if wire.len() - pos < 18 {
            break;
        }
        let lb = alg.open(sk, &le_nonce(ctr), &[], &wire[pos..pos + 18]).ok_or_else(|| format!("length tag mismatch at {}", pos))?;
        let len = u16::from_be_bytes([lb[0], lb[1]]) as usize;
        if wire.len() - pos - 18 < len + 16 {
            break;
        }
        let pt = alg.open(sk, &le_nonce(ctr + 1), &[], &wire[pos + 18..pos + 18 + len + 16]).ok_or_else(|| format!("payload tag mismatch at {}", pos + 18))?;
        units.push(Unit { start: pos, end: pos + 18, key: sk.to_vec(), nonce: le_nonce(ctr).to_vec(), kind: "len", app_bytes: 0 });
        units.push(Unit { start: pos + 18, end: pos + 34 + len, key: sk.to_vec(), nonce: le_nonce(ctr + 1).to_vec(), kind: "payload", app_bytes: len });
        chunks.push(pt);
        pos += 34 + len;
        ctr += 2;
    }
    Ok((chunks, pos))
}

#[derive(Clone, Debug, PartialEq, Eq, Serialize, Deserialize)]
pub struct TcpResponse {
    pub salt: Vec<u8>,
    pub ts: u64,
    pub typ: u8,
    pub request_salt: Vec<u8>,
    pub first: Vec<u8>,
    pub chunks: Vec<Vec<u8>>,
}

pub fn encode_tcp_response(c: C22, key: &[u8], r: &TcpResponse) -> Vec<u8> {
    let kl = c.key_len();
    let alg = c.tcp_alg();
    let sk = session_subkey(key, &r.salt, kl);
    let mut out = r.salt.clone();
    let mut fixed = vec![r.typ];
    fixed.extend_from_slice(&r.ts.to_be_bytes());
    fixed.extend_from_slice(&r.request_salt);
    fixed.extend_from_slice(&(r.first.len() as u16).to_be_bytes());
    out.extend(alg.seal(&sk, &le_nonce(0), &[], &fixed));
    out.extend(alg.seal(&sk, &le_nonce(1), &[], &r.first));
    encode_chunks(alg, &sk, 2, &r.chunks, &mut out);
    out
}

#[derive(Clone, Debug)]
pub struct TcpResponseDecoded {
    pub resp: TcpResponse,
    pub units: Vec<Unit>,
    pub consumed: usize,
}

pub fn decode_tcp_response(c: C22, key: &[u8], wire: &[u8]) -> Result<TcpResponseDecoded, String> {
    let kl = c.key_len();
    let alg = c.tcp_alg();
    if wire.len() < kl + 1 + 8 + kl + 2 + 16 {
        return Err("short response header".into());
    }
    let salt = wire[..kl].to_vec();
    let sk = session_subkey(key, &salt, kl);
    let mut pos = kl;
    let fl = 1 + 8 + kl + 2 + 16;
    let fixed = alg.open(&sk, &le_nonce(0), &[], &wire[pos..pos + fl]).ok_or("response fixed header tag mismatch")?;
    let mut units = vec![Unit { start: pos, end: pos + fl, key: sk.clone(), nonce: le_nonce(0).to_vec(), kind: "fixed", app_bytes: 0 }];
    pos += fl;
    let typ = fixed[0];
    let ts = u64::from_be_bytes(fixed[1..9].try_into().unwrap());
    let request_salt = fixed[9..9 + kl].to_vec();
    let len = u16::from_be_bytes([fixed[9 + kl], fixed[10 + kl]]) as usize;
    if wire.len() < pos + len + 16 {
        return Err("short first payload".into());
    }
    let first = alg.open(&sk, &le_nonce(1), &[], &wire[pos..pos + len + 16]).ok_or("first payload tag mismatch")?;
    units.push(Unit { start: pos, end: pos + len + 16, key: sk.clone(), nonce: le_nonce(1).to_vec(), kind: "payload", app_bytes: len });
    pos += len + 16;
    let (chunks, consumed) = decode_chunks(alg, &sk, 2, wire, pos, &mut units)?;
    Ok(TcpResponseDecoded { resp: TcpResponse { salt, ts, typ, request_salt, first, chunks }, units, consumed })
}

// ---------------------------------------------------------------- UDP

#[derive(Clone, Debug, PartialEq, Eq, Serialize, Deserialize)]
pub struct UdpClientPacket {
    pub sid: u64,
    pub pid: u64,
    pub typ: u8,
    pub ts: u64,
    pub padding: Vec<u8>,
    pub addr: Addr,
    pub payload: Vec<u8>,
    /// XChaCha nonce (ChaCha variants only; 24 bytes)
    pub xnonce: Vec<u8>,
}

fn udp_eih(ipsks: &[Vec<u8>], upsk: &[u8], header: &[u8; 16]) -> Vec<u8> {
    let mut out = vec![];
    for i in 0..ipsks.len() {
        let next: &[u8] = if i + 1 < ipsks.len() { &ipsks[i + 1] } else { upsk };
        let mut block = psk_hash(next);
        for (b, h) in block.iter_mut().zip(header.iter()) {
            *b ^= h;
        }
        aes_ecb_encrypt_block(&ipsks[i], &mut block);
        out.extend_from_slice(&block);
    }
    out
}

pub fn encode_udp_client(c: C22, upsk: &[u8], ipsks: &[Vec<u8>], p: &UdpClientPacket) -> Vec<u8> {
    let mut body = vec![p.typ];
    body.extend_from_slice(&p.ts.to_be_bytes());
    body.extend_from_slice(&(p.padding.len() as u16).to_be_bytes());
    body.extend_from_slice(&p.padding);
    body.extend(p.addr.socks());
    body.extend_from_slice(&p.payload);
    let mut header = [0u8; 16];
    header[..8].copy_from_slice(&p.sid.to_be_bytes());
    header[8..].copy_from_slice(&p.pid.to_be_bytes());
    if c.is_aes() {
        let sk = session_subkey(upsk, &p.sid.to_be_bytes(), c.key_len());
        let mut enc_header = header;
        let hk: &[u8] = if ipsks.is_empty() { upsk } else { &ipsks[0] };
        aes_ecb_encrypt_block(hk, &mut enc_header);
        let mut out = enc_header.to_vec();
        out.extend(udp_eih(ipsks, upsk, &header));
        out.extend(c.udp_alg().seal(&sk, &header[4..16], &[], &body));
        out
    } else {
        assert_eq!(p.xnonce.len(), 24);
        let mut pt = header.to_vec();
        pt.extend(body);
        let mut out = p.xnonce.clone();
        out.extend(c.udp_alg().seal(upsk, &p.xnonce, &[], &pt));
        out
    }
}

#[derive(Clone, Debug)]
pub struct UdpDecoded<T> {
    pub pkt: T,
    pub user: Option<usize>,
    pub unit: Unit,
}

pub fn decode_udp_client(c: C22, server_psk: &[u8], users: &[Vec<u8>], wire: &[u8]) -> Result<UdpDecoded<UdpClientPacket>, String> {
    let (sid, pid, body, user, unit, xnonce);
    if c.is_aes() {
        if wire.len() < 16 + 16 {
            return Err("short".into());
        }
        let mut header: [u8; 16] = wire[..16].try_into().unwrap();
        aes_ecb_decrypt_block(server_psk, &mut header);
        sid = u64::from_be_bytes(header[..8].try_into().unwrap());
        pid = u64::from_be_bytes(header[8..].try_into().unwrap());
        let mut pos = 16;
        let key: Vec<u8> = if !users.is_empty() {
            if wire.len() < 32 + 16 {
                return Err("short identity header".into());
            }
            let mut block: [u8; 16] = wire[16..32].try_into().unwrap();
            aes_ecb_decrypt_block(server_psk, &mut block);
            for (b, h) in block.iter_mut().zip(header.iter()) {
                *b ^= h;
            }
            let idx = users.iter().position(|u| psk_hash(u) == block).ok_or("identity header names no registered user")?;
            user = Some(idx);
            pos = 32;
            users[idx].clone()
        } else {
            user = None;
            server_psk.to_vec()
        };
        let sk = session_subkey(&key, &sid.to_be_bytes(), c.key_len());
        body = c.udp_alg().open(&sk, &header[4..16], &[], &wire[pos..]).ok_or("body tag mismatch")?;
        unit = Unit { start: pos, end: wire.len(), key: sk, nonce: header[4..16].to_vec(), kind: "dgram", app_bytes: 0 };
        xnonce = vec![];
    } else {
        if wire.len() < 24 + 16 + 16 {
            return Err("short".into());
        }
        let pt = c.udp_alg().open(server_psk, &wire[..24], &[], &wire[24..]).ok_or("packet tag mismatch")?;
        sid = u64::from_be_bytes(pt[..8].try_into().unwrap());
        pid = u64::from_be_bytes(pt[8..16].try_into().unwrap());
        body = pt[16..].to_vec();
        user = None;
        unit = Unit { start: 24, end: wire.len(), key: server_psk.to_vec(), nonce: wire[..24].to_vec(), kind: "dgram", app_bytes: 0 };
        xnonce = wire[..24].to_vec();
    }
    if body.len() < 11 {
        return Err("short body".into());
    }
    let typ = body[0];
    let ts = u64::from_be_bytes(body[1..9].try_into().unwrap());
    let plen = u16::from_be_bytes([body[9], body[10]]) as usize;
    if body.len() < 11 + plen {
        return Err("padding exceeds body".into());
    }
    let padding = body[11..11 + plen].to_vec();
    let (addr, an) = Addr::parse_socks(&body[11 + plen..]).ok_or("bad address")?;
    let payload = body[11 + plen + an..].to_vec();
    let mut unit = unit;
    unit.app_bytes = payload.len();
    Ok(UdpDecoded { pkt: UdpClientPacket { sid, pid, typ, ts, padding, addr, payload, xnonce }, user, unit })
}

#[derive(Clone, Debug, PartialEq, Eq, Serialize, Deserialize)]
pub struct UdpServerPacket {
    pub ssid: u64,
    pub pid: u64,
    pub typ: u8,
    pub ts: u64,
    pub client_sid: u64,
    pub padding: Vec<u8>,
    pub addr: Addr,
    pub payload: Vec<u8>,
    pub xnonce: Vec<u8>,
}

/// `key` = the user's PSK (or the single PSK)
pub fn encode_udp_server(c: C22, key: &[u8], p: &UdpServerPacket) -> Vec<u8> {
    let mut body = vec![p.typ];
    body.extend_from_slice(&p.ts.to_be_bytes());
    body.extend_from_slice(&p.client_sid.to_be_bytes());
    body.extend_from_slice(&(p.padding.len() as u16).to_be_bytes());
    body.extend_from_slice(&p.padding);
    body.extend(p.addr.socks());
    body.extend_from_slice(&p.payload);
    let mut header = [0u8; 16];
    header[..8].copy_from_slice(&p.ssid.to_be_bytes());
    header[8..].copy_from_slice(&p.pid.to_be_bytes());
    if c.is_aes() {
        let sk = session_subkey(key, &p.ssid.to_be_bytes(), c.key_len());
        let mut enc_header = header;
        aes_ecb_encrypt_block(key, &mut enc_header);
        let mut out = enc_header.to_vec();
        out.extend(c.udp_alg().seal(&sk, &header[4..16], &[], &body));
        out
    } else {
        assert_eq!(p.xnonce.len(), 24);
        let mut pt = header.to_vec();
        pt.extend(body);
        let mut out = p.xnonce.clone();
        out.extend(c.udp_alg().seal(key, &p.xnonce, &[], &pt));
        out
    }
}

pub fn decode_udp_server(c: C22, key: &[u8], wire: &[u8]) -> Result<UdpDecoded<UdpServerPacket>, String> {
    let (ssid, pid, body, unit, xnonce);
    if c.is_aes() {
        if wire.len() < 32 {
            return Err("short".into());
        }
        let mut header: [u8; 16] = wire[..16].try_into().unwrap();
        aes_ecb_decrypt_block(key, &mut header);
        ssid = u64::from_be_bytes(header[..8].try_into().unwrap());
        pid = u64::from_be_bytes(header[8..].try_into().unwrap());
        let sk = session_subkey(key, &ssid.to_be_bytes(), c.key_len());
        body = c.udp_alg().open(&sk, &header[4..16], &[], &wire[16..]).ok_or("body tag mismatch")?;
        unit = Unit { start: 16, end: wire.len(), key: sk, nonce: header[4..16].to_vec(), kind: "dgram", app_bytes: 0 };
        xnonce = vec![];
    } else {
        if wire.len() < 24 + 32 {
            return Err("short".into());
        }
        let pt = c.udp_alg().open(key, &wire[..24], &[], &wire[24..]).ok_or("packet tag mismatch")?;
        ssid = u64::from_be_bytes(pt[..8].try_into().unwrap());
        pid = u64::from_be_bytes(pt[8..16].try_into().unwrap());
        body = pt[16..].to_vec();
        unit = Unit { start: 24, end: wire.len(), key: key.to_vec(), nonce: wire[..24].to_vec(), kind: "dgram", app_bytes: 0 };
        xnonce = wire[..24].to_vec();
    }
    if body.len() < 19 {
        return Err("short body".into());
    }
    let typ = body[0];
    let ts = u64::from_be_bytes(body[1..9].try_into().unwrap());
    let client_sid = u64::from_be_bytes(body[9..17].try_into().unwrap());
    let plen = u16::from_be_bytes([body[17], body[18]]) as usize;
    if body.len() < 19 + plen {
        return Err("padding exceeds body".into());
    }
    let padding = body[19..19 + plen].to_vec();
    let (addr, an) = Addr::parse_socks(&body[19 + plen..]).ok_or("bad address")?;
    let payload = body[19 + plen + an..].to_vec();
    let mut unit = unit;
    unit.app_bytes = payload.len();
    Ok(UdpDecoded { pkt: UdpServerPacket { ssid, pid, typ, ts, client_sid, padding, addr, payload, xnonce }, user: None, unit })
}
