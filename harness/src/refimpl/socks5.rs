//! SOCKS5 (RFC 1928) reference pieces for the local side.
use super::Addr;

pub fn greeting(methods: &[u8]) -> Vec<u8> {
    let mut v = vec![5, methods.len() as u8];
    v.extend_from_slice(methods);
    v
}

pub fn request(cmd: u8, addr: &Addr) -> Vec<u8> {
    let mut v = vec![5, cmd, 0];
    v.extend(addr.socks());
    v
}

/// Parse a method-selection reply.
pub fn parse_method_reply(b: &[u8]) -> Option<u8> {
    if b.len() == 2 && b[0] == 5 {
        Some(b[1])
    } else {
        None
    }
}

/// Parse a command reply: returns (rep, bound address, consumed)
pub fn parse_reply(b: &[u8]) -> Option<(u8, Addr, usize)> {
    if b.len() < 4 || b[0] != 5 || b[2] != 0 {
        return None;
    }
    let (a, n) = Addr::parse_socks(&b[3..])?;
    Some((b[1], a, 3 + n))
}

pub fn udp_datagram(frag: u8, addr: &Addr, data: &[u8]) -> Vec<u8> {
    let mut v = vec![0, 0, frag];
    v.extend(addr.socks());
    v.extend_from_slice(data);
    v
}

pub fn parse_udp_datagram(b: &[u8]) -> Option<(u8, Addr, Vec<u8>)> {
    if b.len() < 4 || b[0] != 0 || b[1] != 0 {
        return None;
    }
    let (a, n) = Addr::parse_socks(&b[3..])?;
    Some((b[2], a, b[3 + n..].to_vec()))
}
