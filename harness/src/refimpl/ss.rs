//! Shadowsocks AEAD (SIP004 / SIP007) reference.
use super::{le_nonce, Addr, AeadAlg, Unit};
use md5::{Digest, Md5};
use serde::{Deserialize, Serialize};

#[derive(Clone, Copy, Debug, PartialEq, Eq, Hash, Serialize, Deserialize)]
pub enum Legacy {
    Aes128Gcm,
    Aes256Gcm,
    ChaCha20,
}

impl Legacy {
    pub const ALL: [Legacy; 3] = [Legacy::Aes128Gcm, Legacy::Aes256Gcm, Legacy::ChaCha20];
    pub fn alg(&self) -> AeadAlg {
        match self {
            Legacy::Aes128Gcm => AeadAlg::Aes128Gcm,
            Legacy::Aes256Gcm => AeadAlg::Aes256Gcm,
            Legacy::ChaCha20 => AeadAlg::ChaCha20,
        }
    }
    pub fn key_len(&self) -> usize {
        self.alg().key_len()
    }
    pub fn name(&self) -> &'static str {
        match self {
            Legacy::Aes128Gcm => "aes-128-gcm",
            Legacy::Aes256Gcm => "aes-256-gcm",
            Legacy::ChaCha20 => "chacha20-poly1305",
        }
    }
}

pub fn evp_bytes_to_key(password: &[u8], n: usize) -> Vec<u8> {
    let mut out: Vec<u8> = vec![];
    let mut prev: Vec<u8> = vec![];
    while out.len() < n {
        let mut h = Md5::new();
        h.update(&prev);
        h.update(password);
        prev = h.finalize().to_vec();
        out.extend_from_slice(&prev);
    }
    out.truncate(n);
    out
}

pub fn subkey(key: &[u8], salt: &[u8]) -> Vec<u8> {
    let hk = hkdf::Hkdf::<sha1::Sha1>::new(Some(salt), key);
    let mut okm = vec![0u8; key.len()];
    hk.expand(b"ss-subkey", &mut okm).unwrap();
    okm
}

/// Encode a stream: salt ‖ chunk*; each element of `chunks` becomes exactly one chunk (len must be <= 0x3FFF).
pub fn encode_stream(c: Legacy, master: &[u8], salt: &[u8], chunks: &[Vec<u8>]) -> Vec<u8> {
    assert_eq!(salt.len(), c.key_len());
    let sk = subkey(master, salt);
    let mut out = salt.to_vec();
    let mut ctr = 0u64;
    for ch in chunks {
        assert!(ch.len() <= 0x3FFF && !ch.is_empty());
        out.extend(c.alg().seal(&sk, &le_nonce(ctr), &[], &(ch.len() as u16).to_be_bytes()));
        ctr += 1;
        out.extend(c.alg().seal(&sk, &le_nonce(ctr), &[], ch));
        ctr += 1;
    }
    out
}

#[derive(Debug, Clone)]
pub struct StreamDecoded {
    pub salt: Vec<u8>,
    pub chunks: Vec<Vec<u8>>,
    pub units: Vec<Unit>,
    /// bytes consumed (complete chunks only)
    pub consumed: usize,
    /// largest length field seen
    pub max_len: usize,
}

/// Decode salt ‖ chunk*. `strict` enforces the sender limit len <= 0x3FFF. Trailing incomplete chunk is left.
pub fn decode_stream(c: Legacy, master: &[u8], wire: &[u8], strict: bool) -> Result<StreamDecoded, String> {
    let n = c.key_len();
    if wire.len() < n {
        return Err("short salt".into());
    }
    let salt = wire[..n].to_vec();
    let sk = subkey(master, &salt);
    let mut pos = n;
    let mut ctr = 0u64;
    let mut d = StreamDecoded { salt, chunks: vec![], units: vec![], consumed: n, max_len: 0 };
    loop {
        if wire.len() - pos < 18 {
            break;
        }
        let lb = c.alg().open(&sk, &le_nonce(ctr), &[], &wire[pos..pos + 18]).ok_or_else(|| format!("length tag mismatch at {}", pos))?;
        let len = u16::from_be_bytes([lb[0], lb[1]]) as usize;
        if strict && len > 0x3FFF {
            return Err(format!("chunk length {:#x} exceeds 0x3FFF at offset {}", len, pos));
        }
        if wire.len() - pos - 18 < len + 16 {
            break;
        }
        let pt = c.alg().open(&sk, &le_nonce(ctr + 1), &[], &wire[pos + 18..pos + 18 + len + 16]).ok_or_else(|| format!("payload tag mismatch at {}", pos + 18))?;
        d.units.push(Unit { start: pos, end: pos + 18, key: sk.clone(), nonce: le_nonce(ctr).to_vec(), kind: "len", app_bytes: 0 });
        d.units.push(Unit { start: pos + 18, end: pos + 18 + len + 16, key: sk.clone(), nonce: le_nonce(ctr + 1).to_vec(), kind: "payload", app_bytes: len });
        d.max_len = d.max_len.max(len);
        d.chunks.push(pt);
        pos += 18 + len + 16;
        ctr += 2;
        d.consumed = pos;
    }
    Ok(d)
}

/// Client request stream = stream whose plaintext starts with the SOCKS5-form address.
pub fn split_request(plain: &[u8]) -> Option<(Addr, Vec<u8>)> {
    let (a, n) = Addr::parse_socks(plain)?;
    Some((a, plain[n..].to_vec()))
}

pub fn encode_datagram(c: Legacy, master: &[u8], salt: &[u8], addr: &Addr, payload: &[u8]) -> Vec<u8> {
    let sk = subkey(master, salt);
    let mut pt = addr.socks();
    pt.extend_from_slice(payload);
    let mut out = salt.to_vec();
    out.extend(c.alg().seal(&sk, &le_nonce(0), &[], &pt));
    out
}

pub fn decode_datagram(c: Legacy, master: &[u8], wire: &[u8]) -> Result<(Addr, Vec<u8>, Unit), String> {
    let n = c.key_len();
    if wire.len() < n + 16 {
        return Err("short datagram".into());
    }
    let sk = subkey(master, &wire[..n]);
    let pt = c.alg().open(&sk, &le_nonce(0), &[], &wire[n..]).ok_or("datagram tag mismatch")?;
    let (a, k) = Addr::parse_socks(&pt).ok_or("bad address in datagram")?;
    let unit = Unit { start: n, end: wire.len(), key: sk, nonce: le_nonce(0).to_vec(), kind: "dgram", app_bytes: pt.len() - k };
    Ok((a, pt[k..].to_vec(), unit))
}
