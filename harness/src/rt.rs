//! Generic runner: proptest-driven sub-checks, exhaustive enumerations, panic capture, replay.
use crate::ev::{Fail, Outcome, PropCtx, Tier};
use proptest::strategy::{BoxedStrategy, Strategy};
use proptest::test_runner::{Config, RngAlgorithm, RngSeed, TestCaseError, TestError, TestRunner};
use serde::de::DeserializeOwned;
use serde::Serialize;
use serde_json::Value;
use std::cell::RefCell;
use std::fmt::Debug;
use std::panic::{catch_unwind, AssertUnwindSafe};
use std::sync::atomic::{AtomicBool, Ordering};
use std::sync::Once;

thread_local! {
    static LAST_PANIC: RefCell<Option<String>> = const { RefCell::new(None) };
    static QUIET: RefCell<bool> = const { RefCell::new(false) };
}

static HOOK: Once = Once::new();

/// Set once a failure that is not a listed known finding has been seen in this process. System-level checks then
/// shorten their deadlines and skip confirmation re-runs, so that shrinking a failing case stays affordable.
pub static FAILED: AtomicBool = AtomicBool::new(false);

pub fn failed_already() -> bool {
    FAILED.load(Ordering::Relaxed)
}

pub fn install_panic_hook() {
    HOOK.call_once(|| {
        let prev = std::panic::take_hook();
        std::panic::set_hook(Box::new(move |info| {
            let loc = info.location().map(|l| format!("{}:{}", l.file(), l.line())).unwrap_or_default();
            let msg = if let Some(s) = info.payload().downcast_ref::<&str>() {
                s.to_string()
            } else if let Some(s) = info.payload().downcast_ref::<String>() {
                s.clone()
            } else {
                "<non-string panic>".to_string()
            };
            let quiet = QUIET.with(|q| *q.borrow());
            let msg = String::from_utf8_lossy(msg.as_bytes()).into_owned();
            LAST_PANIC.with(|p| *p.borrow_mut() = Some(format!("{} at {}", msg, loc)));
            if !quiet {
                prev(info);
            }
        }));
    });
}

/// Run `f`, converting a panic into Err(message with location).
pub fn catch<T>(f: impl FnOnce() -> T) -> Result<T, String> {
    install_panic_hook();
    QUIET.with(|q| *q.borrow_mut() = true);
    LAST_PANIC.with(|p| *p.borrow_mut() = None);
    let r = catch_unwind(AssertUnwindSafe(f));
    QUIET.with(|q| *q.borrow_mut() = false);
    match r {
        Ok(v) => Ok(v),
        Err(_) => Err(LAST_PANIC.with(|p| p.borrow_mut().take()).unwrap_or_else(|| "panic".to_string())),
    }
}

pub fn take_last_panic() -> Option<String> {
    LAST_PANIC.with(|p| p.borrow_mut().take())
}

pub fn threads() -> usize {
    std::env::var("VERIF_THREADS").ok().and_then(|s| s.parse().ok()).unwrap_or_else(|| {
        std::thread::available_parallelism().map(|n| n.get()).unwrap_or(8).min(16)
    })
}

pub trait SubCheck: Sync {
    type Case: Serialize + DeserializeOwned + Debug + Clone + Send + Sync + 'static;
    fn name(&self) -> &'static str;
    fn strategy(&self, tier: Tier) -> BoxedStrategy<Self::Case>;
    fn exec(&self, case: &Self::Case) -> Outcome;
    /// number of parallel workers (system checks may want fewer)
    fn workers(&self) -> usize {
        threads()
    }
    fn max_shrink_iters(&self) -> u32 {
        4096
    }
    /// how often a shrunk failing case is re-executed before it is called non-reproducible (the implementation draws
    /// its own randomness)
    fn confirm_runs(&self) -> u32 {
        40
    }
}

fn seed_bytes(seed: u64, sub: &str, worker: usize) -> [u8; 32] {
    let mut h = blake3::Hasher::new();
    h.update(&seed.to_le_bytes());
    h.update(sub.as_bytes());
    h.update(&(worker as u64).to_le_bytes());
    *h.finalize().as_bytes()
}

/// Like exec_caught, but a harness problem is returned as Err instead of ending the process (fuzz workers skip the input).
fn exec_soft<S: SubCheck>(s: &S, case: &S::Case) -> Result<Outcome, String> {
    match catch(|| s.exec(case)) {
        Ok(o) => Ok(o),
        Err(p) if p.contains("harness:") => Err(p),
        Err(p) => {
            let mut o = Outcome::new();
            o.fail(format!("{}/harness-or-uncaught-panic", s.name()), format!("uncaught panic in exec: {}", p));
            Ok(o)
        }
    }
}

fn exec_caught<S: SubCheck>(s: &S, case: &S::Case) -> Outcome {
    match catch(|| s.exec(case)) {
        Ok(o) => o,
        Err(p) => {
            if p.contains("harness:") {
                // the harness itself could not do its job (no port, no socket, ...): inconclusive, never a violation
                eprintln!("INCONCLUSIVE: {} could not run a case: {}", s.name(), p);
                crate::sys::cluster::kill_all();
                std::process::exit(2);
            }
            let mut o = Outcome::new();
            o.fail(format!("{}/harness-or-uncaught-panic", s.name()), format!("uncaught panic in exec: {}", p));
            o
        }
    }
}

/// Development aid only (never set by run.sh or the manifest commands): VERIF_ONLY=sub1,sub2 runs just those sub-checks.
fn skipped_by_dev_filter(name: &str) -> bool {
    match std::env::var("VERIF_ONLY") {
        Ok(v) if !v.is_empty() => !v.split(',').any(|x| x == name),
        _ => false,
    }
}

/// Run `cases` generated cases of the sub-check, in parallel, with shrinking of the first failure.
pub fn run_sub<S: SubCheck>(ctx: &PropCtx, s: &S, cases: u32) {
    if skipped_by_dev_filter(s.name()) {
        return;
    }
    let workers = s.workers().max(1).min(cases.max(1) as usize);
    let stop = AtomicBool::new(false);
    std::thread::scope(|scope| {
        for w in 0..workers {
            let stop = &stop;
            let n = cases / workers as u32 + if (w as u32) < cases % workers as u32 { 1 } else { 0 };
            scope.spawn(move || {
                if n == 0 {
                    return;
                }
                let strategy = s.strategy(ctx.tier);
                let cfg = Config {
                    cases: n,
                    failure_persistence: None,
                    rng_algorithm: RngAlgorithm::ChaCha,
                    rng_seed: RngSeed::Fixed(0),
                    max_shrink_iters: s.max_shrink_iters(),
                    max_global_rejects: 1_000_000,
                    ..Config::default()
                };
                let rng = proptest::test_runner::TestRng::from_seed(RngAlgorithm::ChaCha, &seed_bytes(ctx.seed, s.name(), w));
                let mut runner = TestRunner::new_with_rng(cfg, rng);
                let failed_here = std::cell::Cell::new(false);
                let first_fail: std::cell::RefCell<Option<(S::Case, Fail)>> = std::cell::RefCell::new(None);
                let res = runner.run(&strategy, |case| {
                    if stop.load(Ordering::Relaxed) && !failed_here.get() {
                        // another worker found a failure: finish quickly
                        return Ok(());
                    }
                    let out = exec_caught(s, &case);
                    if let Some(f) = &out.fail {
                        if let Some(kid) = ctx.known_for(&f.sig) {
                            if !failed_here.get() {
                                ctx.record_excluded(s.name(), &kid);
                            }
                            return Ok(());
                        }
                        if std::env::var("VERIF_DEBUG").is_ok() {
                            eprintln!("[debug] {} fails: {} :: {}", s.name(), f.sig, crate::ev::truncate(&f.msg, 300));
                        }
                        if first_fail.borrow().is_none() {
                            *first_fail.borrow_mut() = Some((case.clone(), f.clone()));
                        }
                        failed_here.set(true);
                        FAILED.store(true, Ordering::Relaxed);
                        stop.store(true, Ordering::Relaxed);
                        return Err(TestCaseError::fail(f.sig.clone()));
                    }
                    if !failed_here.get() {
                        ctx.record(s.name(), || serde_json::to_value(&case).unwrap_or(Value::Null), &out);
                    }
                    Ok(())
                });
                match res {
                    Ok(()) => {}
                    Err(TestError::Fail(_, case)) => {
                        // the implementation draws its own randomness (salts, paddings): a failure that depends on it may
                        // need a few re-executions to show again
                        let mut out = exec_caught(s, &case);
                        for _ in 0..s.confirm_runs() {
                            if out.fail.is_some() {
                                break;
                            }
                            out = exec_caught(s, &case);
                        }
                        match (out.fail, first_fail.into_inner()) {
                            (Some(fail), _) => ctx.violation(s.name(), &serde_json::to_value(&case).unwrap_or(Value::Null), &fail),
                            // the shrunk case does not reproduce: report the case that failed first, unshrunk
                            (None, Some((c0, f0))) => ctx.violation(s.name(), &serde_json::to_value(&c0).unwrap_or(Value::Null), &f0),
                            (None, None) => {
                                let fail = Fail::new(format!("{}/flaky", s.name()), "failure did not reproduce on re-execution of the shrunk case");
                                ctx.violation(s.name(), &serde_json::to_value(&case).unwrap_or(Value::Null), &fail)
                            }
                        }
                    }
                    Err(TestError::Abort(r)) => {
                        eprintln!("[{}] {} generator aborted: {}", ctx.id, s.name(), r);
                        std::process::exit(2);
                    }
                }
            });
        }
    });
}

/// Run an explicit list of cases (exhaustive enumerations, regression corpora) in parallel.
pub fn run_list<S: SubCheck>(ctx: &PropCtx, s: &S, sub_name: &str, cases: Vec<S::Case>) {
    if skipped_by_dev_filter(s.name()) {
        return;
    }
    let workers = s.workers().max(1);
    let chunk = cases.len().div_ceil(workers).max(1);
    let first_fail: std::sync::Mutex<Option<(S::Case, Fail)>> = std::sync::Mutex::new(None);
    std::thread::scope(|scope| {
        for part in cases.chunks(chunk) {
            let first_fail = &first_fail;
            scope.spawn(move || {
                for case in part {
                    if first_fail.lock().unwrap().is_some() {
                        return;
                    }
                    let out = exec_caught(s, case);
                    if let Some(f) = &out.fail {
                        if let Some(kid) = ctx.known_for(&f.sig) {
                            ctx.record_excluded(sub_name, &kid);
                            continue;
                        }
                        FAILED.store(true, Ordering::Relaxed);
                        let mut g = first_fail.lock().unwrap();
                        if g.is_none() {
                            *g = Some((case.clone(), f.clone()));
                        }
                        return;
                    }
                    ctx.record(sub_name, || serde_json::to_value(case).unwrap_or(Value::Null), &out);
                }
            });
        }
    });
    if let Some((case, fail)) = first_fail.into_inner().unwrap() {
        ctx.violation(s.name(), &serde_json::to_value(&case).unwrap_or(Value::Null), &fail);
    }
}

/// Result of running one sub-check case decoded from fuzzer bytes.
pub struct FuzzRun {
    pub out: Outcome,
    /// the decoded case as JSON (only rendered when asked for, or when the case failed)
    pub case: Option<Value>,
}

/// Fuzzer bytes -> case. The bytes are used as the random stream of the sub-check's *own* proptest strategy (proptest's
/// PassThrough generator, made for exactly this), so a coverage-guided fuzzer mutates generator decisions: every case it
/// reaches is one the strategy can produce (sound by construction) and is judged by the sub-check's own oracle.
///
/// Upstream's PassThrough generator pads with zeros once its bytes are used up (rand's unbiased range sampling then loops
/// forever) and halves the remaining data at every lazily initialised union option and flat_map; /verif/vendor/proptest is
/// proptest 1.11.0 with those two behaviours changed (padding = a fixed pseudo-random stream, children share the
/// remaining range). A case is still a pure function of the input bytes.
pub fn passthrough_rng(data: &[u8]) -> proptest::test_runner::TestRng {
    proptest::test_runner::TestRng::from_seed(RngAlgorithm::PassThrough, data)
}

pub fn case_from_bytes<C: Debug>(strategy: &BoxedStrategy<C>, data: &[u8]) -> Option<C> {
    use proptest::strategy::ValueTree;
    let cfg = Config { cases: 1, failure_persistence: None, max_local_rejects: 64, max_global_rejects: 64, ..Config::default() };
    let rng = passthrough_rng(data);
    let mut runner = TestRunner::new_with_rng(cfg, rng);
    strategy.new_tree(&mut runner).ok().map(|t| t.current())
}

/// Object-safe view used by the registry (replay, listing, fuzzing).
pub trait DynSub: Sync {
    fn name(&self) -> &'static str;
    fn replay(&self, case: &Value) -> anyhow::Result<Outcome>;
    /// A closure that decodes fuzzer bytes into a case of this sub-check and executes it (None: bytes do not decode).
    fn byte_fuzzer<'a>(&'a self, tier: Tier) -> Box<dyn Fn(&[u8], bool) -> Option<FuzzRun> + 'a>;
    /// Re-run a failing fuzzer input under proptest (PassThrough random stream = the input), shrink it, report the shrunk
    /// case as a violation. Returns false if the input does not fail here.
    fn shrink_fuzz_input(&self, ctx: &PropCtx, data: &[u8]) -> bool;
}

impl<S: SubCheck> DynSub for S {
    fn name(&self) -> &'static str {
        SubCheck::name(self)
    }
    fn byte_fuzzer<'a>(&'a self, tier: Tier) -> Box<dyn Fn(&[u8], bool) -> Option<FuzzRun> + 'a> {
        let strategy = self.strategy(tier);
        Box::new(move |data: &[u8], want_case: bool| {
            let case = case_from_bytes(&strategy, data)?;
            let out = exec_soft(self, &case).ok()?;
            let case = if want_case || out.fail.is_some() { Some(serde_json::to_value(&case).unwrap_or(Value::Null)) } else { None };
            Some(FuzzRun { out, case })
        })
    }
    fn shrink_fuzz_input(&self, ctx: &PropCtx, data: &[u8]) -> bool {
        let strategy = self.strategy(ctx.tier);
        let cfg = Config { cases: 1, failure_persistence: None, max_shrink_iters: self.max_shrink_iters(), ..Config::default() };
        let rng = passthrough_rng(data);
        let mut runner = TestRunner::new_with_rng(cfg, rng);
        let first: std::cell::RefCell<Option<(S::Case, Fail)>> = std::cell::RefCell::new(None);
        let res = runner.run(&strategy, |case| {
            let out = exec_caught(self, &case);
            match &out.fail {
                Some(f) if ctx.known_for(&f.sig).is_none() => {
                    if first.borrow().is_none() {
                        *first.borrow_mut() = Some((case.clone(), f.clone()));
                    }
                    FAILED.store(true, Ordering::Relaxed);
                    Err(TestCaseError::fail(f.sig.clone()))
                }
                _ => Ok(()),
            }
        });
        match res {
            Err(TestError::Fail(_, case)) => {
                let mut out = exec_caught(self, &case);
                for _ in 0..self.confirm_runs() {
                    if out.fail.is_some() {
                        break;
                    }
                    out = exec_caught(self, &case);
                }
                match (out.fail, first.into_inner()) {
                    (Some(fail), _) => ctx.violation(SubCheck::name(self), &serde_json::to_value(&case).unwrap_or(Value::Null), &fail),
                    (None, Some((c0, f0))) => ctx.violation(SubCheck::name(self), &serde_json::to_value(&c0).unwrap_or(Value::Null), &f0),
                    (None, None) => return false,
                }
                true
            }
            _ => false,
        }
    }
    fn replay(&self, case: &Value) -> anyhow::Result<Outcome> {
        let c: S::Case = serde_json::from_value(case.clone())?;
        let mut out = exec_caught(self, &c);
        for _ in 0..self.confirm_runs().min(20) {
            if out.fail.is_some() {
                break;
            }
            out = exec_caught(self, &c);
        }
        Ok(out)
    }
}

/// Monotone index mapping (keeps shrinking effective): i in 0..=u16::MAX -> 0..len
pub fn idx(i: u16, len: usize) -> usize {
    if len == 0 {
        0
    } else {
        ((i as usize) * len) >> 16
    }
}

pub fn bytes_strategy(max: usize) -> BoxedStrategy<Vec<u8>> {
    proptest::collection::vec(proptest::num::u8::ANY, 0..=max).boxed()
}
