use ovf::ev::{self, Fail, PropCtx, Tier};
use ovf::props;
use serde_json::Value;
use std::path::Path;

fn usage() -> ! {
    eprintln!("usage: ovf check <ID> <quick|thorough> | ovf replay <path> | ovf list");
    std::process::exit(2)
}

fn watchdog(secs: u64) {
    std::thread::spawn(move || {
        std::thread::sleep(std::time::Duration::from_secs(secs));
        eprintln!("INCONCLUSIVE: harness watchdog fired after {} s", secs);
        ovf::sys::cluster::kill_all();
        std::process::exit(2);
    });
}

/// Replays the pinned files under /verif/regress/<id>/ (fixed defects must stay fixed; known findings print
/// their KNOWN-FINDING line while they still reproduce).
fn run_regress(ctx: &PropCtx, prop: &props::Property) {
    let dir = ev::verif_root().join("regress").join(prop.id);
    let mut files: Vec<_> = match std::fs::read_dir(&dir) {
        Ok(rd) => rd.filter_map(|e| e.ok()).map(|e| e.path()).filter(|p| p.extension().map(|x| x == "json").unwrap_or(false)).collect(),
        Err(_) => return,
    };
    files.sort();
    let subs = (prop.subs)();
    for f in files {
        let v = match ev::read_replay(&f) {
            Ok(v) => v,
            Err(e) => {
                eprintln!("regress file {} unreadable: {}", f.display(), e);
                std::process::exit(2);
            }
        };
        let sub = v["sub"].as_str().unwrap_or("");
        let expect = v["expect"].as_str().unwrap_or("pass");
        let Some(s) = subs.iter().find(|s| s.name() == sub) else {
            eprintln!("regress file {} names unknown sub-check {}", f.display(), sub);
            std::process::exit(2);
        };
        let out = match s.replay(&v["case"]) {
            Ok(o) => o,
            Err(e) => {
                eprintln!("regress file {} does not deserialize: {}", f.display(), e);
                std::process::exit(2);
            }
        };
        let name = format!("regress/{}", sub);
        if let Some(kid) = expect.strip_prefix("known:") {
            let entry = ctx.known_entries().iter().find(|k| k.id == kid && k.status == "known");
            match (&out.fail, entry) {
                (Some(fl), Some(k)) if fl.sig == k.sig => {
                    ctx.print_known(kid, &k.what);
                    ctx.record_excluded(&name, kid);
                }
                (Some(fl), _) => ctx.violation(sub, &v["case"], fl),
                (None, _) => println!("note: known finding {} no longer reproduces on its witness {}", kid, f.display()),
            }
        } else {
            match &out.fail {
                Some(fl) => ctx.violation(sub, &v["case"], fl),
                None => ctx.record(&name, || v["case"].clone(), &out),
            }
        }
    }
}

fn main() {
    let args: Vec<String> = std::env::args().collect();
    if args.len() < 2 {
        usage();
    }
    // anyhow captures a backtrace per error when these are on: slow and noisy
    std::env::set_var("RUST_BACKTRACE", "0");
    std::env::set_var("RUST_LIB_BACKTRACE", "0");
    ovf::rt::install_panic_hook();
    match args[1].as_str() {
        "list" => {
            for p in props::registry() {
                let subs: Vec<_> = (p.subs)().iter().map(|s| s.name()).collect();
                println!("{} {:?}", p.id, subs);
            }
        }
        "from-bytes" => {
            // ovf from-bytes <ID>/<sub> <file>...   decode fuzzer inputs with the PassThrough bridge, run them, print the case
            let (id, sub) = args[2].split_once('/').unwrap_or_else(|| usage());
            let reg = props::registry();
            let prop = reg.iter().find(|p| p.id == id).unwrap_or_else(|| usage());
            let subs = (prop.subs)();
            let s = subs.iter().find(|s| s.name() == sub).unwrap_or_else(|| usage());
            ovf::refimpl::self_test();
            let fz = s.byte_fuzzer(Tier::Thorough);
            for f in &args[3..] {
                let data = std::fs::read(f).unwrap_or_default();
                let t0 = std::time::Instant::now();
                match fz(&data, true) {
                    None => println!("{}: does not decode ({:?})", f, t0.elapsed()),
                    Some(r) => println!("{}: {:?} fail={:?} nontrivial={:?} case={}", f, t0.elapsed(), r.out.fail.map(|f| f.sig), r.out.nontrivial, ev::truncate(&r.case.map(|c| c.to_string()).unwrap_or_default(), 300)),
                }
            }
        }
        "c06-entries" => {
            if args.len() < 3 {
                usage();
            }
            println!("{}", ovf::props::c06::entries_child(&args[2]));
        }
        "emit-randomness" => {
            for l in ovf::props::c12::emit_randomness() {
                println!("{}", l);
            }
        }
        "check" => {
            if args.len() < 4 {
                usage();
            }
            let tier = match args[3].as_str() {
                "quick" => Tier::Quick,
                "thorough" => Tier::Thorough,
                _ => usage(),
            };
            let seed: u64 = std::env::var("VERIF_SEED").ok().and_then(|s| s.parse::<i64>().ok()).map(|v| v as u64).unwrap_or(0);
            let reg = props::registry();
            let Some(prop) = reg.iter().find(|p| p.id == args[2]) else {
                eprintln!("unknown property {}", args[2]);
                std::process::exit(2);
            };
            watchdog(if tier == Tier::Quick { 1500 } else { 4 * 3600 });
            ovf::refimpl::self_test();
            let mut ctx = PropCtx::new(prop.id, tier, seed);
            run_regress(&ctx, prop);
            (prop.run)(&mut ctx);
            // coverage-guided tier: corpus replay in every run, libFuzzer campaigns in the thorough tier
            ovf::fz::campaign(&ctx, &(prop.subs)(), &props::fuzz_plans(prop.id));
            let rc = ctx.finish();
            if rc == 0 && ovf::fz::INCONCLUSIVE.load(std::sync::atomic::Ordering::Relaxed) {
                // a fuzz campaign timed out / ran out of memory / could not run: not a violation, not a pass
                std::process::exit(2);
            }
            std::process::exit(rc);
        }
        "replay" => {
            if args.len() < 3 {
                usage();
            }
            let v: Value = match ev::read_replay(Path::new(&args[2])) {
                Ok(v) => v,
                Err(e) => {
                    eprintln!("cannot read {}: {}", args[2], e);
                    std::process::exit(2);
                }
            };
            let pid = v["property"].as_str().unwrap_or("");
            let sub = v["sub"].as_str().unwrap_or("");
            let reg = props::registry();
            let Some(prop) = reg.iter().find(|p| p.id == pid) else {
                eprintln!("unknown property {}", pid);
                std::process::exit(2);
            };
            ovf::refimpl::self_test();
            let subs = (prop.subs)();
            if let Some(hex) = v["case"]["fuzz_input_hex"].as_str() {
                // a raw fuzzer input (kept when the failure shows only in the sanitizer build): run it through the bridge here
                let data = ev::unhex(hex);
                let target = v["case"]["target"].as_str().unwrap_or("");
                let fail = if target == "raw" {
                    ovf::props::c07::raw_fuzz_entry(&data)
                } else {
                    subs.iter().find(|s| s.name() == target).and_then(|s| s.byte_fuzzer(Tier::Thorough)(&data, false)).and_then(|r| r.out.fail)
                };
                match fail {
                    Some(Fail { sig, msg }) => {
                        println!("VIOLATION property={} replay={}", pid, args[2]);
                        println!("  sub={} sig={} msg={}", sub, sig, ev::truncate(&msg, 4000));
                        std::process::exit(1);
                    }
                    None => {
                        println!("replay passes in the release harness: property={} sub={} (the input was kept because the libFuzzer build failed on it: run target/fuzz/x86_64-unknown-linux-gnu/release/{} on the bytes)", pid, sub, if target == "raw" { "fz_raw" } else { "fz_sub" });
                        std::process::exit(0);
                    }
                }
            }
            let Some(s) = subs.iter().find(|s| s.name() == sub) else {
                eprintln!("unknown sub-check {}", sub);
                std::process::exit(2);
            };
            match s.replay(&v["case"]) {
                Ok(out) => match out.fail {
                    Some(Fail { sig, msg }) => {
                        println!("VIOLATION property={} replay={}", pid, args[2]);
                        println!("  sub={} sig={} msg={}", sub, sig, ev::truncate(&msg, 4000));
                        std::process::exit(1);
                    }
                    None => {
                        println!("replay passes: property={} sub={}", pid, sub);
                    }
                },
                Err(e) => {
                    eprintln!("case does not deserialize: {}", e);
                    std::process::exit(2);
                }
            }
        }
        _ => usage(),
    }
}
