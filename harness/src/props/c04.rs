//! C04 – Decoding is independent of how the byte stream is segmented, and never stalls.
use crate::adapters::{run_framed, run_ws, Collected, WsRole};
use crate::drive::{cut, flow_of, Flow};
use crate::ev::{Outcome, PropCtx, Tier};
use crate::gen::{self, CredGen, Det, T0};
use crate::props::c03::{brief_flow, family, first_diff};
use crate::real::{self, to_address, ClientCtx, Cred, InboundIn, Item, Proto, ServerCtx};
use crate::refimpl::{vmess, Addr};
use crate::refside::{self, Frames, ReqOpts, RespOpts};
use crate::rt::{self, DynSub, SubCheck};
use bytes::BytesMut;
use proptest::prelude::*;
use proptest::strategy::BoxedStrategy;
use serde::{Deserialize, Serialize};
use tokio_util::codec::Encoder;

#[derive(Clone, Copy, Debug, PartialEq, Eq, Serialize, Deserialize)]
pub enum Dir {
    /// server-side decoder of a reference-built request
    Request,
    /// client-side decoder of a reference-built response
    Response,
}

#[derive(Clone, Copy, Debug, PartialEq, Eq, Serialize, Deserialize)]
pub enum Adapter {
    Framed,
    Ws,
}

#[derive(Clone, Debug, Serialize, Deserialize)]
pub enum CutSpec {
    /// one cut at a position mapped monotonically into 1..n
    Single(u16),
    Multi(Vec<u16>),
    /// every byte its own segment (only applied to the first `limit` bytes, the rest arrives in one piece)
    Bytewise(u16),
    /// cuts at (boundary index, delta) around authenticated-unit / frame boundaries
    Boundary(Vec<(u16, i8)>),
    /// exact offsets (used by the exhaustive enumerations)
    At(Vec<u32>),
    None,
}

#[derive(Clone, Debug, Serialize, Deserialize)]
pub struct CutCase {
    pub cred: Cred,
    pub addr: Addr,
    pub frames: Vec<u32>,
    pub seed: u64,
    pub vmess_mask: u8,
    pub hdr_pad: u8,
    pub ss22_pad: u16,
    pub first_in_header: bool,
    pub dir: Dir,
    pub adapter: Adapter,
    pub cuts: CutSpec,
    /// how many of the segments are delivered before the transport goes quiet (mapped monotonically; 65535 = all)
    pub deliver: u16,
    pub eof: bool,
}

fn cutspec_strategy() -> BoxedStrategy<CutSpec> {
    prop_oneof![
        4 => any::<u16>().prop_map(CutSpec::Single),
        4 => proptest::collection::vec(any::<u16>(), 2..8).prop_map(CutSpec::Multi),
        1 => (16u16..400).prop_map(CutSpec::Bytewise),
        5 => proptest::collection::vec((any::<u16>(), -2i8..=2), 1..4).prop_map(CutSpec::Boundary),
        1 => Just(CutSpec::None),
    ]
    .boxed()
}

fn frame_lens() -> BoxedStrategy<Vec<u32>> {
    let one = prop_oneof![5 => 1u32..80, 3 => 80u32..2500, 1 => proptest::sample::select(vec![1u32, 2, 16, 17, 2047, 2048, 2049, 8191, 8192, 8193, 16383, 16384]), 1 => 2500u32..20000];
    proptest::collection::vec(one, 1..6).boxed()
}

pub fn cut_case_strategy(protos: Vec<Proto>) -> BoxedStrategy<CutCase> {
    (
        proptest::sample::select(protos).prop_flat_map(gen::cred_for),
        gen::addr_strategy(),
        frame_lens(),
        any::<u64>(),
        (proptest::sample::select(vmess::valid_masks()), 0u8..16, prop_oneof![Just(0u16), 1u16..200], proptest::bool::weighted(0.8)),
        prop_oneof![Just(Dir::Request), Just(Dir::Response)],
        prop_oneof![3 => Just(Adapter::Framed), 2 => Just(Adapter::Ws)],
        cutspec_strategy(),
        prop_oneof![3 => Just(65535u16), 2 => any::<u16>()],
        proptest::bool::weighted(0.3),
    )
        .prop_map(|(CredGen { cred, .. }, addr, frames, seed, (vmess_mask, hdr_pad, ss22_pad, first_in_header), dir, adapter, cuts, deliver, eof)| CutCase {
            cred,
            addr,
            frames,
            seed,
            vmess_mask,
            hdr_pad,
            ss22_pad,
            first_in_header,
            dir,
            adapter,
            cuts,
            deliver,
            eof,
        })
        .boxed()
}

/// Bytes that Shadowsocks 2022 itself requires in the first read (salt + identity header + fixed-length header).
pub fn exempt_prefix(cred: &Cred, f: &Frames) -> usize {
    match cred.proto {
        Proto::Ss22(_) => f.units.iter().find(|u| u.kind == "fixed").map(|u| u.end).unwrap_or(0),
        _ => 0,
    }
}

pub fn boundaries(f: &Frames) -> Vec<usize> {
    let mut b: Vec<usize> = vec![f.header_end];
    for u in &f.units {
        b.push(u.start);
        b.push(u.end);
        b.push(u.end.saturating_sub(16)); // start of the tag
    }
    for (e, _) in &f.frame_ends {
        b.push(*e);
    }
    for (a, z) in &f.unauth {
        b.push(*a);
        b.push(*z);
    }
    b.sort();
    b.dedup();
    b
}

pub fn concretize_cuts(spec: &CutSpec, f: &Frames, exempt: usize) -> Vec<usize> {
    let n = f.wire.len();
    let mut cuts: Vec<usize> = match spec {
        CutSpec::Single(p) => vec![1 + rt::idx(*p, n.saturating_sub(1))],
        CutSpec::Multi(ps) => ps.iter().map(|p| 1 + rt::idx(*p, n.saturating_sub(1))).collect(),
        CutSpec::Bytewise(limit) => (1..n.min(*limit as usize + exempt)).collect(),
        CutSpec::Boundary(bs) => {
            let b = boundaries(f);
            bs.iter().map(|(i, d)| (b[rt::idx(*i, b.len())] as i64 + *d as i64).max(0) as usize).collect()
        }
        CutSpec::At(v) => v.iter().map(|x| *x as usize).collect(),
        CutSpec::None => vec![],
    };
    cuts.retain(|c| *c >= exempt.max(1) && *c < n);
    cuts.sort();
    cuts.dedup();
    cuts
}

/// What must have been delivered once the first `l` wire bytes have arrived.
pub fn expected_after(cred: &Cred, f: &Frames, payload: &[u8], l: usize) -> (bool, usize) {
    // returns (target known / flow opened, payload bytes deliverable)
    match cred.proto {
        Proto::Trojan => {
            if l >= f.header_end {
                (true, l - f.header_end)
            } else {
                (false, 0)
            }
        }
        _ => {
            let avail = f.frame_ends.iter().filter(|(e, _)| *e <= l).map(|(_, c)| *c).max().unwrap_or(0);
            let _ = payload;
            (l >= f.header_end, avail)
        }
    }
}

pub struct Built {
    pub frames: Frames,
    pub payload: Vec<u8>,
    /// Some(codec) for Dir::Response: the real client codec whose session the response answers
    pub client: Option<real::ClientTcp>,
}

pub fn build_stream(c: &CutCase, out: &mut Outcome, sub: &str) -> Option<Built> {
    let mut d = Det::new(c.seed, "c04");
    let chunks = gen::writes_from_lens(c.seed, &c.frames);
    let payload = chunks.concat();
    match c.dir {
        Dir::Request => {
            let mut o = ReqOpts::new(T0);
            o.vmess_opt = c.vmess_mask;
            o.vmess_hdr_pad = c.hdr_pad as usize;
            o.ss22_pad = c.ss22_pad as usize;
            o.first_in_header = c.first_in_header;
            // classic Shadowsocks: two cases in three spread the target address over the first two chunks
            o.legacy_addr_split = if c.hdr_pad % 3 == 0 { 0 } else { 1 + (c.hdr_pad as usize + c.ss22_pad as usize) % 6 };
            match refside::ref_client_request(&c.cred, &c.addr, &chunks, &o, &mut d) {
                Ok(frames) => Some(Built { frames, payload, client: None }),
                Err(e) => {
                    out.fail(format!("{}/harness/reference-encoder-failed", sub), e);
                    None
                }
            }
        }
        Dir::Response => {
            let address = to_address(&c.addr)?;
            let cctx = ClientCtx::new(&c.cred).ok()?;
            let mut ccodec = cctx.codec(&address).ok()?;
            let mut first = BytesMut::new();
            if !matches!(rt::catch(|| ccodec.encode(BytesMut::from(&b"x"[..]), &mut first)), Ok(Ok(()))) {
                return None; // C03 reports encoder problems
            }
            let req = refside::ref_server_decode(&c.cred, &first, T0).ok()?;
            match refside::ref_server_response(&c.cred, &req.session, &chunks, &RespOpts::new(T0), &mut d) {
                Ok(frames) => Some(Built { frames, payload, client: Some(ccodec) }),
                Err(e) => {
                    out.fail(format!("{}/harness/reference-encoder-failed", sub), e);
                    None
                }
            }
        }
    }
}

fn cut_class(f: &Frames, cuts: &[usize]) -> (Vec<String>, bool) {
    // in which field does each cut fall; is any cut strictly inside a frame?
    let mut fields = vec![];
    let mut inside = false;
    let ends: Vec<usize> = f.frame_ends.iter().map(|(e, _)| *e).collect();
    for c in cuts {
        let on_frame_end = ends.contains(c) || *c == f.header_end;
        if !on_frame_end {
            inside = true;
        }
        let fld = if *c < f.header_end {
            "header".to_string()
        } else if let Some(u) = f.units.iter().find(|u| u.start < *c && *c < u.end) {
            if *c > u.end - 16 {
                format!("{}-tag", u.kind)
            } else {
                u.kind.to_string()
            }
        } else if f.unauth.iter().any(|(a, z)| a < c && c < z) {
            "padding".to_string()
        } else if on_frame_end {
            "frame-end".to_string()
        } else {
            "unit-boundary".to_string()
        };
        fields.push(fld);
    }
    fields.sort();
    fields.dedup();
    (fields, inside)
}

fn evaluate<T>(
    c: &CutCase,
    sub: &str,
    b: &Built,
    delivered: usize,
    col: &Collected<T>,
    to_bytes: impl Fn(&[&T]) -> Result<(Option<Addr>, Vec<u8>, bool), String>,
    out: &mut Outcome,
) {
    let fam = family(c.cred.proto);
    let who = if c.dir == Dir::Request { "server" } else { "client" };
    let ad = if c.adapter == Adapter::Framed { "framed" } else { "ws" };
    if let Some(p) = &col.panic {
        out.fail(format!("{}/{}/{}/{}-decoder-panics-on-segmented-valid-stream", sub, fam, ad, who), p.clone());
        return;
    }
    if let Some(e) = col.first_err() {
        // EOF in the middle of a frame is allowed to be an error
        let complete = delivered == b.frames.wire.len();
        if !(c.eof && !complete) {
            out.fail(format!("{}/{}/{}/{}-decoder-rejects-valid-stream", sub, fam, ad, who), format!("error after {} of {} bytes: {}", delivered, b.frames.wire.len(), e));
            return;
        }
    }
    let oks: Vec<&T> = col.oks().collect();
    let (opened, want_n) = expected_after(&c.cred, &b.frames, &b.payload, delivered);
    match to_bytes(&oks) {
        Err(kind) => {
            out.fail(format!("{}/{}/{}/{}", sub, fam, ad, kind), format!("after {} of {} bytes delivered", delivered, b.frames.wire.len()));
        }
        Ok((addr, got, flow_open)) => {
            let want = &b.payload[..want_n];
            if got != *want {
                let what = if got.len() < want.len() && want.starts_with(&got) { "stall-complete-frame-not-delivered" } else { "delivered-bytes-differ" };
                out.fail(
                    format!("{}/{}/{}/{}-{}", sub, fam, ad, who, what),
                    format!("delivered {} of {} wire bytes in the chosen segmentation; decoder released {} payload bytes, {} are complete (first difference at {:?})", delivered, b.frames.wire.len(), got.len(), want.len(), first_diff(&got, want)),
                );
                return;
            }
            if c.dir == Dir::Request {
                if let Some(a) = &addr {
                    if *a != c.addr {
                        out.fail(format!("{}/{}/{}/server-address-differs", sub, fam, ad), format!("{:?} vs {:?}", a, c.addr));
                        return;
                    }
                }
                // the flow must be opened as soon as the target is known and (for VMess) a first chunk is complete
                let must_open = match c.cred.proto {
                    Proto::Vmess(_) => want_n > 0,
                    _ => opened,
                };
                if must_open && !flow_open {
                    out.fail(format!("{}/{}/{}/server-stall-target-not-delivered", sub, fam, ad), format!("after {} of {} bytes the request header and first frame are complete but no connect item was produced", delivered, b.frames.wire.len()));
                }
            }
        }
    }
}

pub fn exec_cut_case(sub: &str, c: &CutCase) -> Outcome {
    let mut out = Outcome::new();
    real::set_clock(Some(T0));
    out.label(format!("proto:{}", c.cred.proto.short()));
    out.label(format!("dir:{:?}", c.dir));
    out.label(format!("adapter:{:?}", c.adapter));
    let Some(b) = build_stream(c, &mut out, sub) else {
        return out;
    };
    let exempt = exempt_prefix(&c.cred, &b.frames);
    let cuts = concretize_cuts(&c.cuts, &b.frames, exempt);
    let mut segs = cut(&b.frames.wire, &cuts);
    let nseg = segs.len();
    let keep = if c.deliver == 65535 { nseg } else { 1 + rt::idx(c.deliver, nseg) };
    segs.truncate(keep.min(nseg));
    let delivered: usize = segs.iter().map(|s| s.len()).sum();
    let (fields, inside) = cut_class(&b.frames, &cuts);
    for f in &fields {
        out.label(format!("cut-in:{}", f));
    }
    if delivered < b.frames.wire.len() {
        out.label("partial-delivery");
    }
    let multi_frame_segment = {
        let ends: Vec<usize> = b.frames.frame_ends.iter().map(|(e, _)| *e).collect();
        let mut last = 0;
        let mut m = false;
        for s in &segs {
            let z = last + s.len();
            if ends.iter().filter(|e| **e > last && **e <= z).count() >= 2 {
                m = true;
            }
            last = z;
        }
        m
    };
    if multi_frame_segment {
        out.label("several-frames-in-one-segment");
    }
    if inside || multi_frame_segment {
        out.nontrivial(format!("{}|{:?}|{:?}|{:#x}|{:?}|{}|{}", c.cred.proto.short(), c.dir, c.adapter, c.vmess_mask, fields, multi_frame_segment, delivered < b.frames.wire.len()));
    }
    let eof = c.eof;
    match c.dir {
        Dir::Request => {
            let sctx = match ServerCtx::new(&c.cred) {
                Ok(x) => x,
                Err(_) => return out,
            };
            let codec = sctx.codec().expect("server codec");
            let col: Collected<InboundIn> = match c.adapter {
                Adapter::Framed => run_framed(codec, segs, eof),
                Adapter::Ws => run_ws(codec, segs, WsRole::Server, eof),
            };
            evaluate(c, sub, &b, delivered, &col, |oks| {
                let items: Vec<Item> = oks.iter().map(|i| Item::from_inbound(i).0).collect();
                match flow_of(&items) {
                    Flow::Idle => Ok((None, vec![], false)),
                    Flow::Tcp { addr, bytes } => Ok((Some(addr), bytes, true)),
                    Flow::Rejected => Err("server-first-item-is-not-connect".to_string()),
                    other => Err(format!("server-flow-confused:{}", brief_flow(&other))),
                }
            }, &mut out);
        }
        Dir::Response => {
            let codec = b.client.as_ref().map(|_| ()).and_then(|_| None::<()>);
            let _ = codec;
            let Built { frames, payload, client } = b;
            let b2 = Built { frames, payload, client: None };
            let codec = client.expect("client codec");
            let col: Collected<BytesMut> = match c.adapter {
                Adapter::Framed => run_framed(codec, segs, eof),
                Adapter::Ws => run_ws(codec, segs, WsRole::Client, eof),
            };
            evaluate(c, sub, &b2, delivered, &col, |oks| Ok((None, oks.iter().flat_map(|b| b.to_vec()).collect(), true)), &mut out);
        }
    }
    out
}

pub struct SegCuts;

impl SubCheck for SegCuts {
    type Case = CutCase;
    fn name(&self) -> &'static str {
        "seg-cuts"
    }
    fn strategy(&self, _tier: Tier) -> BoxedStrategy<CutCase> {
        cut_case_strategy(Proto::all())
    }
    fn exec(&self, c: &CutCase) -> Outcome {
        exec_cut_case("seg-cuts", c)
    }
}

/// Exhaustive single cuts (and, thorough, all cut pairs around boundaries) over one short stream per
/// (protocol, cipher, VMess mask, direction, adapter).
pub struct SegExhaustive;

impl SubCheck for SegExhaustive {
    type Case = CutCase;
    fn name(&self) -> &'static str {
        "seg-exhaustive"
    }
    fn strategy(&self, _tier: Tier) -> BoxedStrategy<CutCase> {
        cut_case_strategy(Proto::all())
    }
    fn exec(&self, c: &CutCase) -> Outcome {
        exec_cut_case("seg-exhaustive", c)
    }
}

fn base_cases(seed: u64) -> Vec<CutCase> {
    let mut v = vec![];
    for proto in Proto::all() {
        let masks: Vec<u8> = if matches!(proto, Proto::Vmess(_)) { vmess::valid_masks().into_iter().filter(|m| m & 2 == 0).collect() } else { vec![0x1d] };
        for mask in masks {
            for n_users in [0usize, 2] {
                if n_users > 0 && !matches!(proto, Proto::Ss22(c) if c.is_aes()) {
                    continue;
                }
                for dir in [Dir::Request, Dir::Response] {
                    for adapter in [Adapter::Framed, Adapter::Ws] {
                        let cred = gen::make_cred(proto, "correct horse battery", seed ^ 0xabc, n_users, 1);
                        v.push(CutCase {
                            cred,
                            addr: Addr::Name(b"example.com".to_vec(), 443),
                            frames: vec![23, 40],
                            seed,
                            vmess_mask: mask,
                            hdr_pad: 3,
                            ss22_pad: 5,
                            first_in_header: true,
                            dir,
                            adapter,
                            cuts: CutSpec::None,
                            deliver: 65535,
                            eof: false,
                        });
                    }
                }
            }
        }
    }
    v
}

fn exhaustive_cases(seed: u64, tier: Tier) -> Vec<CutCase> {
    let mut all = vec![];
    for base in base_cases(seed) {
        let mut tmp = Outcome::new();
        real::set_clock(Some(T0));
        let Some(b) = build_stream(&base, &mut tmp, "seg-exhaustive") else {
            continue;
        };
        let n = b.frames.wire.len();
        let exempt = exempt_prefix(&base.cred, &b.frames).max(1);
        for p in exempt..n {
            let mut c = base.clone();
            c.cuts = CutSpec::At(vec![p as u32]);
            all.push(c);
            // the same cut with the transport going quiet right after the first segment
            let mut c2 = base.clone();
            c2.cuts = CutSpec::At(vec![p as u32]);
            c2.deliver = 0;
            all.push(c2);
        }
        if tier == Tier::Thorough {
            let bs = boundaries(&b.frames);
            let mut pts: Vec<usize> = vec![];
            for x in &bs {
                for d in [-1i64, 0, 1] {
                    let p = *x as i64 + d;
                    if p >= exempt as i64 && (p as usize) < n {
                        pts.push(p as usize);
                    }
                }
            }
            pts.sort();
            pts.dedup();
            for i in 0..pts.len() {
                for j in i + 1..pts.len() {
                    let mut c = base.clone();
                    c.cuts = CutSpec::At(vec![pts[i] as u32, pts[j] as u32]);
                    all.push(c);
                }
            }
        }
    }
    all
}

pub fn subs() -> Vec<Box<dyn DynSub>> {
    vec![Box::new(SegCuts), Box::new(SegExhaustive), Box::new(crate::props::c04_dgram::DgramCuts)]
}

pub fn run(ctx: &mut PropCtx) {
    ctx.rule = "valid wire streams are built by the *reference* encoder (every protocol, cipher, direction, VMess mask, 1..5 frames) and \
                delivered through the real tokio_util FramedRead / octo_squirrel WebSocketFramed around the real decoder in a generated \
                segmentation (single cuts, multi cuts, byte-wise, cuts at +-2 of every unit/tag/frame boundary), optionally only a \
                prefix of the segments, then the transport goes quiet (or EOF). On a paused single-thread runtime the items collected \
                at quiescence must equal exactly the payload of all frames that are complete in the delivered bytes (no error, no \
                missing complete frame = stall, first server item carries the target). Shadowsocks-2022 salt+identity+fixed header are \
                kept in the first segment (the exemption the property states). Non-trivial = a cut strictly inside a frame or >= 2 \
                frames in one segment; distinct by (decoder, direction, adapter, mask, fields cut, frames-per-segment, partial delivery). \
                seg-exhaustive enumerates every single cut position of one short stream per (protocol, cipher, mask, user table, \
                direction, adapter), each also with the transport going quiet right after the first segment."
        .into();
    ctx.assumptions = vec![
        "streams come from the reference encoder (C03 ties it to the implementation's encoder)".into(),
        "quiescence = paused tokio clock auto-advance: a 1 h timer fires only when every task is parked".into(),
    ];
    let t = ctx.tier;
    rt::run_sub(ctx, &SegCuts, t.pick(100_000, 2_000_000));
    let cases = exhaustive_cases(ctx.seed, t);
    rt::run_list(ctx, &SegExhaustive, "seg-exhaustive", cases);
    ctx.mark_exhaustive("seg-exhaustive", "all single cut positions of one short stream per decoder configuration (thorough: plus all cut pairs at +-1 of unit boundaries)");
    rt::run_sub(ctx, &crate::props::c04_dgram::DgramCuts, t.pick(40_000, 600_000));
}
