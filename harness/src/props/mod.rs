use crate::ev::PropCtx;
use crate::rt::DynSub;

pub mod c01;
pub mod c02;
pub mod c03;
pub mod c04;
pub mod c04_dgram;
pub mod c05;
pub mod c06;
pub mod c06_sys;
pub mod c07;
pub mod c08;
pub mod c09;
pub mod c10;
pub mod c11;
pub mod c11_sys;
pub mod c12;
pub mod c13;
pub mod c14;
pub mod c15;
pub mod c16;

pub struct Property {
    pub id: &'static str,
    pub run: fn(&mut PropCtx),
    pub subs: fn() -> Vec<Box<dyn DynSub>>,
}

pub fn registry() -> Vec<Property> {
    vec![
        Property { id: "C01", run: c01::run, subs: c01::subs },
        Property { id: "C02", run: c02::run, subs: c02::subs },
        Property { id: "C03", run: c03::run, subs: c03::subs },
        Property { id: "C04", run: c04::run, subs: c04::subs },
        Property { id: "C05", run: c05::run, subs: c05::subs },
        Property { id: "C06", run: c06::run, subs: c06::subs },
        Property { id: "C07", run: c07::run, subs: c07::subs },
        Property { id: "C08", run: c08::run, subs: c08::subs },
        Property { id: "C09", run: c09::run, subs: c09::subs },
        Property { id: "C10", run: c10::run, subs: c10::subs },
        Property { id: "C11", run: c11::run, subs: c11::subs },
        Property { id: "C12", run: c12::run, subs: c12::subs },
        Property { id: "C13", run: c13::run, subs: c13::subs },
        Property { id: "C14", run: c14::run, subs: c14::subs },
        Property { id: "C15", run: c15::run, subs: c15::subs },
        Property { id: "C16", run: c16::run, subs: c16::subs },
    ]
}
