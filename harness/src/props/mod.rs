use crate::ev::PropCtx;
use crate::rt::DynSub;

pub mod c01;
pub mod c02;
pub mod c03;
pub mod c04;
pub mod c04_dgram;
pub mod c05;
pub mod c06;
pub mod c06_sys;
pub mod c07;
pub mod c08;
pub mod c09;
pub mod c10;
pub mod c10_sys;
pub mod c11;
pub mod c11_sys;
pub mod c12;
pub mod c13;
pub mod c14;
pub mod c15;
pub mod c16;

pub struct Property {
    pub id: &'static str,
    pub run: fn(&mut PropCtx),
    pub subs: fn() -> Vec<Box<dyn DynSub>>,
}

pub fn registry() -> Vec<Property> {
    vec![
        Property { id: "C01", run: c01::run, subs: c01::subs },
        Property { id: "C02", run: c02::run, subs: c02::subs },
        Property { id: "C03", run: c03::run, subs: c03::subs },
        Property { id: "C04", run: c04::run, subs: c04::subs },
        Property { id: "C05", run: c05::run, subs: c05::subs },
        Property { id: "C06", run: c06::run, subs: c06::subs },
        Property { id: "C07", run: c07::run, subs: c07::subs },
        Property { id: "C08", run: c08::run, subs: c08::subs },
        Property { id: "C09", run: c09::run, subs: c09::subs },
        Property { id: "C10", run: c10::run, subs: c10::subs },
        Property { id: "C11", run: c11::run, subs: c11::subs },
        Property { id: "C12", run: c12::run, subs: c12::subs },
        Property { id: "C13", run: c13::run, subs: c13::subs },
        Property { id: "C14", run: c14::run, subs: c14::subs },
        Property { id: "C15", run: c15::run, subs: c15::subs },
        Property { id: "C16", run: c16::run, subs: c16::subs },
    ]
}

/// Targets of the coverage-guided tier per property: in-process, deterministic sub-checks only (the system checks spawn
/// processes the fuzzer cannot see into). `runs` = libFuzzer executions in the thorough tier.
pub fn fuzz_plans(id: &str) -> Vec<crate::fz::Plan> {
    use crate::fz::Plan;
    let p = |sub: &'static str, runs: u64| Plan { sub, runs };
    match id {
        "C02" => vec![p("dgram-cuts", 200_000)],
        "C03" => vec![p("tcp-impl-to-ref", 200_000), p("tcp-ref-to-impl", 200_000), p("udp-ss", 200_000), p("udp-in-stream", 200_000)],
        "C04" => vec![p("seg-cuts", 200_000), p("dgram-cuts", 200_000)],
        "C05" => vec![p("stream-tamper", 200_000), p("reflect-splice", 200_000), p("dgram-tamper", 300_000)],
        "C06" => vec![p("no-credential", 400_000), p("user-separation", 200_000), p("raw", 1_000_000)],
        "C07" => vec![p("raw-bytes", 600_000), p("sealed-malformed", 600_000), p("http-target-strings", 300_000), p("raw", 3_000_000)],
        "C10" => vec![p("handshake-fields", 300_000), p("replay-history", 200_000)],
        "C11" => vec![p("filter-model", 400_000), p("client-reply-sessions", 200_000)],
        "C12" => vec![p("tcp-history", 100_000), p("udp-history", 100_000)],
        "C13" => vec![p("http-target", 600_000)],
        "C14" => vec![p("codec-roundtrip", 400_000), p("accepted-address-transmission", 300_000)],
        _ => vec![],
    }
}
