//! C10 – Stale, replayed, mis-typed or unbound handshakes are rejected.
use crate::drive::{encode_all, feed, feed_server, flow_of, Flow};
use crate::ev::{Outcome, PropCtx, Tier};
use crate::gen::{self, Det, T0};
use crate::real::{self, to_address, ClientCtx, Proto, ServerCtx};
use crate::refimpl::ss2022::{self, UdpClientPacket, UdpServerPacket, C22};
use crate::refimpl::Addr;
use crate::refside::{self, ReqOpts, RespOpts, SessionInfo};
use crate::rt::{self, DynSub, SubCheck};
use bytes::BytesMut;
use proptest::prelude::*;
use proptest::strategy::BoxedStrategy;
use serde::{Deserialize, Serialize};
use std::collections::HashSet;

#[derive(Clone, Debug, Serialize, Deserialize)]
pub enum Field {
    /// 2022 TCP request to the server: (ts delta, type byte)
    S22Request(i64, u8),
    /// 2022 TCP response to the client: (ts delta, type byte, echo kind 0 own / 1 one-bit-off / 2 other / 3 zero)
    S22Response(i64, u8, u8),
    /// 2022 UDP client packet to the server
    S22UdpToServer(i64, u8),
    /// 2022 UDP server packet to the client
    S22UdpToClient(i64, u8),
    /// VMess request: auth-id timestamp delta
    VmessAuthId(i64),
    /// VMess response: (V xor, derive keys from a different request key/IV)
    VmessResponse(u8, bool),
    /// VMess request whose bytes arrive in two reads while the clock moves: (cut position, clock at the first read relative
    /// to the auth-id timestamp, clock at the second read relative to it). The token is honoured - the flow is opened - at the
    /// second read, so that is the moment at which it must still be within 120 s.
    VmessAuthIdSplit(u16, i64, i64),
    /// 2022 TCP request (timestamp = T0) whose bytes arrive in two reads while the clock moves: (cut position behind the
    /// fixed header, clock at the first read relative to the timestamp, clock at the second read). The request is accepted -
    /// the server learns the target and dials - at the read that completes the variable-length header, so that is the
    /// moment at which the timestamp must still be within 30 s.
    #[serde(alias = "S22RequestSplit")]
    S22RequestSplit(u16, i64, i64),
    /// VMess response whose sealed header has this many bytes (the regular one has 4: V, options, command, length) and,
    /// where it has a first byte, the right or a wrong V. A header without any byte carries no response authentication
    /// byte: the response is not bound to the client's request.
    VmessResponseHeader(u8, bool),
}

#[derive(Clone, Debug, Serialize, Deserialize)]
pub struct FieldCase {
    pub cipher: u8,
    pub users: u8,
    pub seed: u64,
    pub field: Field,
}

fn delta_strategy(limit: i64) -> BoxedStrategy<i64> {
    let l = limit;
    prop_oneof![
        4 => proptest::sample::select(vec![0i64, 1, -1, l - 1, -(l - 1), l, -l, l + 1, -(l + 1), 119, -119, 120, -120, 121, -121, 3600, -3600, 86400, -86400]),
        2 => -2 * l..=2 * l,
        1 => any::<i64>(),
        1 => proptest::sample::select(vec![i64::MAX, i64::MIN, i64::MAX - T0 as i64, i64::MIN + 1, -(T0 as i64), -(T0 as i64) - 1, u32::MAX as i64, (1i64 << 62)]),
    ]
    .boxed()
}

fn type_strategy(expected: u8) -> BoxedStrategy<u8> {
    prop_oneof![4 => Just(expected), 2 => Just(1 - expected), 1 => any::<u8>()].boxed()
}

pub fn field_strategy() -> BoxedStrategy<FieldCase> {
    let f = prop_oneof![
        3 => (delta_strategy(30), type_strategy(0)).prop_map(|(d, t)| Field::S22Request(d, t)),
        3 => (delta_strategy(30), type_strategy(1), 0u8..4).prop_map(|(d, t, e)| Field::S22Response(d, t, e)),
        2 => (delta_strategy(30), type_strategy(0)).prop_map(|(d, t)| Field::S22UdpToServer(d, t)),
        2 => (delta_strategy(30), type_strategy(1)).prop_map(|(d, t)| Field::S22UdpToClient(d, t)),
        3 => delta_strategy(120).prop_map(Field::VmessAuthId),
        2 => (prop_oneof![2 => Just(0u16), 2 => any::<u16>(), 1 => Just(u16::MAX)], prop_oneof![3 => -120i64..=120, 1 => -400i64..=400], prop_oneof![2 => -120i64..=120, 3 => 121i64..4000, 1 => -4000i64..-120]).prop_map(|(c, a, b)| Field::VmessAuthIdSplit(c, a, b)),
        2 => (prop_oneof![3 => Just(0u8), 2 => 1u8..=255], proptest::bool::weighted(0.3)).prop_map(|(v, k)| Field::VmessResponse(v, k)),
        1 => (prop_oneof![3 => Just(0u8), 2 => 1u8..=8], proptest::bool::weighted(0.4)).prop_map(|(l, w)| Field::VmessResponseHeader(l, w)),
        2 => (prop_oneof![2 => Just(0u16), 3 => any::<u16>()], prop_oneof![4 => -30i64..=30, 1 => -90i64..=90], prop_oneof![2 => -30i64..=30, 3 => 31i64..400, 1 => -400i64..-30]).prop_map(|(c, a, b)| Field::S22RequestSplit(c, a, b)),
    ];
    (0u8..8, 0u8..3, any::<u64>(), f).prop_map(|(cipher, users, seed, field)| FieldCase { cipher, users, seed, field }).boxed()
}

fn in_window(delta: i64, limit: i64) -> bool {
    // |t - now| <= limit, evaluated without overflow
    delta >= -limit && delta <= limit
}

pub struct Fields;

impl SubCheck for Fields {
    type Case = FieldCase;
    fn name(&self) -> &'static str {
        "handshake-fields"
    }
    fn strategy(&self, _tier: Tier) -> BoxedStrategy<FieldCase> {
        field_strategy()
    }
    fn exec(&self, c: &FieldCase) -> Outcome {
        let mut out = Outcome::new();
        real::set_clock(Some(T0));
        let mut d = Det::new(c.seed, "c10");
        let c22 = C22::ALL[c.cipher as usize % 4];
        let n_users = if c22.is_aes() { c.users as usize } else { 0 };
        let addr = Addr::V4([10, 9, 8, 7], 443);
        let payload = vec![gen::keystream(c.seed, 0, 33)];
        let class = |d: i64, l: i64| -> &'static str {
            let a = d.unsigned_abs();
            if a == 0 {
                "0"
            } else if (a as i64) < l - 1 && a < i64::MAX as u64 {
                "inside"
            } else if a as i128 == (l - 1) as i128 || a as i128 == l as i128 {
                "boundary-in"
            } else if a as i128 == (l + 1) as i128 {
                "boundary-out"
            } else if a < 100_000 {
                "outside"
            } else {
                "extreme"
            }
        };
        match &c.field {
            Field::S22Request(delta, typ) => {
                let cred = gen::make_cred(Proto::Ss22(c22), "", c.seed, n_users, 0);
                let mut o = ReqOpts::new(T0);
                o.ts_delta = *delta;
                o.typ = *typ;
                // the wrapped absolute timestamp decides: |ts - T0| as unsigned distance
                let ts = (T0 as i64).wrapping_add(*delta) as u64;
                let want = ts.abs_diff(T0) <= 30 && *typ == 0;
                let f = refside::ref_client_request(&cred, &addr, &payload, &o, &mut d).unwrap();
                let sctx = ServerCtx::new(&cred).unwrap();
                let mut codec = sctx.codec().unwrap();
                let (items, _, fed) = feed_server(&mut codec, &[f.wire.clone()]);
                let got = matches!(flow_of(&items), Flow::Tcp { .. });
                out.label(format!("2022-request ts:{} type:{}", class(*delta, 30), if *typ == 0 { "ok" } else { "wrong" }));
                out.nontrivial(format!("s22req|{}|{}|{}|{}", c22.name(), class(*delta, 30), typ.min(&2), n_users));
                if fed.panic.is_some() {
                    out.fail("handshake-fields/ss-2022/request/panic", fed.panic.unwrap());
                } else if got != want {
                    out.fail(
                        format!("handshake-fields/ss-2022/request/{}", if got { "accepted-but-must-be-rejected" } else { "rejected-but-acceptable" }),
                        format!("timestamp {} (now {} => distance {}), type byte {}: server {} (err {:?})", ts, T0, ts.abs_diff(T0), typ, if got { "accepted" } else { "rejected" }, fed.err),
                    );
                }
            }
            Field::S22Response(delta, typ, echo) => {
                let cred = gen::make_cred(Proto::Ss22(c22), "", c.seed, n_users, 0);
                let address = to_address(&addr).unwrap();
                let cctx = ClientCtx::new(&cred).unwrap();
                let mut cc = cctx.codec(&address).unwrap();
                let Ok((first, _)) = encode_all(&mut cc, vec![BytesMut::from(&b"hello"[..])]) else { return out };
                let Ok(req) = refside::ref_server_decode(&cred, &first, T0) else { return out };
                let SessionInfo::Ss22 { request_salt, .. } = &req.session else { return out };
                let mut o = RespOpts::new(T0);
                o.ts_delta = *delta;
                o.typ = *typ;
                o.echo = match echo {
                    0 => None,
                    1 => {
                        let mut s = request_salt.clone();
                        let i = (c.seed % (s.len() as u64 * 8)) as usize;
                        s[i / 8] ^= 1 << (i % 8);
                        Some(s)
                    }
                    2 => Some(d.bytes(request_salt.len())),
                    _ => Some(vec![0; request_salt.len()]),
                };
                let ts = (T0 as i64).wrapping_add(*delta) as u64;
                let want = ts.abs_diff(T0) <= 30 && *typ == 1 && *echo == 0;
                let resp = refside::ref_server_response(&cred, &req.session, &payload, &o, &mut d).unwrap();
                let fed = feed(&mut cc, &[resp.wire.clone()]);
                let got = !fed.items.is_empty();
                out.label(format!("2022-response ts:{} type:{} echo:{}", class(*delta, 30), if *typ == 1 { "ok" } else { "wrong" }, echo));
                out.nontrivial(format!("s22resp|{}|{}|{}|{}", c22.name(), class(*delta, 30), typ.min(&2), echo));
                if fed.panic.is_some() {
                    out.fail("handshake-fields/ss-2022/response/panic", fed.panic.unwrap());
                } else if got != want {
                    out.fail(
                        format!("handshake-fields/ss-2022/response/{}", if got { "accepted-but-must-be-rejected" } else { "rejected-but-acceptable" }),
                        format!("timestamp distance {}, type byte {}, echo kind {}: client {} (err {:?})", ts.abs_diff(T0), typ, echo, if got { "accepted" } else { "rejected" }, fed.err),
                    );
                }
            }
            Field::S22UdpToServer(delta, typ) | Field::S22UdpToClient(delta, typ) => {
                let to_server = matches!(c.field, Field::S22UdpToServer(..));
                let cred = gen::make_cred(Proto::Ss22(c22), "", c.seed, n_users, 0);
                let keys = refside::ref_keys(&cred).unwrap();
                let ts = (T0 as i64).wrapping_add(*delta) as u64;
                let want = ts.abs_diff(T0) <= 30 && *typ == if to_server { 0 } else { 1 };
                let got;
                let err;
                // every other case probes a session that is already in use: a fresh, well-formed datagram of the same session
                // has been accepted just before (whatever the receiver keeps per session exists by then)
                let warm = c.seed % 2 == 1;
                if warm {
                    out.label("2022-udp session-already-in-use");
                }
                if to_server {
                    let ipsks = if c22.is_aes() { keys.client_ipsks.clone() } else { vec![] };
                    let sid = d.u64();
                    let sudp = real::server_udp(&cred).unwrap();
                    if warm {
                        let w0 = ss2022::encode_udp_client(c22, &keys.client_upsk, &ipsks, &UdpClientPacket { sid, pid: 1, typ: 0, ts: T0, padding: vec![], addr: addr.clone(), payload: b"opens the session".to_vec(), xnonce: d.bytes(24) });
                        if !matches!(rt::catch(|| sudp.decode(&mut BytesMut::from(&w0[..]))), Ok(Ok(Some(_)))) {
                            out.label("warm-up-datagram-not-accepted");
                            return out;
                        }
                    }
                    let w = ss2022::encode_udp_client(c22, &keys.client_upsk, &ipsks, &UdpClientPacket { sid, pid: 2, typ: *typ, ts, padding: d.bytes(4), addr: addr.clone(), payload: payload[0].clone(), xnonce: d.bytes(24) });
                    let mut src = BytesMut::from(&w[..]);
                    match rt::catch(|| sudp.decode(&mut src)) {
                        Err(p) => {
                            out.fail("handshake-fields/ss-2022/udp/panic", p);
                            return out;
                        }
                        Ok(r) => {
                            got = matches!(r, Ok(Some(_)));
                            err = r.err().map(|e| e.to_string());
                        }
                    }
                } else {
                    let cctx = real::ClientUdpCtx::new(&cred).unwrap();
                    let mut cc = cctx.codec();
                    let (ssid, csid) = (d.u64(), cc.session().client_sid);
                    if warm {
                        let w0 = ss2022::encode_udp_server(c22, &keys.client_upsk, &UdpServerPacket { ssid, pid: 1, typ: 1, ts: T0, client_sid: csid, padding: vec![], addr: addr.clone(), payload: b"first reply".to_vec(), xnonce: d.bytes(24) });
                        if !matches!(rt::catch(|| cc.decode(&mut BytesMut::from(&w0[..]))), Ok(Ok(Some(_)))) {
                            out.label("warm-up-datagram-not-accepted");
                            return out;
                        }
                    }
                    let w = ss2022::encode_udp_server(c22, &keys.client_upsk, &UdpServerPacket { ssid, pid: 2, typ: *typ, ts, client_sid: csid, padding: d.bytes(4), addr: addr.clone(), payload: payload[0].clone(), xnonce: d.bytes(24) });
                    let mut src = BytesMut::from(&w[..]);
                    match rt::catch(|| cc.decode(&mut src)) {
                        Err(p) => {
                            out.fail("handshake-fields/ss-2022/udp/panic", p);
                            return out;
                        }
                        Ok(r) => {
                            got = matches!(r, Ok(Some(_)));
                            err = r.err().map(|e| e.to_string());
                        }
                    }
                }
                out.label(format!("2022-udp-{} ts:{} type:{}", if to_server { "to-server" } else { "to-client" }, class(*delta, 30), if want || ts.abs_diff(T0) > 30 { "ok" } else { "wrong" }));
                out.nontrivial(format!("s22udp|{}|{}|{}|{}|{}", c22.name(), to_server, class(*delta, 30), typ.min(&2), warm));
                if got != want {
                    out.fail(
                        format!("handshake-fields/ss-2022/udp-{}/{}", if to_server { "to-server" } else { "to-client" }, if got { "accepted-but-must-be-rejected" } else { "rejected-but-acceptable" }),
                        format!("timestamp distance {}, type byte {}: {} (err {:?})", ts.abs_diff(T0), typ, if got { "accepted" } else { "rejected" }, err),
                    );
                }
            }
            Field::VmessAuthId(delta) => {
                let sec = if c.cipher % 2 == 0 { 3 } else { 4 };
                let cred = gen::make_cred(Proto::Vmess(sec), "", c.seed, 1 + c.users as usize, c.users as usize);
                let mut o = ReqOpts::new(T0);
                o.ts_delta = *delta;
                let ts = (T0 as i64).wrapping_add(*delta);
                let want = ts.abs_diff(T0 as i64) <= 120;
                let f = refside::ref_client_request(&cred, &addr, &payload, &o, &mut d).unwrap();
                let sctx = ServerCtx::new(&cred).unwrap();
                let mut codec = sctx.codec().unwrap();
                let (items, _, fed) = feed_server(&mut codec, &[f.wire.clone()]);
                let got = matches!(flow_of(&items), Flow::Tcp { .. });
                out.label(format!("vmess-auth-id ts:{}", class(*delta, 120)));
                out.nontrivial(format!("vmessaid|{}|{}|{}", sec, class(*delta, 120), c.users));
                if fed.panic.is_some() {
                    out.fail("handshake-fields/vmess/auth-id/panic", fed.panic.unwrap());
                } else if got != want {
                    out.fail(
                        format!("handshake-fields/vmess/auth-id/{}", if got { "accepted-but-must-be-rejected" } else { "rejected-but-acceptable" }),
                        format!("auth-id timestamp {} (now {}, distance {}): server {} (err {:?})", ts, T0, ts.abs_diff(T0 as i64), if got { "accepted" } else { "rejected" }, fed.err),
                    );
                }
            }
            Field::VmessAuthIdSplit(cutp, d1, d2) => {
                let sec = if c.cipher % 2 == 0 { 3 } else { 4 };
                let cred = gen::make_cred(Proto::Vmess(sec), "", c.seed, 1 + c.users as usize, c.users as usize);
                let o = ReqOpts::new(T0);
                let f = refside::ref_client_request(&cred, &addr, &payload, &o, &mut d).unwrap();
                let sctx = ServerCtx::new(&cred).unwrap();
                let mut codec = sctx.codec().unwrap();
                // cut 0 = right behind the 16-byte auth id; otherwise anywhere inside the request
                let cut = if *cutp == 0 { 16 } else { 1 + rt::idx(*cutp, f.wire.len() - 1) };
                let segs = crate::drive::cut(&f.wire, &[cut]);
                let clocks = [(T0 as i64 + d1) as u64, (T0 as i64 + d2) as u64];
                let fed = crate::drive::feed_with(&mut codec, &segs, |i| real::set_clock(Some(clocks[i.min(1)])));
                real::set_clock(Some(T0));
                let items: Vec<real::Item> = fed.items.iter().map(|i| real::Item::from_inbound(i).0).collect();
                let got = matches!(flow_of(&items), Flow::Tcp { .. });
                let fresh1 = d1.abs() <= 120;
                let fresh2 = d2.abs() <= 120;
                // The auth id authenticates the sealed request header (it is that AEAD's associated data): the token is
                // honoured when the server accepts the header that carries it, which it can do no earlier than the read
                // that completes the header. (A request whose header was complete and fresh at the first read may lawfully
                // be followed by its body later.)
                let header_complete_at_first = cut >= f.header_end;
                let age_when_honoured = if header_complete_at_first { *d1 } else { *d2 };
                out.label(format!("vmess-auth-id split first:{} second:{} cut:{}", if fresh1 { "fresh" } else { "stale" }, if fresh2 { "fresh" } else { "stale" }, if cut < 16 { "<16" } else if cut == 16 { "16" } else if cut < f.header_end { "in-header" } else { "behind-header" }));
                out.nontrivial(format!("vmessaidsplit|{}|{}|{}|{}|{}|{}", sec, fresh1, fresh2, cut.min(17), header_complete_at_first, c.users));
                if let Some(p) = fed.panic {
                    out.fail("handshake-fields/vmess/auth-id-split/panic", p);
                } else if got && age_when_honoured.abs() > 120 {
                    out.fail(
                        "handshake-fields/vmess/auth-id-split/accepted-but-must-be-rejected",
                        format!("a request whose sealed header ({} bytes) was completed by the read at auth-id age {} s (first {} bytes arrived at age {} s) was accepted: the token is honoured outside its 120 s", f.header_end, age_when_honoured, cut, d1),
                    );
                } else if !got && fresh1 && fresh2 {
                    out.fail(
                        "handshake-fields/vmess/auth-id-split/rejected-but-acceptable",
                        format!("a request cut at {} whose auth-id is {} s / {} s old at its two reads was rejected (err {:?})", cut, d1, d2, fed.err),
                    );
                }
            }
            Field::S22RequestSplit(cutp, d1, d2) => {
                let cred = gen::make_cred(Proto::Ss22(c22), "", c.seed, n_users, 0);
                let o = ReqOpts::new(T0);
                let f = refside::ref_client_request(&cred, &addr, &payload, &o, &mut d).unwrap();
                let sctx = ServerCtx::new(&cred).unwrap();
                let mut codec = sctx.codec().unwrap();
                // salt, identity header and fixed header arrive together (the boundary the protocol itself demands);
                // cut 0 = right behind the fixed header, otherwise anywhere behind it
                let fixed_end = crate::props::c04::exempt_prefix(&cred, &f);
                if fixed_end == 0 || fixed_end >= f.wire.len() {
                    return out;
                }
                let cut = if *cutp == 0 { fixed_end } else { fixed_end + rt::idx(*cutp, f.wire.len() - fixed_end) };
                let segs = crate::drive::cut(&f.wire, &[cut]);
                let clocks = [(T0 as i64 + d1) as u64, (T0 as i64 + d2) as u64];
                let fed = crate::drive::feed_with(&mut codec, &segs, |i| real::set_clock(Some(clocks[i.min(1)])));
                real::set_clock(Some(T0));
                let items: Vec<real::Item> = fed.items.iter().map(|i| real::Item::from_inbound(i).0).collect();
                let got = matches!(flow_of(&items), Flow::Tcp { .. });
                let complete_at_first = cut >= f.header_end || segs.len() < 2;
                let age_when_accepted = if complete_at_first { *d1 } else { *d2 };
                let (fresh1, fresh2) = (d1.abs() <= 30, d2.abs() <= 30);
                out.label(format!("2022-request split first:{} second:{} cut:{}", if fresh1 { "fresh" } else { "stale" }, if fresh2 { "fresh" } else { "stale" }, if cut == fixed_end { "behind-fixed-header" } else if cut < f.header_end { "in-variable-header" } else { "behind-header" }));
                out.nontrivial(format!("s22reqsplit|{}|{}|{}|{}|{}", c22.name(), fresh1, fresh2, complete_at_first, n_users));
                if let Some(p) = fed.panic {
                    out.fail("handshake-fields/ss-2022/request-split/panic", p);
                } else if got && age_when_accepted.abs() > 30 {
                    out.fail(
                        "handshake-fields/ss-2022/request-split/accepted-but-must-be-rejected",
                        format!("a request whose variable-length header (ends at {}) was completed by the read at timestamp age {} s (the first {} bytes, salt and fixed header included, arrived at age {} s) was accepted: the server dials for a request whose timestamp is more than 30 s from its clock", f.header_end, age_when_accepted, cut, d1),
                    );
                } else if !got && fresh1 && fresh2 {
                    out.fail(
                        "handshake-fields/ss-2022/request-split/rejected-but-acceptable",
                        format!("a request cut at {} whose timestamp is {} s / {} s old at its two reads was rejected (err {:?})", cut, d1, d2, fed.err),
                    );
                }
            }
            Field::VmessResponseHeader(len, wrong_v) => {
                use crate::refimpl::vmess;
                let sec = if c.cipher % 2 == 0 { 3 } else { 4 };
                let cred = gen::make_cred(Proto::Vmess(sec), "", c.seed, 1, 0);
                let address = to_address(&addr).unwrap();
                let cctx = ClientCtx::new(&cred).unwrap();
                let mut cc = cctx.codec(&address).unwrap();
                let Ok((first, _)) = encode_all(&mut cc, vec![BytesMut::from(&b"hello"[..])]) else { return out };
                let Ok(req) = refside::ref_server_decode(&cred, &first, T0) else { return out };
                let SessionInfo::Vmess(h) = &req.session else { return out };
                let (rk, ri) = vmess::response_keys(&h.body_key, &h.body_iv);
                let full = [h.v ^ if *wrong_v { 0x5a } else { 0 }, h.opt, 0, 0, 0, 0, 0, 0];
                let n = (*len as usize).min(8);
                let mut wire = vmess::encode_response_header_raw(&rk, &ri, &full[..n]);
                let mut dd = Det::new(c.seed, "resp-hdr-pad");
                wire.extend(vmess::Body::response(h).encode(&payload, &mut || dd.u8()));
                let fed = feed(&mut cc, &[wire]);
                let got = !fed.items.is_empty();
                out.label(format!("vmess-response header-bytes:{} v:{}", n, if n == 0 { "absent" } else if *wrong_v { "wrong" } else { "ok" }));
                out.nontrivial(format!("vmessresphdr|{}|{}|{}", sec, n, wrong_v));
                if let Some(p) = fed.panic {
                    out.fail("handshake-fields/vmess/response-header/panic", p);
                } else if got && (n == 0 || *wrong_v) {
                    out.fail(
                        "handshake-fields/vmess/response-header/accepted-but-must-be-rejected",
                        format!("a response whose sealed header has {} bytes ({}) was accepted and its body delivered", n, if n == 0 { "no response authentication byte at all" } else { "a wrong response authentication byte" }),
                    );
                } else if !got && n == 4 && !*wrong_v {
                    out.fail("handshake-fields/vmess/response-header/rejected-but-acceptable", format!("a regular response was rejected (err {:?})", fed.err));
                }
            }
            Field::VmessResponse(vx, other_keys) => {
                let sec = if c.cipher % 2 == 0 { 3 } else { 4 };
                let cred = gen::make_cred(Proto::Vmess(sec), "", c.seed, 1, 0);
                let address = to_address(&addr).unwrap();
                let cctx = ClientCtx::new(&cred).unwrap();
                let mut cc = cctx.codec(&address).unwrap();
                let Ok((first, _)) = encode_all(&mut cc, vec![BytesMut::from(&b"hello"[..])]) else { return out };
                let Ok(req) = refside::ref_server_decode(&cred, &first, T0) else { return out };
                let SessionInfo::Vmess(h) = &req.session else { return out };
                let mut h2 = h.clone();
                if *other_keys {
                    // keys of a different request: one bit of the request body key or IV differs
                    let i = (c.seed % 256) as usize;
                    if i < 128 {
                        h2.body_key[i / 8] ^= 1 << (i % 8);
                    } else {
                        h2.body_iv[(i - 128) / 8] ^= 1 << (i % 8);
                    }
                }
                let mut o = RespOpts::new(T0);
                o.v = Some(h.v ^ vx);
                let want = *vx == 0 && !*other_keys;
                let resp = refside::ref_server_response(&cred, &SessionInfo::Vmess(h2), &payload, &o, &mut d).unwrap();
                let fed = feed(&mut cc, &[resp.wire.clone()]);
                let got = !fed.items.is_empty();
                out.label(format!("vmess-response v:{} keys:{}", if *vx == 0 { "ok" } else { "wrong" }, if *other_keys { "other" } else { "own" }));
                out.nontrivial(format!("vmessresp|{}|{}|{}", sec, *vx == 0, other_keys));
                if fed.panic.is_some() {
                    out.fail("handshake-fields/vmess/response/panic", fed.panic.unwrap());
                } else if got != want {
                    out.fail(
                        format!("handshake-fields/vmess/response/{}", if got { "accepted-but-must-be-rejected" } else { "rejected-but-acceptable" }),
                        format!("response authentication byte xor {}, keys of another request: {}: client {} (err {:?})", vx, other_keys, if got { "accepted" } else { "rejected" }, fed.err),
                    );
                }
            }
        }
        out
    }
}

// ------------------------------------------------------------------ replay histories

#[derive(Clone, Debug, Serialize, Deserialize)]
pub struct ReplayCase {
    pub cipher: u8,
    pub users: u8,
    pub seed: u64,
    /// (request index, clock offset at presentation)
    pub ops: Vec<(u8, i8)>,
    /// timestamp delta of each distinct request (relative to T0)
    pub req_deltas: Vec<i8>,
}

pub struct ReplayHistory;

impl SubCheck for ReplayHistory {
    type Case = ReplayCase;
    fn name(&self) -> &'static str {
        "replay-history"
    }
    fn strategy(&self, _tier: Tier) -> BoxedStrategy<ReplayCase> {
        (0u8..8, 0u8..3, any::<u64>(), proptest::collection::vec((0u8..6, -40i8..40), 1..24), proptest::collection::vec(-45i8..45, 6))
            .prop_map(|(cipher, users, seed, ops, req_deltas)| ReplayCase { cipher, users, seed, ops, req_deltas })
            .boxed()
    }
    fn exec(&self, c: &ReplayCase) -> Outcome {
        let mut out = Outcome::new();
        let mut d = Det::new(c.seed, "replay");
        let c22 = C22::ALL[c.cipher as usize % 4];
        let n_users = if c22.is_aes() { c.users as usize } else { 0 };
        let cred = gen::make_cred(Proto::Ss22(c22), "", c.seed, n_users, 0);
        let addr = Addr::Name(b"replay.example".to_vec(), 80);
        // distinct valid requests
        let reqs: Vec<(Vec<u8>, i64)> = c
            .req_deltas
            .iter()
            .enumerate()
            .map(|(i, dl)| {
                let mut o = ReqOpts::new(T0);
                o.ts_delta = *dl as i64;
                let f = refside::ref_client_request(&cred, &addr, &[gen::keystream(c.seed, i * 50, 20 + i)], &o, &mut d).unwrap();
                (f.wire, T0 as i64 + *dl as i64)
            })
            .collect();
        let sctx = ServerCtx::new(&cred).unwrap();
        let mut accepted: HashSet<usize> = HashSet::new();
        let mut bits = String::new();
        let mut saw_replay_reject = false;
        for (step, (ri, off)) in c.ops.iter().enumerate() {
            let i = *ri as usize % reqs.len();
            let now = T0 as i64 + *off as i64;
            real::set_clock(Some(now as u64));
            let fresh_ts = (reqs[i].1 - now).abs() <= 30;
            let want = fresh_ts && !accepted.contains(&i);
            let mut codec = sctx.codec().unwrap();
            let (items, _, fed) = feed_server(&mut codec, &[reqs[i].0.clone()]);
            let got = matches!(flow_of(&items), Flow::Tcp { .. });
            if let Some(p) = fed.panic {
                out.fail("replay-history/ss-2022/panic", p);
                return out;
            }
            if got != want {
                let what = if got && accepted.contains(&i) { "replayed-request-accepted" } else if got { "stale-request-accepted" } else { "fresh-unseen-request-rejected" };
                out.fail(
                    format!("replay-history/ss-2022/{}", what),
                    format!("step {}: request #{} (timestamp now{:+}) presented at clock offset {:+}; accepted before: {}; server {} (err {:?}); history {:?}", step, i, reqs[i].1 - now, off, accepted.contains(&i), if got { "accepted" } else { "rejected" }, fed.err, &c.ops[..=step]),
                );
                return out;
            }
            if fresh_ts && accepted.contains(&i) {
                saw_replay_reject = true;
            }
            if got {
                accepted.insert(i);
            }
            bits.push(if got { '1' } else { '0' });
        }
        out.weight = c.ops.len() as u64;
        if saw_replay_reject {
            out.label("replay-of-accepted-request-within-window");
            out.nontrivial(format!("{}|{}|{}", c22.name(), n_users, bits));
        }
        out
    }
}

/// K threads present the same valid request to one server context at the same moment: at most one acceptance.
pub struct ConcurrentReplay;

#[derive(Clone, Debug, Serialize, Deserialize)]
pub struct ConcCase {
    pub cipher: u8,
    pub seed: u64,
    pub k: u8,
    pub rounds: u8,
}

impl SubCheck for ConcurrentReplay {
    type Case = ConcCase;
    fn name(&self) -> &'static str {
        "concurrent-replay"
    }
    fn strategy(&self, _tier: Tier) -> BoxedStrategy<ConcCase> {
        (0u8..8, any::<u64>(), 2u8..12, 4u8..20).prop_map(|(cipher, seed, k, rounds)| ConcCase { cipher, seed, k, rounds }).boxed()
    }
    fn workers(&self) -> usize {
        2
    }
    fn max_shrink_iters(&self) -> u32 {
        40
    }
    fn exec(&self, c: &ConcCase) -> Outcome {
        let mut out = Outcome::new();
        let mut d = Det::new(c.seed, "conc");
        let c22 = C22::ALL[c.cipher as usize % 4];
        let cred = gen::make_cred(Proto::Ss22(c22), "", c.seed, 0, 0);
        let addr = Addr::V4([127, 0, 0, 1], 9);
        let sctx = ServerCtx::new(&cred).unwrap();
        let mut overlapped = 0;
        for r in 0..c.rounds {
            let f = refside::ref_client_request(&cred, &addr, &[gen::keystream(c.seed, r as usize, 64)], &ReqOpts::new(T0), &mut d).unwrap();
            let barrier = std::sync::Barrier::new(c.k as usize);
            let accepted = std::sync::atomic::AtomicUsize::new(0);
            let panics = std::sync::Mutex::new(Vec::new());
            std::thread::scope(|s| {
                for _ in 0..c.k {
                    s.spawn(|| {
                        real::set_clock(Some(T0));
                        let mut codec = sctx.codec().unwrap();
                        barrier.wait();
                        let (items, _, fed) = feed_server(&mut codec, &[f.wire.clone()]);
                        if let Some(p) = fed.panic {
                            panics.lock().unwrap().push(p);
                        }
                        if matches!(flow_of(&items), Flow::Tcp { .. }) {
                            accepted.fetch_add(1, std::sync::atomic::Ordering::SeqCst);
                        }
                    });
                }
            });
            let n = accepted.load(std::sync::atomic::Ordering::SeqCst);
            if let Some(p) = panics.lock().unwrap().first() {
                out.fail("concurrent-replay/ss-2022/panic", p.clone());
                return out;
            }
            if n > 1 {
                out.fail("concurrent-replay/ss-2022/same-request-accepted-more-than-once", format!("{} of {} concurrently presented copies of one valid request were accepted (round {})", n, c.k, r));
                return out;
            }
            if n == 0 {
                out.fail("concurrent-replay/ss-2022/valid-request-accepted-by-nobody", format!("none of {} concurrently presented copies of a fresh valid request was accepted (round {})", c.k, r));
                return out;
            }
            overlapped += 1;
        }
        out.weight = c.rounds as u64 * c.k as u64;
        out.nontrivial(format!("{}|{}|{}", c22.name(), c.k, overlapped));
        out
    }
}

/// Real-time expiry probe: a request accepted at tau with timestamp tau+29 is presented again after real delays (the
/// salt cache expires on std::time::Instant, which the clock hook does not move) at which its timestamp is still
/// acceptable: every time it must be rejected as a replay. Quick: 0.15 s and 1.2 s; thorough adds 5 s and 31 s.
pub fn expiry_probe(ctx: &PropCtx, delays_ms: &[u64]) {
    let sub = "replay-expiry-realtime";
    let mut d = Det::new(ctx.seed, "expiry");
    let mut cases = vec![];
    for (i, c22) in C22::ALL.iter().enumerate() {
        for users in [0usize, 2] {
            if users > 0 && !c22.is_aes() {
                continue;
            }
            let cred = gen::make_cred(Proto::Ss22(*c22), "", ctx.seed ^ i as u64, users, 1);
            let mut o = ReqOpts::new(T0);
            o.ts_delta = 29;
            let f = refside::ref_client_request(&cred, &Addr::V4([1, 2, 3, 4], 5), &[vec![7; 10]], &o, &mut d).unwrap();
            let sctx = ServerCtx::new(&cred).unwrap();
            real::set_clock(Some(T0));
            let mut codec = sctx.codec().unwrap();
            let (items, _, _) = feed_server(&mut codec, &[f.wire.clone()]);
            let first = matches!(flow_of(&items), Flow::Tcp { .. });
            cases.push((cred, f.wire, sctx, first));
        }
    }
    let t0 = std::time::Instant::now();
    for delay in delays_ms {
        let target = std::time::Duration::from_millis(*delay);
        if t0.elapsed() < target {
            std::thread::sleep(target - t0.elapsed());
        }
        let el = t0.elapsed();
        for (cred, wire, sctx, first) in &cases {
            real::set_clock(Some(T0 + el.as_secs()));
            let mut codec = sctx.codec().unwrap();
            let (items, _, fed) = feed_server(&mut codec, &[wire.clone()]);
            let again = matches!(flow_of(&items), Flow::Tcp { .. });
            let mut out = Outcome::new();
            out.nontrivial(format!("expiry|{}|{}|{}", cred.proto.short(), cred.users.len(), delay));
            out.label(format!("replayed {} ms of real time after acceptance, timestamp still within 30 s", delay));
            if !*first {
                out.fail("replay-expiry-realtime/ss-2022/first-presentation-rejected", "harness expectation: the first presentation is acceptable");
            } else if again {
                out.fail(
                    "replay-expiry-realtime/ss-2022/replay-accepted-after-cache-expiry",
                    format!("request with timestamp T0+29 accepted at T0 was accepted again {:?} of real time later (clock T0+{}, still within the 30 s window): the replay cache forgot it (err {:?})", el, el.as_secs(), fed.err),
                );
            }
            if let Some(f) = &out.fail {
                ctx.violation(sub, &serde_json::json!({"cred": cred, "delay_ms": delay, "note": "real-time probe; replay by re-running the check"}), f);
                return;
            } else {
                ctx.record(sub, || serde_json::json!({"cipher": cred.proto.short(), "users": cred.users.len(), "ts": "T0+29", "first": "T0", "replayed_after_ms": delay}), &out);
            }
        }
    }
}

pub fn subs() -> Vec<Box<dyn DynSub>> {
    let mut v: Vec<Box<dyn DynSub>> = vec![Box::new(Fields), Box::new(ReplayHistory), Box::new(ConcurrentReplay)];
    v.extend(crate::props::c10_sys::subs());
    v
}

pub fn run(ctx: &mut PropCtx) {
    ctx.rule = "reference-built handshakes with one chosen field each are presented to the real decoders under a pinned clock: \
                timestamps now+delta with delta from {0, +-1, +-29, +-30, +-31, +-119..121, +-3600, day, i64/u64 extremes and wrap-arounds} \
                and uniform ranges around the limits, type bytes 0..255, request-salt echo own / one-bit-off / other / zero, VMess \
                response byte V and request-derived keys own / other; for 2022 TCP requests, 2022 TCP responses, 2022 datagrams in both \
                directions, VMess auth-ids and VMess responses. Oracle = the model in the property statement (accept iff distance <= 30 \
                resp. 120, expected type, own echo, matching V and keys), compared exactly on both sides of each boundary. replay-history \
                presents 6 distinct valid requests repeatedly at varying clock offsets to one server context against a 'set of accepted \
                salts' model; concurrent-replay releases K threads with the same request through a barrier and requires exactly one \
                acceptance. Non-trivial = fully valid except the field under test, or a repeat of an accepted request within its \
                validity window; distinct by (protocol, direction, field, delta class / accept bit-string)."
        .into();
    ctx.assumptions = vec![
        "the clock hook pins the protocol clock; the salt cache's own expiry uses std::time::Instant and is probed with real delays: 0.15 s and 1.2 s in the quick tier, additionally 5 s and 31 s in the thorough tier".into(),
        "concurrent-replay explores the interleavings the machine produces (no schedule control)".into(),
    ];
    let t = ctx.tier;
    rt::run_sub(ctx, &Fields, t.pick(60_000, 1_500_000));
    rt::run_sub(ctx, &ReplayHistory, t.pick(8_000, 200_000));
    rt::run_sub(ctx, &ConcurrentReplay, t.pick(60, 1_500));
    if t == Tier::Thorough {
        expiry_probe(ctx, &[150, 1200, 5000, 31_000]);
    } else {
        expiry_probe(ctx, &[150, 1200]);
    }
    crate::props::c10_sys::run(ctx);
}
