//! C02 – UDP relay preserves each datagram, its addresses and its owner (Engine B).
use crate::ev::{Outcome, PropCtx, Tier};
use crate::gen::keystream;
use crate::real::Proto;
use crate::refimpl::ss::Legacy;
use crate::refimpl::ss2022::C22;
use crate::refimpl::Addr;
use crate::rt::{self, DynSub, SubCheck};
use crate::sys::cluster::{Cluster, Spec, Transport};
use crate::sys::flow::FlowFail;
use crate::sys::net::{self, UdpTarget};
use proptest::prelude::*;
use proptest::strategy::BoxedStrategy;
use serde::{Deserialize, Serialize};
use std::net::{Ipv4Addr, SocketAddr, SocketAddrV4, UdpSocket};
use std::sync::atomic::{AtomicBool, Ordering};
use std::sync::{Arc, Mutex};
use std::time::{Duration, Instant};

#[derive(Clone, Debug, Serialize, Deserialize)]
pub struct Send {
    pub app: u8,
    pub target: u8,
    pub size: u32,
    /// address the target as `localhost` instead of 127.0.0.1
    pub by_name: bool,
}

#[derive(Clone, Debug, Serialize, Deserialize)]
pub struct Case {
    pub spec: Spec,
    pub apps: u8,
    pub targets: u8,
    pub sends: Vec<Send>,
    /// per target: delay of its replies in ms (0 = at once); a late reply arrives after the application has sent to
    /// another target
    #[serde(default)]
    pub reply_delay_ms: Vec<u8>,
}

/// README rows for UDP.
pub fn udp_combos() -> Vec<(Proto, Transport, u8)> {
    let mut v = vec![];
    for l in Legacy::ALL {
        v.push((Proto::SsLegacy(l), Transport::Tcp, 0));
    }
    for c in C22::ALL {
        v.push((Proto::Ss22(c), Transport::Tcp, 0));
        if c.is_aes() {
            v.push((Proto::Ss22(c), Transport::Tcp, 2));
        }
    }
    for s in [3u8, 4] {
        for t in Transport::ALL {
            v.push((Proto::Vmess(s), t, 0));
        }
    }
    for t in [Transport::Tls, Transport::Wss, Transport::Quic] {
        v.push((Proto::Trojan, t, 0));
    }
    v
}

pub fn size_strategy(tier: Tier) -> BoxedStrategy<u32> {
    let top = if tier == Tier::Thorough { 65000u32 } else { 40000 };
    prop_oneof![
        3 => 0u32..16,
        4 => 16u32..1400,
        2 => proptest::sample::select(vec![0u32, 1, 2, 7, 8, 1400, 1472, 1473, 2030, 2047, 2048, 2049, 2100, 4096, 8191, 8192, 8193, 16383, 16384, 16385, 32768]),
        1 => 1400u32..9000,
        1 => 9000u32..=top,
        // the largest datagrams a local application can send at all (65507 bytes minus the 10-byte SOCKS5-UDP header) and
        // the sizes just below: whole or not at all
        1 => proptest::sample::select(vec![65300u32, 65400, 65437, 65438, 65450, 65470, 65490, 65496, 65497]),
    ]
    .boxed()
}

fn case_strategy(tier: Tier, combo: Option<(Proto, Transport, u8)>) -> BoxedStrategy<Case> {
    let combo_s: BoxedStrategy<(Proto, Transport, u8)> = match combo {
        Some(c) => Just(c).boxed(),
        None => proptest::sample::select(udp_combos()).boxed(),
    };
    let n = if tier == Tier::Thorough { 60 } else { 24 };
    (combo_s, 1u8..=4, 1u8..=3, any::<u8>(), 2u8..=12, 1u64..1_000_000, proptest::collection::vec(prop_oneof![2 => Just(0u8), 1 => 5u8..40], 3))
        .prop_flat_map(move |((proto, transport, n_users), apps, targets, user, workers, seed, reply_delay_ms)| {
            let send = (0..apps, 0..targets, size_strategy(tier), proptest::bool::weighted(0.25)).prop_map(|(app, target, size, by_name)| Send { app, target, size, by_name });
            proptest::collection::vec(send, 1..=n).prop_map(move |sends| {
                let mut spec = Spec::new(proto, transport);
                spec.udp = true;
                spec.n_users = n_users;
                spec.user = user;
                spec.workers = workers;
                spec.seed = seed;
                Case { spec, apps, targets, sends, reply_delay_ms: reply_delay_ms.clone() }
            })
        })
        .boxed()
}

struct App {
    sock: UdpSocket,
    got: Arc<Mutex<Vec<Vec<u8>>>>,
    stop: Arc<AtomicBool>,
    handle: Option<std::thread::JoinHandle<()>>,
}

impl App {
    fn new() -> App {
        let sock = UdpSocket::bind(SocketAddrV4::new(Ipv4Addr::LOCALHOST, 0)).expect("harness: app udp bind");
        let rd = sock.try_clone().expect("harness: clone");
        rd.set_read_timeout(Some(Duration::from_millis(30))).ok();
        let got = Arc::new(Mutex::new(vec![]));
        let stop = Arc::new(AtomicBool::new(false));
        let (g2, s2) = (got.clone(), stop.clone());
        let handle = std::thread::spawn(move || {
            let mut buf = vec![0u8; 70000];
            while !s2.load(Ordering::Relaxed) {
                if let Ok((n, _)) = rd.recv_from(&mut buf) {
                    g2.lock().unwrap().push(buf[..n].to_vec());
                }
            }
        });
        App { sock, got, stop, handle: Some(handle) }
    }
    fn count(&self) -> usize {
        self.got.lock().unwrap().len()
    }
}

impl Drop for App {
    fn drop(&mut self) {
        self.stop.store(true, Ordering::Relaxed);
        if let Some(h) = self.handle.take() {
            let _ = h.join();
        }
    }
}

fn payload(app: u8, target: u8, seq: u32, size: usize) -> Vec<u8> {
    let tag = ((app as u64) << 40) | ((target as u64) << 32) | seq as u64;
    if size >= 7 {
        let mut v = vec![b'P', app, target];
        v.extend_from_slice(&seq.to_be_bytes());
        v.extend_from_slice(&keystream(tag, 0, size - 7));
        v
    } else {
        keystream(tag, 0, size)
    }
}

fn target_addr(port: u16, by_name: bool) -> Addr {
    if by_name {
        Addr::Name(b"localhost".to_vec(), port)
    } else {
        Addr::V4([127, 0, 0, 1], port)
    }
}

struct Sent {
    app: u8,
    target: u8,
    payload: Vec<u8>,
}

pub struct CaseResult {
    pub fail: Option<FlowFail>,
    pub nontrivial: bool,
    pub labels: Vec<String>,
    pub datagrams: u64,
}

fn hard(sig: &str, msg: String) -> FlowFail {
    FlowFail { soft: false, sig: sig.into(), msg }
}
fn soft(sig: &str, msg: String) -> FlowFail {
    FlowFail { soft: true, sig: sig.into(), msg }
}

/// Largest size for which "reaches the addressed target" is demanded (every path carries it with a wide margin).
pub const MUST_CARRY: usize = 32768;

/// Integrity of everything received so far. `sent` lists every datagram handed to the client (all attempts).
fn check_integrity(sent: &[Sent], apps: &[App], targets: &[UdpTarget]) -> Result<(), FlowFail> {
    // targets: received ⊆ addressed to them, each at most as often as it was sent
    for (j, t) in targets.iter().enumerate() {
        let mut pool: Vec<&Vec<u8>> = sent.iter().filter(|s| s.target as usize == j).map(|s| &s.payload).collect();
        for (_, d) in t.received() {
            if let Some(pos) = pool.iter().position(|p| **p == d) {
                pool.swap_remove(pos);
            } else if sent.iter().any(|s| s.target as usize == j && s.payload == d) {
                return Err(hard("target-duplicate", format!("target {} received a {}-byte datagram more often than it was sent", j, d.len())));
            } else if let Some(o) = sent.iter().find(|s| s.payload == d) {
                return Err(hard("target-misdelivery", format!("target {} received a {}-byte datagram that was addressed to target {}", j, d.len(), o.target)));
            } else if let Some(o) = sent.iter().find(|s| s.target as usize == j && s.payload.len() > d.len() && s.payload.starts_with(&d)) {
                return Err(hard("target-truncated", format!("target {} received {} bytes, a truncated copy of a {}-byte datagram", j, d.len(), o.payload.len())));
            } else {
                return Err(hard("target-altered", format!("target {} received a {}-byte datagram that nobody sent (merged, altered or invented): {}", j, d.len(), crate::ev::hex(&d[..d.len().min(24)]))));
            }
        }
    }
    // applications: every reply is well formed, labelled with the replying target, answers a datagram this application sent
    for (i, a) in apps.iter().enumerate() {
        let got = a.got.lock().unwrap().clone();
        let mut pool: Vec<(u8, &Vec<u8>)> = sent.iter().filter(|s| s.app as usize == i).map(|s| (s.target, &s.payload)).collect();
        for d in got {
            let Some((label, body)) = net::parse_socks5_udp(&d) else {
                return Err(hard("reply-malformed", format!("application {} received a datagram that is not a SOCKS5-UDP reply: {}", i, crate::ev::hex(&d[..d.len().min(24)]))));
            };
            if body.len() < 6 || body[0] != b'R' {
                return Err(hard("reply-altered", format!("application {} received a reply whose payload no target produced ({} bytes)", i, body.len())));
            }
            let j = body[1] as usize;
            let len = u32::from_be_bytes([body[2], body[3], body[4], body[5]]) as usize;
            let p = &body[6..];
            if j >= targets.len() {
                return Err(hard("reply-altered", format!("application {} received a reply naming target {}", i, j)));
            }
            if p.len() != len {
                return Err(hard("reply-truncated", format!("application {} received a reply of {} payload bytes for a datagram of {} bytes (target {})", i, p.len(), len, j)));
            }
            let ok_label = match &label {
                Addr::V4(ip, port) => *ip == [127, 0, 0, 1] && *port == targets[j].port,
                Addr::Name(n, port) => n == b"localhost" && *port == targets[j].port,
                _ => false,
            };
            if !ok_label {
                return Err(hard("reply-wrong-label", format!("application {} received target {}'s reply (port {}) labelled {:?}", i, j, targets[j].port, label)));
            }
            if let Some(pos) = pool.iter().position(|(t, q)| *t as usize == j && q.as_slice() == p) {
                pool.swap_remove(pos);
            } else if sent.iter().any(|s| s.app as usize == i && s.target as usize == j && s.payload == p) {
                return Err(hard("reply-duplicate", format!("application {} received the reply to one {}-byte datagram more than once", i, p.len())));
            } else if let Some(o) = sent.iter().find(|s| s.payload == p && s.target as usize == j) {
                return Err(hard("reply-at-wrong-application", format!("application {} received the reply to a datagram that application {} sent to target {}", i, o.app, j)));
            } else {
                return Err(hard("reply-altered", format!("application {} received a reply to a {}-byte datagram it never sent to target {}", i, p.len(), j)));
            }
        }
    }
    Ok(())
}

fn answered(sent: &Sent, apps: &[App]) -> bool {
    let got = apps[sent.app as usize].got.lock().unwrap();
    got.iter().any(|d| match net::parse_socks5_udp(d) {
        Some((_, body)) => body.len() >= 6 && body[1] == sent.target && body[6..] == sent.payload[..],
        None => false,
    })
}

pub fn exec_once(c: &Case) -> CaseResult {
    let mut res = CaseResult { fail: None, nontrivial: false, labels: vec![], datagrams: c.sends.len() as u64 };
    let mut spec = c.spec.clone();
    spec.udp = true;
    let mut cl = match Cluster::start(&spec) {
        Ok(cl) => cl,
        Err(e) => {
            res.fail = Some(soft("start-up", format!("cluster for {} did not start: {}", spec.short(), e)));
            return res;
        }
    };
    let targets: Vec<UdpTarget> = (0..c.targets.max(1)).map(|j| UdpTarget::spawn_delayed(j, true, c.reply_delay_ms.get(j as usize).copied().unwrap_or(0) as u16)).collect();
    if c.reply_delay_ms.iter().take(c.targets as usize).any(|d| *d > 0) {
        res.labels.push("late-replies".into());
    }
    let apps: Vec<App> = (0..c.apps.max(1)).map(|_| App::new()).collect();
    let client = SocketAddr::V4(SocketAddrV4::new(Ipv4Addr::LOCALHOST, cl.client_port));
    let mut sent: Vec<Sent> = vec![];
    let mut seq = 0u32;
    let mut send_one = |s: &Send, sent: &mut Vec<Sent>| {
        seq += 1;
        let (a, t) = (s.app as usize % apps.len(), s.target as usize % targets.len());
        let p = payload(a as u8, t as u8, seq, s.size as usize);
        let d = net::socks5_udp(&target_addr(targets[t].port, s.by_name), &p);
        let _ = apps[a].sock.send_to(&d, client);
        sent.push(Sent { app: a as u8, target: t as u8, payload: p });
    };
    for s in &c.sends {
        send_one(s, &mut sent);
        std::thread::sleep(Duration::from_millis(if s.size > 8000 { 6 } else { 3 }));
    }
    // settle: until every datagram is answered or nothing has arrived for a while
    let settle = |want: usize, quiet: Duration, max: Duration| {
        let t0 = Instant::now();
        let mut last = (0usize, Instant::now());
        loop {
            let n: usize = apps.iter().map(|a| a.count()).sum();
            if n >= want {
                return;
            }
            if n != last.0 {
                last = (n, Instant::now());
            }
            if last.1.elapsed() > quiet || t0.elapsed() > max {
                return;
            }
            std::thread::sleep(Duration::from_millis(3));
        }
    };
    let fast = rt::failed_already();
    settle(sent.len(), Duration::from_millis(if fast { 400 } else { 1200 }), Duration::from_secs(8));
    let first = sent.len();
    let mut fail = check_integrity(&sent, &apps, &targets).err();
    // "reaches the addressed target": a size every path carries must get through within three paced attempts
    if fail.is_none() {
        // only sizes whose delivery is demanded are sent again (a 65 000-byte datagram that a path cannot carry stays lost)
        let mut missing: Vec<usize> = (0..first).filter(|k| !answered(&sent[*k], &apps) && (c.sends[*k].size as usize) <= MUST_CARRY).collect();
        res.labels.push(format!("first-attempt-loss:{}", if missing.is_empty() { "none" } else { "some" }));
        for attempt in 0..2 {
            if missing.is_empty() {
                break;
            }
            let mut still = vec![];
            for k in &missing {
                let s = &c.sends[*k];
                send_one(s, &mut sent);
                let idx = sent.len() - 1;
                let t0 = Instant::now();
                while !answered(&sent[idx], &apps) && t0.elapsed() < Duration::from_millis(if fast { 500 } else { 1500 + 1000 * attempt }) {
                    std::thread::sleep(Duration::from_millis(3));
                }
                if !answered(&sent[idx], &apps) {
                    still.push(*k);
                }
            }
            missing = still;
        }
        fail = check_integrity(&sent, &apps, &targets).err();
        if fail.is_none() {
            if let Some(k) = missing.iter().find(|k| (c.sends[**k].size as usize) <= MUST_CARRY) {
                let s = &c.sends[*k];
                let at_target = targets[s.target as usize % targets.len()].received().iter().filter(|(_, d)| d.len() == s.size as usize).count();
                fail = Some(soft(
                    "not-delivered",
                    format!(
                        "a {}-byte datagram from application {} to target {} ({}) was not answered in 3 paced attempts ({} datagrams of that size reached the target); {} of {} datagrams of the history were answered at the first attempt",
                        s.size,
                        s.app,
                        s.target,
                        if s.by_name { "by name" } else { "by address" },
                        at_target,
                        first - missing.len(),
                        first
                    ),
                ));
            }
        }
    }
    if let Err(h) = cl.health() {
        fail = Some(hard("process-or-task-died", h));
    }
    // labels / non-triviality
    let apps_used: std::collections::BTreeSet<u8> = sent.iter().map(|s| s.app).collect();
    let targets_used: std::collections::BTreeSet<u8> = sent.iter().map(|s| s.target).collect();
    let big = c.sends.iter().any(|s| s.size > 2048);
    res.nontrivial = (c.sends.len() >= 2 && (apps_used.len() >= 2 || targets_used.len() >= 2)) || big;
    res.labels.push(format!("combo:{}", spec.short()));
    res.labels.push(format!("apps:{}", apps_used.len()));
    res.labels.push(format!("targets:{}", targets_used.len()));
    for s in &c.sends {
        res.labels.push(format!("size:{}", crate::gen::size_class(s.size as usize)));
    }
    if c.sends.iter().any(|s| s.by_name) {
        res.labels.push("by-name".into());
    }
    if let Some(f) = &mut fail {
        f.msg = format!("{} [{}; apps={} targets={} datagrams={}]\n{}", f.msg, spec.short(), apps.len(), targets.len(), c.sends.len(), crate::ev::truncate(&cl.logs(8), 1800));
    }
    res.fail = fail;
    res
}

pub fn exec_confirmed(c: &Case) -> (CaseResult, u32) {
    // A failure decided by a deadline is reported when it shows in at least two of three executions on fresh clusters
    // (the first one and one of two re-runs): a one-off deadline miss of the machine is not reported, a defect that
    // depends on the implementation's own randomness (one flow in twenty) still is.
    let r = exec_once(c);
    let Some(f) = &r.fail else { return (r, 0) };
    if !f.soft || rt::failed_already() {
        return (r, 0);
    }
    let mut last = exec_once(c);
    if last.fail.is_none() {
        last = exec_once(c);
    }
    if last.fail.is_none() {
        last.labels.push("deadline-miss-not-confirmed".into());
    }
    (last, 2)
}


// ---------------------------------------------------------------------------------------------- empty replies

/// "All payload sizes from 0": a target that answers with an *empty* datagram. The content-keyed oracle above cannot see
/// such a reply (it names neither its target nor its request), so it has a sub-check of its own.
#[derive(Clone, Debug, Serialize, Deserialize)]
pub struct EmptyCase {
    pub spec: Spec,
    pub n: u8,
    pub by_name: bool,
}

pub struct EmptyReplies;

fn empty_once(c: &EmptyCase) -> (Option<FlowFail>, Vec<String>) {
    let mut labels = vec![format!("combo:{}", c.spec.short())];
    let mut spec = c.spec.clone();
    spec.udp = true;
    let mut cl = match Cluster::start(&spec) {
        Ok(cl) => cl,
        Err(e) => return (Some(soft("start-up", format!("cluster for {} did not start: {}", spec.short(), e))), labels),
    };
    let target = UdpTarget::spawn(0, true);
    let app = App::new();
    let client = SocketAddr::V4(SocketAddrV4::new(Ipv4Addr::LOCALHOST, cl.client_port));
    let taddr = target_addr(target.port, c.by_name);
    let fast = rt::failed_already();
    // the path works at all (a non-empty reply comes back)? otherwise this sub-check has nothing to say
    let mut warm = false;
    for k in 0..3 {
        let p = format!("warm-up-{}", k).into_bytes();
        let _ = app.sock.send_to(&net::socks5_udp(&taddr, &p), client);
        let t0 = Instant::now();
        while t0.elapsed() < Duration::from_millis(if fast { 500 } else { 1500 }) {
            if app.got.lock().unwrap().iter().any(|d| net::parse_socks5_udp(d).map(|(_, b)| b == net::reply_for(0, &p)).unwrap_or(false)) {
                warm = true;
                break;
            }
            std::thread::sleep(Duration::from_millis(3));
        }
        if warm {
            break;
        }
    }
    if !warm {
        labels.push("path-does-not-answer-at-all".into());
        return (None, labels);
    }
    let mut sent = 0usize;
    let count_empty = |app: &App| -> Result<usize, FlowFail> {
        let mut n = 0;
        for d in app.got.lock().unwrap().iter() {
            let Some((label, body)) = net::parse_socks5_udp(d) else {
                return Err(hard("reply-malformed", format!("the application received a datagram that is not a SOCKS5-UDP reply: {}", crate::ev::hex(&d[..d.len().min(24)]))));
            };
            if !body.is_empty() {
                if body.first() == Some(&b'R') {
                    continue; // warm-up answers
                }
                return Err(hard("reply-altered", format!("the target answered with empty datagrams; the application received {} payload bytes", body.len())));
            }
            let ok = match &label {
                Addr::V4(ip, port) => *ip == [127, 0, 0, 1] && *port == target.port,
                Addr::Name(nm, port) => nm == b"localhost" && *port == target.port,
                _ => false,
            };
            if !ok {
                return Err(hard("reply-wrong-label", format!("an empty reply of the target on port {} arrived labelled {:?}", target.port, label)));
            }
            n += 1;
        }
        Ok(n)
    };
    let mut got = 0;
    for round in 0..3 {
        for k in 0..c.n.max(1) {
            let p = format!("EMPTYREPLY#{}#{}", round, k).into_bytes();
            let _ = app.sock.send_to(&net::socks5_udp(&taddr, &p), client);
            sent += 1;
            std::thread::sleep(Duration::from_millis(25));
        }
        let t0 = Instant::now();
        while t0.elapsed() < Duration::from_millis(if fast { 500 } else { 1200 }) {
            match count_empty(&app) {
                Ok(n) => got = n,
                Err(f) => return (Some(f), labels),
            }
            if got >= sent {
                break;
            }
            std::thread::sleep(Duration::from_millis(5));
        }
        if got > 0 {
            break;
        }
    }
    labels.push(format!("empty-replies-delivered:{}", if got == sent { "all" } else if got > 0 { "some" } else { "none" }));
    let reached = target.received().iter().filter(|(_, d)| d.starts_with(b"EMPTYREPLY")).count();
    let mut fail = None;
    // VMess has no representation for an empty datagram (an empty chunk is the end-of-stream mark, DESIGN Appendix A.3):
    // delivery is not demanded there, only that the session is not disturbed
    let representable = !matches!(c.spec.proto, Proto::Vmess(_));
    // whatever happened to the empty replies, the session goes on: a later ordinary datagram is answered
    let mut after = false;
    for k in 0..3 {
        let p = format!("after-empty-{}", k).into_bytes();
        let _ = app.sock.send_to(&net::socks5_udp(&taddr, &p), client);
        let t0 = Instant::now();
        while t0.elapsed() < Duration::from_millis(if fast { 500 } else { 1500 }) {
            if app.got.lock().unwrap().iter().any(|d| net::parse_socks5_udp(d).map(|(_, b)| b == net::reply_for(0, &p)).unwrap_or(false)) {
                after = true;
                break;
            }
            std::thread::sleep(Duration::from_millis(3));
        }
        if after {
            break;
        }
    }
    if !after {
        fail = Some(soft("session-dead-after-empty-reply", format!("after {} empty replies of the target an ordinary datagram of the same application to the same target was not answered in three attempts (it was before)", reached)));
    }
    if got > sent {
        fail = Some(hard("reply-duplicate", format!("the target sent {} empty replies at most, the application received {}", sent, got)));
    } else if got == 0 && representable && fail.is_none() {
        fail = Some(soft(
            "empty-reply-not-delivered",
            format!("{} requests reached the target and each was answered with an empty datagram; none of the empty replies reached the application in three rounds ({} requests sent), while a non-empty reply on the same path did", reached, sent),
        ));
    }
    if let Err(h) = cl.health() {
        fail = Some(hard("process-or-task-died", h));
    }
    if let Some(f) = &mut fail {
        f.msg = format!("{} [{}]\n{}", f.msg, spec.short(), crate::ev::truncate(&cl.logs(6), 1200));
    }
    (fail, labels)
}

impl SubCheck for EmptyReplies {
    type Case = EmptyCase;
    fn name(&self) -> &'static str {
        "empty-replies"
    }
    fn strategy(&self, _tier: Tier) -> BoxedStrategy<EmptyCase> {
        (proptest::sample::select(udp_combos()), 1u8..4, any::<bool>(), 1u64..1_000_000, 2u8..8)
            .prop_map(|((proto, transport, n_users), n, by_name, seed, workers)| {
                let mut spec = Spec::new(proto, transport);
                spec.udp = true;
                spec.n_users = n_users;
                spec.seed = seed;
                spec.workers = workers;
                EmptyCase { spec, n, by_name }
            })
            .boxed()
    }
    fn workers(&self) -> usize {
        (rt::threads() / 2).clamp(1, 8)
    }
    fn max_shrink_iters(&self) -> u32 {
        12
    }
    fn confirm_runs(&self) -> u32 {
        2
    }
    fn exec(&self, c: &EmptyCase) -> Outcome {
        let (mut fail, mut labels) = empty_once(c);
        if fail.as_ref().map(|f| f.soft).unwrap_or(false) && !rt::failed_already() {
            let (f2, l2) = empty_once(c);
            if f2.is_some() {
                fail = f2;
                labels = l2;
            } else {
                let (f3, mut l3) = empty_once(c);
                if f3.is_none() {
                    l3.push("deadline-miss-not-confirmed".into());
                }
                fail = f3;
                labels = l3;
            }
        }
        let mut out = Outcome::new();
        let delivered = labels.iter().any(|l| l == "empty-replies-delivered:all" || l == "empty-replies-delivered:some");
        for l in labels {
            out.label(l);
        }
        if delivered {
            out.nontrivial(format!("{}|{}|{}", c.spec.short(), c.n, c.by_name));
        }
        if let Some(f) = fail {
            out.fail(format!("empty-replies/{}/{}", c.spec.proto.protocol_name(), f.sig), f.msg);
        }
        out
    }
}


// ---------------------------------------------------------------------------------------------- who owns a session's replies

/// A copy of one of a session's datagrams arrives at the server from somewhere else (an on-path observer re-sends it;
/// the server refuses it as a replay). The session still belongs to the client that opened it: the target's replies go
/// to that client's address and never to the sender of the copy.
#[derive(Clone, Debug, Serialize, Deserialize)]
pub struct OwnerCase {
    pub cipher: C22,
    pub n_users: u8,
    pub seed: u64,
    pub datagrams: u8,
    pub copy_of: u8,
}

pub struct SessionOwner;

impl SubCheck for SessionOwner {
    type Case = OwnerCase;
    fn name(&self) -> &'static str {
        "session-owner"
    }
    fn strategy(&self, _tier: Tier) -> BoxedStrategy<OwnerCase> {
        (proptest::sample::select(C22::ALL.to_vec()), 0u8..3, 1u64..1_000_000, 1u8..5, any::<u8>()).prop_map(|(cipher, n_users, seed, datagrams, copy_of)| OwnerCase { cipher, n_users, seed, datagrams, copy_of }).boxed()
    }
    fn workers(&self) -> usize {
        (rt::threads() / 2).clamp(1, 8)
    }
    fn max_shrink_iters(&self) -> u32 {
        12
    }
    fn confirm_runs(&self) -> u32 {
        2
    }
    fn exec(&self, c: &OwnerCase) -> Outcome {
        use crate::sys::refpeer::RefUdpClient;
        let mut out = Outcome::new();
        let mut spec = Spec::new(Proto::Ss22(c.cipher), Transport::Tcp);
        spec.udp = true;
        spec.n_users = if c.cipher.is_aes() { c.n_users } else { 0 };
        spec.seed = c.seed;
        spec.workers = 2 + (c.seed % 4) as u8;
        let mut cl = match Cluster::start(&spec) {
            Ok(cl) => cl,
            Err(_) => return out,
        };
        // replies come a little late, so that the copy is at the server before them
        let target = UdpTarget::spawn_delayed(3, true, 300);
        let taddr = Addr::V4([127, 0, 0, 1], target.port);
        let sid = 0x0c02_0000_0000_0000 ^ (c.seed << 8);
        let (Ok(owner), Ok(other)) = (RefUdpClient::new(&cl.cred, cl.server_port, sid), RefUdpClient::new(&cl.cred, cl.server_port, sid)) else { return out };
        let n = c.datagrams.max(1) as u64;
        let mut wires = vec![];
        let mut payloads = vec![];
        for k in 1..=n {
            let p = format!("owner-datagram-{}", k).into_bytes();
            wires.push(owner.send(k, &taddr, &p));
            payloads.push(p);
            std::thread::sleep(Duration::from_millis(5));
        }
        let ci = c.copy_of as usize % wires.len();
        other.send_wire(&wires[ci]);
        out.label(format!("proto:ss/{}", c.cipher.name()));
        out.weight = n + 1;
        let fast = rt::failed_already();
        let mine = owner.recv_all(Duration::from_millis(if fast { 700 } else { 1300 }));
        let stray = other.recv_raw(Duration::from_millis(150), 8);
        for w in &stray {
            if owner.decode_reply(w).is_ok() {
                out.fail(
                    "session-owner/reply-delivered-to-the-sender-of-a-copy",
                    format!("{} datagrams of one session from one socket, a copy of datagram {} re-sent from another socket: a reply of the session was delivered to the other socket [{}]\n{}", n, ci + 1, spec.short(), crate::ev::truncate(&cl.logs(4), 800)),
                );
                return out;
            }
        }
        let answered = mine.iter().filter(|r| matches!(r, Ok((_, _, p)) if payloads.iter().any(|q| *p == net::reply_for(3, q)))).count();
        out.nontrivial(format!("{}|{}|{}|{}", c.cipher.name(), spec.n_users, n, ci));
        if answered == 0 {
            // one more exchange before the owner is said to get nothing (loss alone is not a failure)
            let p = b"owner-datagram-after".to_vec();
            let mut ok = false;
            for k in 0..3u64 {
                owner.send(n + 1 + k, &taddr, &p);
                if owner.recv_all(Duration::from_millis(if fast { 700 } else { 1300 })).iter().any(|r| matches!(r, Ok((_, _, q)) if *q == net::reply_for(3, &p))) {
                    ok = true;
                    break;
                }
            }
            if !ok {
                out.fail(
                    "session-owner/owner-gets-no-replies-after-a-copy-from-elsewhere",
                    format!("after a copy of datagram {} was re-sent from another socket the session's own client got none of {} replies, nor any to three more datagrams [{}]\n{}", ci + 1, n, spec.short(), crate::ev::truncate(&cl.logs(4), 800)),
                );
            }
        }
        let _ = cl.health();
        out
    }
}

pub struct Datagrams;

impl SubCheck for Datagrams {
    type Case = Case;
    fn name(&self) -> &'static str {
        "datagrams"
    }
    fn strategy(&self, tier: Tier) -> BoxedStrategy<Case> {
        case_strategy(tier, None)
    }
    fn exec(&self, c: &Case) -> Outcome {
        let (r, reruns) = exec_confirmed(c);
        let mut out = Outcome::new();
        out.weight = r.datagrams.max(1);
        for l in r.labels {
            out.label(l);
        }
        if r.nontrivial {
            let shape: Vec<String> = c.sends.iter().map(|s| format!("{}>{}:{}", s.app, s.target, crate::gen::size_class(s.size as usize))).collect();
            out.nontrivial(format!("{}|{}", c.spec.short(), shape.join(",")));
        }
        if let Some(f) = r.fail {
            out.fail(format!("datagrams/{}/{}", c.spec.proto.protocol_name(), f.sig), f.msg);
        }
        out
    }
    fn workers(&self) -> usize {
        (rt::threads() / 2).clamp(1, 8)
    }
    fn max_shrink_iters(&self) -> u32 {
        24
    }
    fn confirm_runs(&self) -> u32 {
        2
    }
}

pub fn subs() -> Vec<Box<dyn DynSub>> {
    vec![Box::new(Datagrams), Box::new(EmptyReplies), Box::new(SessionOwner), Box::new(crate::props::c04_dgram::DgramCuts)]
}

pub fn run(ctx: &mut PropCtx) {
    ctx.level = "exploration";
    ctx.rule = "a history is non-trivial when it has >= 2 datagrams from >= 2 applications or to >= 2 targets, or a datagram larger than one inner frame (2048 bytes); distinct by (configuration, per-datagram (application, target, size class))".into();
    ctx.assumptions = vec![
        "targets answer every datagram with a reply that names the target and repeats the payload; loss alone is not a failure, but a datagram of at most 32 KiB that is not answered in three paced attempts is (confirmed on three fresh clusters)".into(),
        "a reply may be labelled with the target's IPv4 address or with the name it was addressed by".into(),
        "loopback UDP does not lose paced datagrams".into(),
    ];
    let combos = udp_combos();
    let per = ctx.tier.pick(2, 5) as u64;
    let mut cases = vec![];
    for (i, combo) in combos.iter().enumerate() {
        for k in 0..per {
            cases.push(crate::props::c01::sample(&case_strategy(ctx.tier, Some(*combo)), ctx.seed, (i as u64) * 16 + k));
        }
    }
    rt::run_list(ctx, &Datagrams, "matrix", cases);
    ctx.note("matrix", "every UDP row of the README table (Shadowsocks x 7 ciphers, with a user table for the 2022 AES ciphers; VMess x 2 ciphers x 5 transports; Trojan x tls/wss/quic) in every run");
    rt::run_sub(ctx, &Datagrams, ctx.tier.pick(150, 2000));
    // datagram-in-stream framings at codec level (VMess UDP, Trojan UDP): boundaries survive any segmentation
    // empty replies: every README UDP row in every run
    let empties: Vec<EmptyCase> = udp_combos()
        .into_iter()
        .enumerate()
        .map(|(i, (proto, transport, n_users))| {
            let mut spec = Spec::new(proto, transport);
            spec.udp = true;
            spec.n_users = n_users;
            spec.seed = ctx.seed.wrapping_mul(131) + i as u64 + 1;
            spec.workers = 2 + (i % 5) as u8;
            EmptyCase { spec, n: 1 + (i % 3) as u8, by_name: (i as u64 + ctx.seed) % 3 == 0 }
        })
        .collect();
    rt::run_list(ctx, &EmptyReplies, "empty-replies-matrix", empties);
    if ctx.tier == Tier::Thorough {
        rt::run_sub(ctx, &EmptyReplies, 200);
    }
    rt::run_sub(ctx, &SessionOwner, ctx.tier.pick(16, 400));
    rt::run_sub(ctx, &crate::props::c04_dgram::DgramCuts, ctx.tier.pick(20_000, 300_000));
}
