//! C08 – One failing or hostile flow never takes the service down for others (Engine B, fault enumeration).
use crate::ev::{Outcome, PropCtx, Tier};
use crate::real::Proto;
use crate::refimpl::ss::Legacy;
use crate::refimpl::ss2022::C22;
use crate::refimpl::Addr;
use crate::rt::{self, DynSub, SubCheck};
use crate::sys::cluster::{Cluster, Spec, Transport};
use crate::sys::net::{self, Hs, Listener, UdpTarget};
use crate::sys::procfs;
use crate::sys::refpeer::RefUdpClient;
use proptest::prelude::*;
use proptest::strategy::BoxedStrategy;
use serde::{Deserialize, Serialize};
use std::io::{Read, Write};
use std::net::{Ipv4Addr, Shutdown, SocketAddr, SocketAddrV4, TcpStream, UdpSocket};
use std::time::{Duration, Instant};

#[derive(Clone, Copy, Debug, Serialize, Deserialize, PartialEq, Eq, Hash, PartialOrd, Ord)]
pub enum Fault {
    // ---- hostile peers on the server's TCP listener
    /// connect, send nothing, keep the connection open while the canary runs
    SrvStall,
    /// first bytes of a TLS ClientHello that announces more than it sends, kept open
    SrvPartialTlsHello,
    /// junk bytes, connection kept open
    SrvGarbageHold,
    /// junk bytes, then close
    SrvGarbageClose,
    /// an HTTP upgrade request without its final CRLF, kept open
    SrvHalfWsUpgrade,
    /// twenty connections opened and closed at once
    SrvConnectClose,
    // ---- misbehaving local applications on the client's listener
    CliStall,
    CliGarbage,
    /// half a SOCKS5 greeting, kept open
    CliPartialSocks,
    // ---- flows that fail behind a valid handshake
    UnresolvableTarget,
    RefusedTarget,
    AppResetMidFlow,
    TargetResetMidFlow,
    // ---- datagrams
    UdpJunkToServer,
    /// a valid datagram sent twice by a reference client, then a fresh one in the same session
    UdpReplayToServer,
    UdpUnresolvableTarget,
    /// local SOCKS5-UDP datagrams that are too short / fragmented / of an unknown address type
    UdpMalformedLocal,
    /// junk sent to the client's per-binding outbound socket
    UdpJunkToClientOutbound,
    // ---- temporary descriptor exhaustion (cluster runs under a low RLIMIT_NOFILE)
    FdExhaustionServer,
    FdExhaustionClient,
    /// descriptor exhaustion that walks through a flow: idle connections take every descriptor of the client (resp. of the
    /// server), then they are released one at a time and after each release a complete, well-behaved flow is attempted -
    /// so a flow fails at its first, its second, ... its n-th descriptor (local socket, its duplicate, the server socket,
    /// the certificate file, the target socket ...)
    FdStarvedFlowsClient,
    FdStarvedFlowsServer,
    // ---- many failed handshakes, one after another, all finished and closed (whatever a failed handshake leaves behind
    //      adds up)
    SrvHandshakeFlood,
    CliHandshakeFlood,
    /// two hundred connections to the server's listener that send nothing and stay open while the canary runs
    SrvStallMany,
}

impl Fault {
    pub const ALL: [Fault; 25] = [
        Fault::SrvStall,
        Fault::SrvPartialTlsHello,
        Fault::SrvGarbageHold,
        Fault::SrvGarbageClose,
        Fault::SrvHalfWsUpgrade,
        Fault::SrvConnectClose,
        Fault::CliStall,
        Fault::CliGarbage,
        Fault::CliPartialSocks,
        Fault::UnresolvableTarget,
        Fault::RefusedTarget,
        Fault::AppResetMidFlow,
        Fault::TargetResetMidFlow,
        Fault::UdpJunkToServer,
        Fault::UdpReplayToServer,
        Fault::UdpUnresolvableTarget,
        Fault::UdpMalformedLocal,
        Fault::UdpJunkToClientOutbound,
        Fault::FdExhaustionServer,
        Fault::FdExhaustionClient,
        Fault::FdStarvedFlowsClient,
        Fault::FdStarvedFlowsServer,
        Fault::SrvHandshakeFlood,
        Fault::CliHandshakeFlood,
        Fault::SrvStallMany,
    ];
    pub fn is_udp(&self) -> bool {
        matches!(self, Fault::UdpJunkToServer | Fault::UdpReplayToServer | Fault::UdpUnresolvableTarget | Fault::UdpMalformedLocal | Fault::UdpJunkToClientOutbound)
    }
    pub fn needs_low_nofile(&self) -> bool {
        matches!(self, Fault::FdExhaustionServer | Fault::FdExhaustionClient | Fault::FdStarvedFlowsClient | Fault::FdStarvedFlowsServer)
    }
    /// can this fault be applied to this configuration at all?
    pub fn applies(&self, spec: &Spec) -> bool {
        let is_ss = matches!(spec.proto, Proto::SsLegacy(_) | Proto::Ss22(_));
        let has_tcp_listener = !(is_ss && spec.transport == Transport::Quic);
        match self {
            Fault::SrvStall | Fault::SrvPartialTlsHello | Fault::SrvGarbageHold | Fault::SrvGarbageClose | Fault::SrvHalfWsUpgrade | Fault::SrvConnectClose | Fault::FdExhaustionServer | Fault::FdStarvedFlowsServer | Fault::SrvHandshakeFlood | Fault::SrvStallMany => has_tcp_listener,
            Fault::UdpJunkToServer | Fault::UdpReplayToServer => spec.udp && is_ss,
            f if f.is_udp() => spec.udp,
            _ => true,
        }
    }
}

#[derive(Clone, Debug, Serialize, Deserialize)]
pub struct Case {
    pub spec: Spec,
    pub faults: Vec<Fault>,
    /// the faults hit freshly started processes: no well-behaved flow has run before them (whatever the processes set up
    /// at first use is set up under the fault)
    #[serde(default)]
    pub cold: bool,
}

/// Representative configurations: every protocol over tcp, tls and ws (+ one wss and one quic), Shadowsocks with UDP.
pub fn configs() -> Vec<Spec> {
    let mut v = vec![];
    let mut add = |p: Proto, t: Transport, udp: bool, users: u8| {
        let mut s = Spec::new(p, t);
        s.udp = udp && Spec::udp_supported(p, t);
        s.n_users = users;
        s.seed = 77 + v.len() as u64;
        s.workers = 2 + (v.len() % 4) as u8;
        v.push(s);
    };
    add(Proto::Ss22(C22::Aes128), Transport::Tcp, true, 0);
    add(Proto::Ss22(C22::Aes256), Transport::Tls, true, 2);
    add(Proto::Ss22(C22::ChaCha20), Transport::Ws, true, 0);
    add(Proto::SsLegacy(Legacy::Aes256Gcm), Transport::Tcp, true, 0);
    add(Proto::SsLegacy(Legacy::ChaCha20), Transport::Wss, true, 0);
    add(Proto::Vmess(3), Transport::Tcp, true, 0);
    add(Proto::Vmess(4), Transport::Tls, true, 0);
    add(Proto::Vmess(3), Transport::Ws, true, 0);
    add(Proto::Vmess(4), Transport::Quic, true, 0);
    add(Proto::Trojan, Transport::Tcp, false, 0);
    add(Proto::Trojan, Transport::Tls, true, 0);
    add(Proto::Trojan, Transport::Ws, false, 0);
    add(Proto::Trojan, Transport::Wss, true, 0);
    add(Proto::Ss22(C22::ChaCha8), Transport::Quic, false, 0);
    v
}

struct Env {
    cl: Cluster,
    /// connections that a fault leaves open on purpose (the canary runs while they are still open)
    held: Vec<TcpStream>,
    udp_target: Option<UdpTarget>,
    /// application socket that had a successful exchange before the faults (same-session canary)
    udp_app: Option<UdpSocket>,
    /// applications whose bindings a fault created (kept open until the end of the case)
    extra_apps: Vec<UdpSocket>,
    notes: Vec<String>,
}

fn connect(port: u16) -> Option<TcpStream> {
    let s = TcpStream::connect_timeout(&SocketAddr::V4(SocketAddrV4::new(Ipv4Addr::LOCALHOST, port)), Duration::from_secs(5)).ok()?;
    s.set_nodelay(true).ok();
    s.set_read_timeout(Some(Duration::from_secs(5))).ok();
    s.set_write_timeout(Some(Duration::from_secs(5))).ok();
    Some(s)
}

fn junk(n: usize, salt: u64) -> Vec<u8> {
    crate::gen::keystream(0xbad0_0000 + salt, 0, n)
}

/// One byte-exact TCP echo through the client and the server. Err(reason) if it does not complete in `deadline`.
pub fn canary_tcp(client_port: u16, deadline: Duration, tag: u64) -> Result<(), String> {
    let l = Listener::bind();
    let (mut app, _) = net::app_connect(client_port, Hs::Socks5V4, l.port, deadline).map_err(|e| format!("canary handshake: {}", e))?;
    let up = crate::gen::keystream(tag, 0, 3000);
    app.write_all(&up).map_err(|e| format!("canary write: {}", e))?;
    let mut t = l.accept(deadline).ok_or_else(|| format!("canary: the target was not dialled within {:?}", deadline))?;
    t.set_read_timeout(Some(deadline)).ok();
    let mut got = vec![0u8; up.len()];
    t.read_exact(&mut got).map_err(|e| format!("canary: target did not receive the request: {}", e))?;
    if got != up {
        return Err("canary: target received different bytes".into());
    }
    let down = crate::gen::keystream(tag + 1, 0, 5000);
    t.write_all(&down).map_err(|e| format!("canary target write: {}", e))?;
    let _ = t.shutdown(Shutdown::Both);
    app.set_read_timeout(Some(deadline)).ok();
    let mut back = vec![];
    app.read_to_end(&mut back).map_err(|e| format!("canary: application read: {} after {} bytes", e, back.len()))?;
    if back != down {
        return Err(format!("canary: application received {} bytes, expected {}", back.len(), down.len()));
    }
    Ok(())
}

/// One datagram echo from `app` (three paced attempts: loss alone is not a failure).
pub fn canary_udp(app: &UdpSocket, client_port: u16, target: &UdpTarget, tag: u32) -> Result<(), String> {
    let client = SocketAddr::V4(SocketAddrV4::new(Ipv4Addr::LOCALHOST, client_port));
    app.set_read_timeout(Some(Duration::from_millis(50))).ok();
    let mut buf = vec![0u8; 70000];
    for attempt in 0..3u32 {
        let payload = format!("udp-canary-{}-{}", tag, attempt).into_bytes();
        let _ = app.send_to(&net::socks5_udp(&Addr::V4([127, 0, 0, 1], target.port), &payload), client);
        let t0 = Instant::now();
        while t0.elapsed() < Duration::from_millis(if rt::failed_already() { 700 } else { 2000 }) {
            if let Ok((n, _)) = app.recv_from(&mut buf) {
                if let Some((_, body)) = net::parse_socks5_udp(&buf[..n]) {
                    if body.len() >= 6 && body[6..] == payload[..] {
                        return Ok(());
                    }
                }
            }
        }
    }
    Err("three paced datagrams got no reply".into())
}

fn apply(f: Fault, env: &mut Env, k: usize) -> bool {
    let (sp, cp) = (env.cl.server_port, env.cl.client_port);
    let salt = k as u64;
    match f {
        Fault::SrvStall => match connect(sp) {
            Some(s) => {
                env.held.push(s);
                true
            }
            None => false,
        },
        Fault::SrvStallMany => {
            let before = env.held.len();
            // under the low descriptor limit of the exhaustion faults two hundred held connections would *be* a lasting
            // exhaustion (the property speaks of a temporary one): a fraction of the limit is held there
            let n = if env.cl.spec.nofile.is_some() { 20 } else { 200 };
            for _ in 0..n {
                if let Some(s) = connect(sp) {
                    env.held.push(s);
                }
            }
            std::thread::sleep(Duration::from_millis(200));
            env.held.len() - before >= n * 3 / 4
        }
        Fault::SrvPartialTlsHello => match connect(sp) {
            Some(mut s) => {
                let mut hello = vec![0x16, 0x03, 0x01, 0x00, 0xc8, 0x01, 0x00, 0x00, 0xc4, 0x03, 0x03];
                hello.extend(junk(24, salt));
                let ok = s.write_all(&hello).is_ok();
                env.held.push(s);
                ok
            }
            None => false,
        },
        Fault::SrvGarbageHold | Fault::SrvGarbageClose => match connect(sp) {
            Some(mut s) => {
                let ok = s.write_all(&junk(300, salt)).is_ok();
                if f == Fault::SrvGarbageHold {
                    env.held.push(s);
                } else {
                    std::thread::sleep(Duration::from_millis(30));
                }
                ok
            }
            None => false,
        },
        Fault::SrvHalfWsUpgrade => match connect(sp) {
            Some(mut s) => {
                let ok = s.write_all(b"GET /ws HTTP/1.1\r\nHost: localhost\r\nUpgrade: websocket\r\nConnection: Upgrade\r\nSec-WebSocket-Key: dGhlIHNhbXBsZSBub25jZQ==\r\n").is_ok();
                env.held.push(s);
                ok
            }
            None => false,
        },
        Fault::SrvConnectClose => {
            let v: Vec<_> = (0..20).filter_map(|_| connect(sp)).collect();
            let n = v.len();
            drop(v);
            n > 0
        }
        Fault::CliStall => match connect(cp) {
            Some(s) => {
                env.held.push(s);
                true
            }
            None => false,
        },
        Fault::CliGarbage => match connect(cp) {
            Some(mut s) => {
                let ok = s.write_all(&junk(200, salt)).is_ok();
                env.held.push(s);
                ok
            }
            None => false,
        },
        Fault::CliPartialSocks => match connect(cp) {
            Some(mut s) => {
                let ok = s.write_all(&[5, 3, 0]).is_ok();
                env.held.push(s);
                ok
            }
            None => false,
        },
        Fault::UnresolvableTarget => {
            // SOCKS5 request for a name that does not resolve, followed by payload so that the server is asked to dial
            let Some(mut s) = connect(cp) else { return false };
            let name = b"no-such-host.invalid";
            let mut req = vec![5u8, 1, 0, 5, 1, 0, 3, name.len() as u8];
            req.extend_from_slice(name);
            req.extend_from_slice(&80u16.to_be_bytes());
            let _ = s.write_all(&req[..3]);
            let mut two = [0u8; 2];
            let _ = s.read_exact(&mut two);
            let _ = s.write_all(&req[3..]);
            let mut rep = [0u8; 10];
            let _ = s.read(&mut rep);
            let ok = s.write_all(b"GET / HTTP/1.0\r\n\r\n").is_ok();
            s.set_read_timeout(Some(Duration::from_millis(500))).ok();
            let mut b = [0u8; 16];
            let _ = s.read(&mut b);
            ok
        }
        Fault::RefusedTarget => {
            // a port nobody listens on
            let closed = crate::sys::free_port();
            match net::app_connect(cp, Hs::Socks5V4, closed, Duration::from_secs(5)) {
                Ok((mut s, _)) => {
                    let ok = s.write_all(b"hello?").is_ok();
                    s.set_read_timeout(Some(Duration::from_millis(500))).ok();
                    let mut b = [0u8; 16];
                    let _ = s.read(&mut b);
                    ok
                }
                Err(_) => false,
            }
        }
        Fault::AppResetMidFlow | Fault::TargetResetMidFlow => {
            let l = Listener::bind();
            let Ok((mut app, _)) = net::app_connect(cp, Hs::Socks5V4, l.port, Duration::from_secs(5)) else { return false };
            if app.write_all(&junk(20_000, salt)).is_err() {
                return false;
            }
            let Some(mut t) = l.accept(Duration::from_secs(5)) else { return false };
            let _ = t.write_all(&junk(50_000, salt + 1));
            if f == Fault::AppResetMidFlow {
                net::reset(&app);
                drop(app);
                std::thread::sleep(Duration::from_millis(30));
                drop(t);
            } else {
                net::reset(&t);
                drop(t);
                std::thread::sleep(Duration::from_millis(30));
                drop(app);
            }
            true
        }
        Fault::UdpJunkToServer => {
            let s = net::udp_socket(Duration::from_millis(10));
            let to = SocketAddr::V4(SocketAddrV4::new(Ipv4Addr::LOCALHOST, sp));
            for n in [0usize, 1, 15, 16, 31, 32, 48, 64, 100, 1400] {
                let _ = s.send_to(&junk(n, salt + n as u64), to);
            }
            true
        }
        Fault::UdpReplayToServer => {
            let Some(t) = env.udp_target.as_ref() else { return false };
            let Ok(rc) = RefUdpClient::new(&env.cl.cred, sp, 0x0c08_0000 + salt) else { return false };
            let a = Addr::V4([127, 0, 0, 1], t.port);
            let before = t.received().len();
            let w = rc.send(1, &a, b"replayed-datagram");
            std::thread::sleep(Duration::from_millis(20));
            rc.send_wire(&w);
            std::thread::sleep(Duration::from_millis(20));
            rc.send(2, &a, b"fresh-after-replay");
            let t0 = Instant::now();
            while t.received().len() <= before && t0.elapsed() < Duration::from_millis(800) {
                std::thread::sleep(Duration::from_millis(5));
            }
            t.received().len() > before
        }
        Fault::UdpUnresolvableTarget => {
            let s = net::udp_socket(Duration::from_millis(10));
            let to = SocketAddr::V4(SocketAddrV4::new(Ipv4Addr::LOCALHOST, cp));
            let _ = s.send_to(&net::socks5_udp(&Addr::Name(b"no-such-host.invalid".to_vec(), 9), b"lost"), to);
            std::thread::sleep(Duration::from_millis(30));
            let _ = s.send_to(&net::socks5_udp(&Addr::Name(b"no-such-host.invalid".to_vec(), 9), b"lost again"), to);
            std::thread::sleep(Duration::from_millis(150));
            true
        }
        Fault::UdpMalformedLocal => {
            let s = net::udp_socket(Duration::from_millis(10));
            let to = SocketAddr::V4(SocketAddrV4::new(Ipv4Addr::LOCALHOST, cp));
            for d in [&[0u8, 0, 0][..], &[0, 0, 1, 1, 127, 0, 0, 1, 0, 9, 65], &[0, 0, 0, 9, 1, 2, 3, 4, 5, 6], &[0, 0, 0, 3, 200, 65, 66], &[0, 0, 0, 1, 127], &[7]] {
                let _ = s.send_to(d, to);
                std::thread::sleep(Duration::from_millis(5));
            }
            true
        }
        Fault::UdpJunkToClientOutbound => {
            // more bindings than the runtime has worker threads: eight further applications send one datagram each
            if let Some(t) = env.udp_target.as_ref() {
                let a = Addr::V4([127, 0, 0, 1], t.port);
                let apps: Vec<UdpSocket> = (0..8).map(|_| net::udp_socket(Duration::from_millis(10))).collect();
                for (i, app) in apps.iter().enumerate() {
                    let _ = app.send_to(&net::socks5_udp(&a, format!("binding-{}", i).as_bytes()), SocketAddr::V4(SocketAddrV4::new(Ipv4Addr::LOCALHOST, cp)));
                }
                std::thread::sleep(Duration::from_millis(250));
                env.extra_apps = apps;
            }
            // the client's per-binding outbound UDP sockets (Shadowsocks only; stream protocols have none)
            let ports: Vec<u16> = procfs::socks_of(env.cl.client.pid).into_iter().filter(|s| s.proto == "udp" && s.local_port != cp).map(|s| s.local_port).collect();
            let s = net::udp_socket(Duration::from_millis(10));
            for p in &ports {
                for n in [0usize, 5, 40, 200] {
                    let _ = s.send_to(&junk(n, salt + n as u64), SocketAddr::V4(SocketAddrV4::new(Ipv4Addr::LOCALHOST, *p)));
                }
            }
            !ports.is_empty()
        }
        Fault::SrvHandshakeFlood | Fault::CliHandshakeFlood => {
            let port = if f == Fault::SrvHandshakeFlood { sp } else { cp };
            let mut done = 0usize;
            // 16 rounds of 40 connections: junk, a plain HTTP request, or nothing at all; every one is closed again
            for round in 0..16u64 {
                let v: Vec<TcpStream> = (0..40).filter_map(|_| connect(port)).collect();
                for (i, mut s) in v.into_iter().enumerate() {
                    let _ = match (round + i as u64) % 3 {
                        0 => s.write_all(&junk(64, salt * 1000 + round * 40 + i as u64)),
                        1 => s.write_all(b"GET / HTTP/1.0\r\nHost: localhost\r\n\r\n"),
                        _ => Ok(()),
                    };
                    let _ = s.shutdown(Shutdown::Both);
                    done += 1;
                }
                std::thread::sleep(Duration::from_millis(15));
            }
            std::thread::sleep(Duration::from_millis(300));
            env.notes.push(format!("{} failed handshakes on port {}", done, port));
            done >= 500
        }
        Fault::FdStarvedFlowsClient | Fault::FdStarvedFlowsServer => {
            let (port, pid) = if f == Fault::FdStarvedFlowsServer { (sp, env.cl.server.pid) } else { (cp, env.cl.client.pid) };
            let limit = env.cl.spec.nofile.unwrap_or(0) as usize;
            // Fill exactly: connect until the process's descriptor count stops growing (a connection that is not accepted
            // any more sits in the listen queue and would swallow the first descriptor that is freed), and give those last
            // ones up again.
            let mut v = vec![];
            let mut peak = procfs::fd_count(pid);
            let mut stalled = 0;
            for _ in 0..(limit + 40) {
                let Some(s) = connect(port) else { break };
                v.push(s);
                let t0 = Instant::now();
                let mut grew = false;
                while t0.elapsed() < Duration::from_millis(60) {
                    let n = procfs::fd_count(pid);
                    if n > peak {
                        peak = n;
                        grew = true;
                        break;
                    }
                    std::thread::sleep(Duration::from_millis(2));
                }
                if grew {
                    stalled = 0;
                } else {
                    stalled += 1;
                    if stalled >= 2 {
                        break;
                    }
                }
            }
            for _ in 0..stalled {
                v.pop();
            }
            std::thread::sleep(Duration::from_millis(150));
            peak = peak.max(procfs::fd_count(pid));
            // Free the descriptors one at a time (oldest first) and attempt a whole flow after each release: the flow gets
            // one descriptor more each time and fails one step later.
            let mut attempts = 0;
            let l = Listener::bind();
            for step in 0..7 {
                if !v.is_empty() {
                    drop(v.remove(0));
                }
                std::thread::sleep(Duration::from_millis(80));
                if let Ok((mut app, _)) = net::app_connect(cp, Hs::Socks5V4, l.port, Duration::from_millis(700)) {
                    let _ = app.write_all(&junk(500, salt + step));
                    if let Some(mut t) = l.accept(Duration::from_millis(500)) {
                        let _ = t.write_all(b"answer");
                        let _ = t.shutdown(Shutdown::Both);
                    }
                    app.set_read_timeout(Some(Duration::from_millis(300))).ok();
                    let mut b = [0u8; 64];
                    let _ = app.read(&mut b);
                }
                attempts += 1;
            }
            drop(v);
            std::thread::sleep(Duration::from_millis(500));
            env.notes.push(format!("fd peak {} of limit {}, {} flows attempted while starved", peak, limit, attempts));
            limit > 0 && peak + 2 >= limit
        }
        Fault::FdExhaustionServer | Fault::FdExhaustionClient => {
            let (port, pid) = if f == Fault::FdExhaustionServer { (sp, env.cl.server.pid) } else { (cp, env.cl.client.pid) };
            let limit = env.cl.spec.nofile.unwrap_or(0) as usize;
            let mut v = vec![];
            let mut peak = 0;
            for _ in 0..(limit + 40) {
                if let Some(s) = connect(port) {
                    v.push(s);
                }
                peak = peak.max(procfs::fd_count(pid));
            }
            // while no descriptor is left: new UDP sessions ask for new sockets (client binding / server association)
            if env.cl.spec.udp {
                if let Some(t) = env.udp_target.as_ref() {
                    let a = Addr::V4([127, 0, 0, 1], t.port);
                    for j in 0..2u64 {
                        let fresh = net::udp_socket(Duration::from_millis(10));
                        let _ = fresh.send_to(&net::socks5_udp(&a, b"during-exhaustion"), SocketAddr::V4(SocketAddrV4::new(Ipv4Addr::LOCALHOST, cp)));
                        if let Ok(rc) = RefUdpClient::new(&env.cl.cred, sp, 0x0c08_fd00 + salt * 8 + j) {
                            rc.send(1, &a, b"during-exhaustion-direct");
                        }
                        std::thread::sleep(Duration::from_millis(40));
                    }
                }
            }
            std::thread::sleep(Duration::from_millis(300));
            peak = peak.max(procfs::fd_count(pid));
            drop(v);
            std::thread::sleep(Duration::from_millis(400));
            env.notes.push(format!("fd peak {} of limit {}", peak, limit));
            limit > 0 && peak + 2 >= limit
        }
    }
}

pub struct CaseResult {
    pub fail: Option<(bool, String, String)>,
    pub effective: usize,
    pub labels: Vec<String>,
}

pub fn exec_once(c: &Case) -> CaseResult {
    let mut res = CaseResult { fail: None, effective: 0, labels: vec![] };
    let mut spec = c.spec.clone();
    if c.faults.iter().any(|f| f.needs_low_nofile()) {
        spec.nofile = Some(80);
    }
    let cl = match Cluster::start(&spec) {
        Ok(cl) => cl,
        Err(e) => {
            res.fail = Some((true, "start-up".into(), format!("cluster for {} did not start: {}", spec.short(), e)));
            return res;
        }
    };
    let mut env = Env { cl, held: vec![], udp_target: None, udp_app: None, extra_apps: vec![], notes: vec![] };
    let deadline = Duration::from_secs(if rt::failed_already() { 4 } else { 10 });
    // the service works before anything goes wrong (otherwise the case says nothing about faults); a cold case skips
    // this on purpose: the faults are the first thing the fresh processes see
    if c.cold {
        res.labels.push("cold:faults-hit-fresh-processes".into());
        if spec.udp {
            env.udp_target = Some(UdpTarget::spawn(0, true));
            env.udp_app = Some(net::udp_socket(Duration::from_millis(50)));
        }
    } else if let Err(e) = canary_tcp(env.cl.client_port, deadline, 1) {
        res.fail = Some((true, "service-not-working-before-faults".into(), format!("{} [{}]\n{}", e, spec.short(), env.cl.logs(6))));
        return res;
    }
    if spec.udp && !c.cold {
        let t = UdpTarget::spawn(0, true);
        let app = net::udp_socket(Duration::from_millis(50));
        if let Err(e) = canary_udp(&app, env.cl.client_port, &t, 0) {
            res.fail = Some((true, "udp-not-working-before-faults".into(), format!("{} [{}]\n{}", e, spec.short(), env.cl.logs(6))));
            return res;
        }
        env.udp_target = Some(t);
        env.udp_app = Some(app);
    }
    for (k, f) in c.faults.iter().enumerate() {
        if !f.applies(&spec) {
            res.labels.push(format!("skipped:{:?}", f));
            continue;
        }
        let eff = apply(*f, &mut env, k);
        res.labels.push(format!("fault:{:?}:{}", f, if eff { "took-effect" } else { "no-effect" }));
        if eff {
            res.effective += 1;
        }
    }
    // stalled connections are still open now
    let still_open = env.held.len();
    if still_open > 0 {
        res.labels.push("canary-runs-while-hostile-connections-are-open".into());
    }
    let mut fail: Option<(bool, String, String)> = None;
    let ctx_of = |env: &Env| format!("[{}; faults={:?}; {}]\n{}", spec.short(), c.faults, env.notes.join("; "), crate::ev::truncate(&env.cl.logs(8), 1800));
    if let Err(e) = canary_tcp(env.cl.client_port, deadline, 100) {
        fail = Some((true, "tcp-service-down-after-faults".into(), format!("a fresh well-behaved TCP flow fails after the fault sequence: {} {}", e, ctx_of(&env))));
    }
    if fail.is_none() && spec.udp {
        let t = env.udp_target.as_ref().unwrap();
        let fresh = net::udp_socket(Duration::from_millis(50));
        if let Err(e) = canary_udp(&fresh, env.cl.client_port, t, 200) {
            fail = Some((true, "udp-service-down-after-faults/new-application".into(), format!("a fresh application's datagram is not relayed after the fault sequence: {} {}", e, ctx_of(&env))));
        } else if let Err(e) = canary_udp(env.udp_app.as_ref().unwrap(), env.cl.client_port, t, 300) {
            fail = Some((true, "udp-service-down-after-faults/existing-session".into(), format!("an existing, well-behaved UDP session is no longer relayed after the fault sequence: {} {}", e, ctx_of(&env))));
        }
    }
    // listeners still bound? /proc/net/{tcp,udp} is not read atomically (a socket can be missed while other sockets come
    // and go), so an absent socket is looked for again a few times before it is called gone
    for attempt in 0..6 {
        if fail.is_some() {
            break;
        }
        if attempt > 0 {
            std::thread::sleep(Duration::from_millis(150));
        }
        let ex = Cluster::server_expect(&spec);
        let socks = procfs::socks_of(env.cl.server.pid);
        if ex.tcp && !socks.iter().any(|s| s.proto == "tcp" && s.local_port == env.cl.server_port && s.state == procfs::TCP_LISTEN) {
            fail = Some((false, "server-listener-gone".into(), format!("the server no longer listens on its TCP port {}", ctx_of(&env))));
        }
        if ex.udp && !socks.iter().any(|s| s.proto == "udp" && s.local_port == env.cl.server_port) {
            fail = Some((false, "server-udp-socket-gone".into(), format!("the server no longer holds its UDP port {}", ctx_of(&env))));
        }
        if !procfs::listens_tcp(env.cl.client.pid, env.cl.client_port) {
            fail = Some((false, "client-listener-gone".into(), format!("the client no longer listens on its TCP port {}", ctx_of(&env))));
        }
        if spec.udp && !procfs::binds_udp(env.cl.client.pid, env.cl.client_port) {
            fail = Some((false, "client-udp-socket-gone".into(), format!("the client no longer holds its UDP port {}", ctx_of(&env))));
        }
        if fail.is_none() {
            break;
        }
        if attempt < 5 {
            // look again
            fail = None;
        }
    }
    if let Err(h) = env.cl.health() {
        // a panicking *task* is C07's business only when input causes it; here any death after a fault is reported
        fail = Some((false, "process-or-task-died".into(), format!("{} {}", h, ctx_of(&env))));
    }
    res.labels.push(format!("config:{}", spec.short()));
    res.fail = fail;
    res
}

pub fn exec_confirmed(c: &Case) -> (CaseResult, u32) {
    // A failure decided by a deadline is reported when it shows in at least two of three executions on fresh clusters
    // (the first one and one of two re-runs): a one-off deadline miss of the machine is not reported, a defect that
    // depends on the implementation's own randomness (one flow in twenty) still is.
    let r = exec_once(c);
    let Some((soft, _, _)) = &r.fail else { return (r, 0) };
    if !*soft || rt::failed_already() {
        return (r, 0);
    }
    let mut last = exec_once(c);
    if last.fail.is_none() {
        last = exec_once(c);
    }
    if last.fail.is_none() {
        last.labels.push("deadline-miss-not-confirmed".into());
    }
    (last, 2)
}

pub struct Faults;

impl SubCheck for Faults {
    type Case = Case;
    fn name(&self) -> &'static str {
        "fault-sequences"
    }
    fn strategy(&self, _tier: Tier) -> BoxedStrategy<Case> {
        (proptest::sample::select(configs()), proptest::collection::vec(proptest::sample::select(Fault::ALL.to_vec()), 0..=4), proptest::bool::weighted(0.3))
            .prop_map(|(spec, faults, cold)| {
                let faults: Vec<Fault> = faults.into_iter().filter(|f| f.applies(&spec)).collect();
                Case { spec, faults, cold }
            })
            .boxed()
    }
    fn exec(&self, c: &Case) -> Outcome {
        let (r, reruns) = exec_confirmed(c);
        let mut out = Outcome::new();
        for l in r.labels {
            out.label(l);
        }
        if r.effective > 0 {
            out.nontrivial(format!("{}|{:?}|{}", c.spec.short(), c.faults, c.cold));
        }
        if let Some((_, sig, msg)) = r.fail {
            out.fail(format!("fault-sequences/{}", sig), msg);
        }
        out
    }
    fn workers(&self) -> usize {
        (rt::threads() / 2).clamp(1, 8)
    }
    fn max_shrink_iters(&self) -> u32 {
        30
    }
    fn confirm_runs(&self) -> u32 {
        2
    }
}

pub fn subs() -> Vec<Box<dyn DynSub>> {
    vec![Box::new(Faults)]
}

pub fn run(ctx: &mut PropCtx) {
    ctx.level = "fault_enumeration";
    ctx.rule = "a sequence is non-trivial when at least one of its faults took effect (the harness observes the fault's own signature: the hostile connection is still open while the canary runs, the descriptor count reached the limit, the replayed datagram's first copy was delivered, ...); distinct by (configuration, fault sequence)".into();
    ctx.assumptions = vec![
        "the service is checked to work before the faults; the canaries after the faults get 10 s for an exchange that takes milliseconds and three paced datagrams each; a failed canary is confirmed on two more fresh clusters".into(),
        "fault catalogue: stalled / garbage / partial TLS / partial WebSocket / connect-close peers on the server port; stalled / garbage / partial SOCKS5 applications on the client port; unresolvable and refused targets; application and target resets mid-flow; junk, replayed, unresolvable-target and malformed datagrams on server port, client port and the client's outbound sockets; temporary descriptor exhaustion of server and client under RLIMIT_NOFILE=80, also walked through a flow (idle connections take every descriptor, are released one at a time, a whole flow is attempted after each release - on freshly started processes in the exhaustive part); 640 failed handshakes in a row (junk, plain HTTP, connect-and-close) on the server's and on the client's listener; 200 silent connections held open on the server's listener; junk to the outbound sockets of nine client bindings (more bindings than worker threads)".into(),
        "not in the catalogue: black-holed addresses (the sandbox has no route that drops packets)".into(),
    ];
    let cfgs = configs();
    // every single fault on every representative configuration
    let mut singles = vec![];
    for s in &cfgs {
        for f in Fault::ALL {
            if f.applies(s) {
                // the starved-flow faults hit fresh processes (first-use set-up happens under the fault)
                singles.push(Case { spec: s.clone(), faults: vec![f], cold: matches!(f, Fault::FdStarvedFlowsClient | Fault::FdStarvedFlowsServer) });
            }
        }
    }
    rt::run_list(ctx, &Faults, "singles", singles);
    ctx.mark_exhaustive("singles", "every fault of the catalogue that applies, alone, on each of the 14 representative configurations");
    if ctx.tier == Tier::Thorough {
        let mut pairs = vec![];
        for (i, s) in cfgs.iter().enumerate() {
            // all ordered pairs on a rotating third of the configurations per seed keeps the run within minutes
            if (i as u64 + ctx.seed) % 3 != 0 {
                continue;
            }
            for f in Fault::ALL {
                for g in Fault::ALL {
                    if f.applies(s) && g.applies(s) {
                        pairs.push(Case { spec: s.clone(), faults: vec![f, g], cold: false });
                    }
                }
            }
        }
        rt::run_list(ctx, &Faults, "pairs", pairs);
        ctx.mark_exhaustive("pairs", "every ordered pair of applicable faults on a third of the representative configurations (rotating with the seed)");
    }
    rt::run_sub(ctx, &Faults, ctx.tier.pick(80, 1200));
}
