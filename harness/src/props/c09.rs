//! C09 – Concurrent flows are independent of one another.
//! Codec level: the same operations are run once sequentially and once concurrently on threads that touch the shared
//! state (process-wide datagram cipher cache, per-server salt cache, shared contexts); every per-operation result
//! must be the same. System level: many flows and UDP sessions at once through one client/server pair.
use crate::ev::{Outcome, PropCtx, Tier};
use crate::gen::{self, T0};
use crate::real::{self, to_address, ClientCtx, Proto, ServerCtx};
use crate::refimpl::ss2022::C22;
use crate::refimpl::Addr;
use crate::rt::{self, DynSub, SubCheck};
use bytes::BytesMut;
use proptest::prelude::*;
use proptest::strategy::BoxedStrategy;
use serde::{Deserialize, Serialize};
use std::sync::Barrier;
use std::time::Instant;
use tokio_util::codec::{Decoder, Encoder};

#[derive(Clone, Debug, Serialize, Deserialize)]
pub struct StressCase {
    pub proto: Proto,
    pub n_users: u8,
    pub threads: u8,
    pub ops: u16,
    pub seed: u64,
}

fn ss_protos() -> Vec<Proto> {
    Proto::all().into_iter().filter(|p| matches!(p, Proto::SsLegacy(_) | Proto::Ss22(_))).collect()
}

/// One client session talking to one server codec: `ops` request/reply exchanges. Returns the first deviation.
/// `sudp` is the server's one datagram codec, shared by all sessions as in the running server; `cred` is this
/// session's client credential (its own user where the server has a user table).
fn udp_exchanges(cred: &real::Cred, sudp: &dyn real::ServerUdpDyn, thread: usize, ops: usize, seed: u64) -> Result<usize, String> {
    real::set_clock(Some(T0));
    let cctx = real::ClientUdpCtx::new(cred).map_err(|e| format!("harness: client ctx: {}", e))?;
    let mut cc = cctx.codec();
    let target = to_address(&Addr::V4([10, 0, thread as u8, 1], 1000 + thread as u16)).unwrap();
    for k in 0..ops {
        let payload = gen::keystream(seed ^ ((thread as u64) << 32), k * 7, 20 + (k % 200));
        let mut wire = BytesMut::new();
        rt::catch(|| cc.encode(&payload, target.clone(), &mut wire)).map_err(|p| format!("client encode panicked: {}", p))?.map_err(|e| format!("exchange {}: client encode: {}", k, e))?;
        let (content, addr, sess) = match rt::catch(|| sudp.decode(&mut wire)).map_err(|p| format!("server decode panicked: {}", p))? {
            Ok(Some(x)) => x,
            Ok(None) => return Err(format!("exchange {}: server decoded nothing", k)),
            Err(e) => return Err(format!("exchange {}: server decode: {}", k, e)),
        };
        if content != payload || addr != target {
            return Err(format!("exchange {}: server decoded {} bytes for {:?}, sent {} bytes for {:?}", k, content.len(), addr, payload.len(), target));
        }
        // reply under the session the server saw
        let reply = gen::keystream(seed ^ 0x5555 ^ ((thread as u64) << 32), k * 5, 10 + (k % 100));
        let mut rs = sess;
        rs.server_sid = 0x9900_0000_0000_0000 | thread as u64;
        rs.pid = k as u64 + 1;
        let mut rw = BytesMut::new();
        rt::catch(|| sudp.encode(&reply, target.clone(), &rs, &mut rw)).map_err(|p| format!("server encode panicked: {}", p))?.map_err(|e| format!("exchange {}: server encode: {}", k, e))?;
        match rt::catch(|| cc.decode(&mut rw)).map_err(|p| format!("client decode panicked: {}", p))? {
            Ok(Some((c2, a2))) => {
                if c2 != reply || a2 != target {
                    return Err(format!("exchange {}: client decoded {} reply bytes from {:?}, server sent {} bytes from {:?}", k, c2.len(), a2, reply.len(), target));
                }
            }
            Ok(None) => return Err(format!("exchange {}: client decoded no reply", k)),
            Err(e) => return Err(format!("exchange {}: client decode: {}", k, e)),
        }
    }
    Ok(ops)
}

pub struct UdpCodecStress;

impl SubCheck for UdpCodecStress {
    type Case = StressCase;
    fn name(&self) -> &'static str {
        "udp-codec-stress"
    }
    fn strategy(&self, tier: Tier) -> BoxedStrategy<StressCase> {
        let ops = if tier == Tier::Thorough { 3000u16 } else { 600 };
        (prop_oneof![1 => (proptest::sample::select(ss_protos()), 0u8..5), 1 => (proptest::sample::select(vec![Proto::Ss22(C22::Aes128), Proto::Ss22(C22::Aes256)]), 2u8..6)], 2u8..=16, 50u16..=ops, any::<u64>()).prop_map(|((proto, n_users), threads, ops, seed)| (proto, n_users, threads, ops, seed)).prop_map(|(proto, n_users, threads, ops, seed)| StressCase { proto, n_users, threads, ops, seed }).boxed()
    }
    fn workers(&self) -> usize {
        1
    }
    fn max_shrink_iters(&self) -> u32 {
        12
    }
    fn exec(&self, c: &StressCase) -> Outcome {
        let mut out = Outcome::new();
        // one server (one user table, one datagram codec); every session is its own client, of its own user where
        // the server has users
        let creds: Vec<real::Cred> = (0..c.threads as usize).map(|t| gen::make_cred(c.proto, "stress password", c.seed, c.n_users as usize, t)).collect();
        out.label(format!("proto:{}", c.proto.short()));
        if creds[0].users.len() >= 2 {
            out.label("sessions-of-different-users");
        }
        let Ok(sudp) = real::server_udp(&creds[0]) else { return out };
        let sudp: &dyn real::ServerUdpDyn = sudp.as_ref();
        // alone first: the same exchanges, one session at a time
        for t in 0..c.threads.min(3) as usize {
            if let Err(e) = udp_exchanges(&creds[t], sudp, t, (c.ops as usize).min(60), c.seed) {
                if e.starts_with("harness:") {
                    return out;
                }
                // not a concurrency matter: C03's business
                out.label("fails-alone");
                return out;
            }
        }
        let barrier = Barrier::new(c.threads as usize);
        let mut results: Vec<(Result<usize, String>, Instant, Instant)> = vec![];
        std::thread::scope(|s| {
            let hs: Vec<_> = (0..c.threads as usize)
                .map(|t| {
                    let (cred, barrier) = (&creds[t], &barrier);
                    s.spawn(move || {
                        barrier.wait();
                        let t0 = Instant::now();
                        let r = udp_exchanges(cred, sudp, t, c.ops as usize, c.seed);
                        (r, t0, Instant::now())
                    })
                })
                .collect();
            for h in hs {
                results.push(h.join().unwrap_or_else(|_| (Err("thread panicked".into()), Instant::now(), Instant::now())));
            }
        });
        let overlapped = results.iter().enumerate().any(|(i, a)| results.iter().enumerate().any(|(j, b)| i != j && a.1 < b.2 && b.1 < a.2));
        out.weight = c.threads as u64 * c.ops as u64;
        if overlapped {
            out.nontrivial(format!("{}|{}|{}", c.proto.short(), c.threads, c.ops / 100));
            out.label("sessions-overlapped-in-time");
        }
        for (t, (r, _, _)) in results.iter().enumerate() {
            if let Err(e) = r {
                if e.starts_with("harness:") {
                    continue;
                }
                out.fail(
                    format!("udp-codec-stress/{}/result-differs-from-running-alone", if matches!(c.proto, Proto::Ss22(_)) { "ss-2022" } else { "ss-legacy" }),
                    format!("{} UDP sessions at once ({}): session {} fails although the same exchanges succeed when run alone: {}", c.threads, c.proto.short(), t, e),
                );
                break;
            }
        }
        out
    }
}

// ------------------------------------------------------------------------------------------------ TCP codecs sharing one context

pub struct TcpSharedContext;

fn tcp_round_trips(cctx: &ClientCtx, sctx: &ServerCtx, thread: usize, ops: usize, seed: u64) -> Result<usize, String> {
    real::set_clock(Some(T0));
    let target = Addr::V4([10, 1, thread as u8, 1], 2000 + thread as u16);
    let address = to_address(&target).unwrap();
    for k in 0..ops {
        let mut cc = cctx.codec(&address).map_err(|e| format!("harness: client codec: {}", e))?;
        let mut sc = sctx.codec().map_err(|e| format!("harness: server codec: {}", e))?;
        let up = gen::keystream(seed ^ ((thread as u64) << 40), k * 3, 30 + (k % 300));
        let mut wire = BytesMut::new();
        rt::catch(|| cc.encode(BytesMut::from(&up[..]), &mut wire)).map_err(|p| format!("client encode panicked: {}", p))?.map_err(|e| format!("flow {}: client encode: {}", k, e))?;
        let (items, _, fed) = crate::drive::feed_server(&mut sc, &[wire.to_vec()]);
        if let Some(p) = fed.panic {
            return Err(format!("flow {}: server decode panicked: {}", k, p));
        }
        match crate::drive::flow_of(&items) {
            crate::drive::Flow::Tcp { addr, bytes } => {
                if addr != target || bytes != up {
                    return Err(format!("flow {}: server decoded {} bytes for {:?}; the client sent {} bytes for {:?}", k, bytes.len(), addr, up.len(), target));
                }
            }
            other => return Err(format!("flow {}: a fresh valid request was not accepted: {:?} (err {:?})", k, std::mem::discriminant(&other), fed.err)),
        }
        let down = gen::keystream(seed ^ 0xaaaa ^ ((thread as u64) << 40), k * 11, 40 + (k % 500));
        let mut rw = BytesMut::new();
        rt::catch(|| sc.encode(real::OutboundIn::Tcp(BytesMut::from(&down[..])), &mut rw)).map_err(|p| format!("server encode panicked: {}", p))?.map_err(|e| format!("flow {}: server encode: {}", k, e))?;
        let mut got = vec![];
        loop {
            match rt::catch(|| cc.decode(&mut rw)).map_err(|p| format!("client decode panicked: {}", p))? {
                Ok(Some(b)) => got.extend_from_slice(&b),
                Ok(None) => break,
                Err(e) => return Err(format!("flow {}: client decode: {}", k, e)),
            }
        }
        if got != down {
            return Err(format!("flow {}: client decoded {} response bytes, the server sent {}", k, got.len(), down.len()));
        }
    }
    Ok(ops)
}

impl SubCheck for TcpSharedContext {
    type Case = StressCase;
    fn name(&self) -> &'static str {
        "tcp-shared-context"
    }
    fn strategy(&self, tier: Tier) -> BoxedStrategy<StressCase> {
        let ops = if tier == Tier::Thorough { 1500u16 } else { 300 };
        (prop_oneof![1 => (proptest::sample::select(Proto::all()), 0u8..5), 1 => (proptest::sample::select(vec![Proto::Ss22(C22::Aes128), Proto::Ss22(C22::Aes256), Proto::Vmess(3)]), 2u8..6)], 2u8..=16, 30u16..=ops, any::<u64>()).prop_map(|((proto, n_users), threads, ops, seed)| (proto, n_users, threads, ops, seed)).prop_map(|(proto, n_users, threads, ops, seed)| StressCase { proto, n_users, threads, ops, seed }).boxed()
    }
    fn workers(&self) -> usize {
        1
    }
    fn max_shrink_iters(&self) -> u32 {
        12
    }
    fn exec(&self, c: &StressCase) -> Outcome {
        let mut out = Outcome::new();
        let creds: Vec<real::Cred> = (0..c.threads as usize).map(|t| gen::make_cred(c.proto, "shared context password", c.seed, c.n_users as usize, t)).collect();
        out.label(format!("proto:{}", c.proto.short()));
        if creds[0].users.len() >= 2 {
            out.label("flows-of-different-users");
        }
        let Ok(sctx) = ServerCtx::new(&creds[0]) else { return out };
        let cctxs: Vec<ClientCtx> = match creds.iter().map(ClientCtx::new).collect::<Result<Vec<_>, _>>() {
            Ok(v) => v,
            Err(_) => return out,
        };
        for t in 0..c.threads.min(3) as usize {
            if tcp_round_trips(&cctxs[t], &sctx, t, (c.ops as usize).min(40), c.seed ^ 1).is_err() {
                out.label("fails-alone");
                return out;
            }
        }
        let barrier = Barrier::new(c.threads as usize);
        let mut results: Vec<(Result<usize, String>, Instant, Instant)> = vec![];
        std::thread::scope(|s| {
            let hs: Vec<_> = (0..c.threads as usize)
                .map(|t| {
                    let (cctx, sctx, barrier) = (&cctxs[t], &sctx, &barrier);
                    s.spawn(move || {
                        barrier.wait();
                        let t0 = Instant::now();
                        let r = tcp_round_trips(cctx, sctx, t, c.ops as usize, c.seed);
                        (r, t0, Instant::now())
                    })
                })
                .collect();
            for h in hs {
                results.push(h.join().unwrap_or_else(|_| (Err("thread panicked".into()), Instant::now(), Instant::now())));
            }
        });
        let overlapped = results.iter().enumerate().any(|(i, a)| results.iter().enumerate().any(|(j, b)| i != j && a.1 < b.2 && b.1 < a.2));
        out.weight = c.threads as u64 * c.ops as u64;
        if overlapped {
            out.nontrivial(format!("{}|{}|{}", c.proto.short(), c.threads, c.ops / 100));
            out.label("flows-overlapped-in-time");
        }
        for (t, (r, _, _)) in results.iter().enumerate() {
            if let Err(e) = r {
                if e.starts_with("harness:") {
                    continue;
                }
                out.fail(
                    format!("tcp-shared-context/{}/result-differs-from-running-alone", c.proto.protocol_name()),
                    format!("{} threads of flows on one shared context ({}): thread {} fails although the same flows succeed when run alone: {}", c.threads, c.proto.short(), t, e),
                );
                break;
            }
        }
        out
    }
}

// ------------------------------------------------------------------------------------------------ system level

#[derive(Clone, Debug, Serialize, Deserialize)]
pub struct SysCase {
    pub tcp: crate::props::c01::Case,
    /// UDP histories run at the same time through a second cluster of the same kind (when the combination relays UDP)
    pub udp: Option<crate::props::c02::Case>,
}

pub struct ManyFlows;

impl SubCheck for ManyFlows {
    type Case = SysCase;
    fn name(&self) -> &'static str {
        "many-flows"
    }
    fn strategy(&self, tier: Tier) -> BoxedStrategy<SysCase> {
        let (lo, hi) = if tier == Tier::Thorough { (16usize, 64usize) } else { (8, 32) };
        let combos = crate::sys::cluster::all_tcp_combos();
        (
            proptest::sample::select(combos),
            proptest::collection::vec(crate::props::c01::flow_strategy(40_000, 5), lo..=hi),
            2u8..=16,
            1u64..1_000_000,
            0u8..3,
            proptest::collection::vec((0u8..4, 0u8..3, crate::props::c02::size_strategy(Tier::Quick), any::<bool>()), 4..40),
        )
            .prop_map(|((proto, transport), flows, workers, seed, n_users, sends)| {
                let mut spec = crate::sys::cluster::Spec::new(proto, transport);
                spec.workers = workers;
                spec.seed = seed;
                spec.n_users = n_users;
                let udp = if crate::sys::cluster::Spec::udp_supported(proto, transport) {
                    let mut us = spec.clone();
                    us.udp = true;
                    Some(crate::props::c02::Case { spec: us, apps: 4, targets: 3, sends: sends.into_iter().map(|(app, target, size, by_name)| crate::props::c02::Send { app, target, size: size.min(9000), by_name }).collect(), reply_delay_ms: vec![0, 12, 0] })
                } else {
                    None
                };
                SysCase { tcp: crate::props::c01::Case { spec, flows, tap: None }, udp }
            })
            .boxed()
    }
    fn workers(&self) -> usize {
        2
    }
    fn max_shrink_iters(&self) -> u32 {
        16
    }
    fn confirm_runs(&self) -> u32 {
        2
    }
    fn exec(&self, c: &SysCase) -> Outcome {
        // one cluster carries TCP flows and UDP sessions at the same time
        let mut tcp = c.tcp.clone();
        if c.udp.is_some() {
            tcp.spec.udp = true;
        }
        let mut out = Outcome::new();
        out.weight = tcp.flows.len() as u64;
        let (r, reruns) = crate::props::c01::exec_confirmed(&tcp);
        for l in r.labels.into_iter().filter(|l| l.starts_with("combo:") || l.starts_with("flows:")) {
            out.label(l);
        }
        if reruns > 0 && r.fail.is_none() {
            out.label("deadline-miss-not-confirmed");
        }
        if tcp.flows.len() >= 2 {
            out.nontrivial(format!("{}|{}|{}", tcp.spec.short(), tcp.flows.len(), tcp.spec.workers));
        }
        if let Some(f) = r.fail {
            out.fail(format!("many-flows/{}/{}", tcp.spec.proto.protocol_name(), f.sig), format!("{} concurrent flows on {} worker threads: {}", tcp.flows.len(), tcp.spec.workers, f.msg));
            return out;
        }
        if let Some(u) = &c.udp {
            let (ru, _) = crate::props::c02::exec_confirmed(u);
            out.label("udp-sessions-too");
            if let Some(f) = ru.fail {
                out.fail(format!("many-flows/{}/udp/{}", u.spec.proto.protocol_name(), f.sig), f.msg);
            }
        }
        out
    }
}

pub fn subs() -> Vec<Box<dyn DynSub>> {
    vec![Box::new(UdpCodecStress), Box::new(TcpSharedContext), Box::new(crate::props::c10::ConcurrentReplay), Box::new(ManyFlows)]
}

pub fn run(ctx: &mut PropCtx) {
    ctx.level = "exploration";
    ctx.rule = "a case is non-trivial when at least two of its sessions / flows overlapped in time on the shared state (measured with Instant, used for the label only); distinct by (protocol, cipher, thread or flow count, size class)".into();
    ctx.assumptions = vec![
        "the harness does not own the schedule: this explores the interleavings the machine produces, with barrier-released threads to make overlap likely".into(),
        "oracle: every operation that succeeds when run alone must give the same result when run concurrently; K identical handshakes => exactly one acceptance; per-flow keystreams make cross-delivery visible".into(),
        "UDP keys are address-stable leaked allocations, as in the binaries (the cipher cache is keyed by key address)".into(),
    ];
    let t = ctx.tier;
    rt::run_sub(ctx, &UdpCodecStress, t.pick(40, 300));
    rt::run_sub(ctx, &TcpSharedContext, t.pick(40, 300));
    rt::run_sub(ctx, &crate::props::c10::ConcurrentReplay, t.pick(60, 1500));
    rt::run_sub(ctx, &ManyFlows, t.pick(10, 120));
}
