//! C09 – Concurrent flows are independent of one another.
//! Codec level: the same operations are run once sequentially and once concurrently on threads that touch the shared
//! state (process-wide datagram cipher cache, per-server salt cache, shared contexts); every per-operation result
//! must be the same. System level: many flows and UDP sessions at once through one client/server pair.
use crate::ev::{Outcome, PropCtx, Tier};
use crate::gen::{self, T0};
use crate::real::{self, to_address, ClientCtx, Proto, ServerCtx};
use crate::refimpl::ss2022::C22;
use crate::refimpl::Addr;
use crate::rt::{self, DynSub, SubCheck};
use bytes::BytesMut;
use proptest::prelude::*;
use proptest::strategy::BoxedStrategy;
use serde::{Deserialize, Serialize};
use std::sync::Barrier;
use std::time::Instant;
use tokio_util::codec::{Decoder, Encoder};

#[derive(Clone, Debug, Serialize, Deserialize)]
pub struct StressCase {
    pub proto: Proto,
    pub n_users: u8,
    pub threads: u8,
    pub ops: u16,
    pub seed: u64,
}

fn ss_protos() -> Vec<Proto> {
    Proto::all().into_iter().filter(|p| matches!(p, Proto::SsLegacy(_) | Proto::Ss22(_))).collect()
}

/// One client session talking to one server codec: `ops` request/reply exchanges. Returns the first deviation.
/// `sudp` is the server's one datagram codec, shared by all sessions as in the running server; `cred` is this
/// session's client credential (its own user where the server has a user table).
fn udp_exchanges(cred: &real::Cred, sudp: &dyn real::ServerUdpDyn, thread: usize, ops: usize, seed: u64) -> Result<usize, String> {
    real::set_clock(Some(T0));
    let cctx = real::ClientUdpCtx::new(cred).map_err(|e| format!("harness: client ctx: {}", e))?;
    let mut cc = cctx.codec();
    let target = to_address(&Addr::V4([10, 0, thread as u8, 1], 1000 + thread as u16)).unwrap();
    for k in 0..ops {
        let payload = gen::keystream(seed ^ ((thread as u64) << 32), k * 7, 20 + (k % 200));
        let mut wire = BytesMut::new();
        rt::catch(|| cc.encode(&payload, target.clone(), &mut wire)).map_err(|p| format!("client encode panicked: {}", p))?.map_err(|e| format!("exchange {}: client encode: {}", k, e))?;
        let (content, addr, sess) = match rt::catch(|| sudp.decode(&mut wire)).map_err(|p| format!("server decode panicked: {}", p))? {
            Ok(Some(x)) => x,
            Ok(None) => return Err(format!("exchange {}: server decoded nothing", k)),
            Err(e) => return Err(format!("exchange {}: server decode: {}", k, e)),
        };
        if content != payload || addr != target {
            return Err(format!("exchange {}: server decoded {} bytes for {:?}, sent {} bytes for {:?}", k, content.len(), addr, payload.len(), target));
        }
        // reply under the session the server saw
        let reply = gen::keystream(seed ^ 0x5555 ^ ((thread as u64) << 32), k * 5, 10 + (k % 100));
        let mut rs = sess;
        rs.server_sid = 0x9900_0000_0000_0000 | thread as u64;
        rs.pid = k as u64 + 1;
        let mut rw = BytesMut::new();
        rt::catch(|| sudp.encode(&reply, target.clone(), &rs, &mut rw)).map_err(|p| format!("server encode panicked: {}", p))?.map_err(|e| format!("exchange {}: server encode: {}", k, e))?;
        match rt::catch(|| cc.decode(&mut rw)).map_err(|p| format!("client decode panicked: {}", p))? {
            Ok(Some((c2, a2))) => {
                if c2 != reply || a2 != target {
                    return Err(format!("exchange {}: client decoded {} reply bytes from {:?}, server sent {} bytes from {:?}", k, c2.len(), a2, reply.len(), target));
                }
            }
            Ok(None) => return Err(format!("exchange {}: client decoded no reply", k)),
            Err(e) => return Err(format!("exchange {}: client decode: {}", k, e)),
        }
    }
    Ok(ops)
}

pub struct UdpCodecStress;

impl SubCheck for UdpCodecStress {
    type Case = StressCase;
    fn name(&self) -> &'static str {
        "udp-codec-stress"
    }
    fn strategy(&self, tier: Tier) -> BoxedStrategy<StressCase> {
        let ops = if tier == Tier::Thorough { 3000u16 } else { 600 };
        (prop_oneof![1 => (proptest::sample::select(ss_protos()), 0u8..5), 1 => (proptest::sample::select(vec![Proto::Ss22(C22::Aes128), Proto::Ss22(C22::Aes256)]), 2u8..6)], 2u8..=16, 50u16..=ops, any::<u64>()).prop_map(|((proto, n_users), threads, ops, seed)| (proto, n_users, threads, ops, seed)).prop_map(|(proto, n_users, threads, ops, seed)| StressCase { proto, n_users, threads, ops, seed }).boxed()
    }
    fn workers(&self) -> usize {
        1
    }
    fn max_shrink_iters(&self) -> u32 {
        12
    }
    fn exec(&self, c: &StressCase) -> Outcome {
        let mut out = Outcome::new();
        // one server (one user table, one datagram codec); every session is its own client, of its own user where
        // the server has users
        let creds: Vec<real::Cred> = (0..c.threads as usize).map(|t| gen::make_cred(c.proto, "stress password", c.seed, c.n_users as usize, t)).collect();
        out.label(format!("proto:{}", c.proto.short()));
        if creds[0].users.len() >= 2 {
            out.label("sessions-of-different-users");
        }
        let Ok(sudp) = real::server_udp(&creds[0]) else { return out };
        let sudp: &dyn real::ServerUdpDyn = sudp.as_ref();
        // alone first: the same exchanges, one session at a time
        for t in 0..c.threads.min(3) as usize {
            if let Err(e) = udp_exchanges(&creds[t], sudp, t, (c.ops as usize).min(60), c.seed) {
                if e.starts_with("harness:") {
                    return out;
                }
                // not a concurrency matter: C03's business
                out.label("fails-alone");
                return out;
            }
        }
        let barrier = Barrier::new(c.threads as usize);
        let mut results: Vec<(Result<usize, String>, Instant, Instant)> = vec![];
        std::thread::scope(|s| {
            let hs: Vec<_> = (0..c.threads as usize)
                .map(|t| {
                    let (cred, barrier) = (&creds[t], &barrier);
                    s.spawn(move || {
                        barrier.wait();
                        let t0 = Instant::now();
                        let r = udp_exchanges(cred, sudp, t, c.ops as usize, c.seed);
                        (r, t0, Instant::now())
                    })
                })
                .collect();
            for h in hs {
                results.push(h.join().unwrap_or_else(|_| (Err("thread panicked".into()), Instant::now(), Instant::now())));
            }
        });
        let overlapped = results.iter().enumerate().any(|(i, a)| results.iter().enumerate().any(|(j, b)| i != j && a.1 < b.2 && b.1 < a.2));
        out.weight = c.threads as u64 * c.ops as u64;
        if overlapped {
            out.nontrivial(format!("{}|{}|{}", c.proto.short(), c.threads, c.ops / 100));
            out.label("sessions-overlapped-in-time");
        }
        for (t, (r, _, _)) in results.iter().enumerate() {
            if let Err(e) = r {
                if e.starts_with("harness:") {
                    continue;
                }
                out.fail(
                    format!("udp-codec-stress/{}/result-differs-from-running-alone", if matches!(c.proto, Proto::Ss22(_)) { "ss-2022" } else { "ss-legacy" }),
                    format!("{} UDP sessions at once ({}): session {} fails although the same exchanges succeed when run alone: {}", c.threads, c.proto.short(), t, e),
                );
                break;
            }
        }
        out
    }
}

// ------------------------------------------------------------------------------------------------ TCP codecs sharing one context

pub struct TcpSharedContext;

fn tcp_round_trips(cctx: &ClientCtx, sctx: &ServerCtx, thread: usize, ops: usize, seed: u64) -> Result<usize, String> {
    real::set_clock(Some(T0));
    let target = Addr::V4([10, 1, thread as u8, 1], 2000 + thread as u16);
    let address = to_address(&target).unwrap();
    for k in 0..ops {
        let mut cc = cctx.codec(&address).map_err(|e| format!("harness: client codec: {}", e))?;
        let mut sc = sctx.codec().map_err(|e| format!("harness: server codec: {}", e))?;
        let up = gen::keystream(seed ^ ((thread as u64) << 40), k * 3, 30 + (k % 300));
        let mut wire = BytesMut::new();
        rt::catch(|| cc.encode(BytesMut::from(&up[..]), &mut wire)).map_err(|p| format!("client encode panicked: {}", p))?.map_err(|e| format!("flow {}: client encode: {}", k, e))?;
        let (items, _, fed) = crate::drive::feed_server(&mut sc, &[wire.to_vec()]);
        if let Some(p) = fed.panic {
            return Err(format!("flow {}: server decode panicked: {}", k, p));
        }
        match crate::drive::flow_of(&items) {
            crate::drive::Flow::Tcp { addr, bytes } => {
                if addr != target || bytes != up {
                    return Err(format!("flow {}: server decoded {} bytes for {:?}; the client sent {} bytes for {:?}", k, bytes.len(), addr, up.len(), target));
                }
            }
            other => return Err(format!("flow {}: a fresh valid request was not accepted: {:?} (err {:?})", k, std::mem::discriminant(&other), fed.err)),
        }
        let down = gen::keystream(seed ^ 0xaaaa ^ ((thread as u64) << 40), k * 11, 40 + (k % 500));
        let mut rw = BytesMut::new();
        rt::catch(|| sc.encode(real::OutboundIn::Tcp(BytesMut::from(&down[..])), &mut rw)).map_err(|p| format!("server encode panicked: {}", p))?.map_err(|e| format!("flow {}: server encode: {}", k, e))?;
        let mut got = vec![];
        loop {
            match rt::catch(|| cc.decode(&mut rw)).map_err(|p| format!("client decode panicked: {}", p))? {
                Ok(Some(b)) => got.extend_from_slice(&b),
                Ok(None) => break,
                Err(e) => return Err(format!("flow {}: client decode: {}", k, e)),
            }
        }
        if got != down {
            return Err(format!("flow {}: client decoded {} response bytes, the server sent {}", k, got.len(), down.len()));
        }
    }
    Ok(ops)
}

impl SubCheck for TcpSharedContext {
    type Case = StressCase;
    fn name(&self) -> &'static str {
        "tcp-shared-context"
    }
    fn strategy(&self, tier: Tier) -> BoxedStrategy<StressCase> {
        let ops = if tier == Tier::Thorough { 1500u16 } else { 300 };
        (prop_oneof![1 => (proptest::sample::select(Proto::all()), 0u8..5), 1 => (proptest::sample::select(vec![Proto::Ss22(C22::Aes128), Proto::Ss22(C22::Aes256), Proto::Vmess(3)]), 2u8..6)], 2u8..=16, 30u16..=ops, any::<u64>()).prop_map(|((proto, n_users), threads, ops, seed)| (proto, n_users, threads, ops, seed)).prop_map(|(proto, n_users, threads, ops, seed)| StressCase { proto, n_users, threads, ops, seed }).boxed()
    }
    fn workers(&self) -> usize {
        1
    }
    fn max_shrink_iters(&self) -> u32 {
        12
    }
    fn exec(&self, c: &StressCase) -> Outcome {
        let mut out = Outcome::new();
        let creds: Vec<real::Cred> = (0..c.threads as usize).map(|t| gen::make_cred(c.proto, "shared context password", c.seed, c.n_users as usize, t)).collect();
        out.label(format!("proto:{}", c.proto.short()));
        if creds[0].users.len() >= 2 {
            out.label("flows-of-different-users");
        }
        let Ok(sctx) = ServerCtx::new(&creds[0]) else { return out };
        let cctxs: Vec<ClientCtx> = match creds.iter().map(ClientCtx::new).collect::<Result<Vec<_>, _>>() {
            Ok(v) => v,
            Err(_) => return out,
        };
        for t in 0..c.threads.min(3) as usize {
            if tcp_round_trips(&cctxs[t], &sctx, t, (c.ops as usize).min(40), c.seed ^ 1).is_err() {
                out.label("fails-alone");
                return out;
            }
        }
        let barrier = Barrier::new(c.threads as usize);
        let mut results: Vec<(Result<usize, String>, Instant, Instant)> = vec![];
        std::thread::scope(|s| {
            let hs: Vec<_> = (0..c.threads as usize)
                .map(|t| {
                    let (cctx, sctx, barrier) = (&cctxs[t], &sctx, &barrier);
                    s.spawn(move || {
                        barrier.wait();
                        let t0 = Instant::now();
                        let r = tcp_round_trips(cctx, sctx, t, c.ops as usize, c.seed);
                        (r, t0, Instant::now())
                    })
                })
                .collect();
            for h in hs {
                results.push(h.join().unwrap_or_else(|_| (Err("thread panicked".into()), Instant::now(), Instant::now())));
            }
        });
        let overlapped = results.iter().enumerate().any(|(i, a)| results.iter().enumerate().any(|(j, b)| i != j && a.1 < b.2 && b.1 < a.2));
        out.weight = c.threads as u64 * c.ops as u64;
        if overlapped {
            out.nontrivial(format!("{}|{}|{}", c.proto.short(), c.threads, c.ops / 100));
            out.label("flows-overlapped-in-time");
        }
        for (t, (r, _, _)) in results.iter().enumerate() {
            if let Err(e) = r {
                if e.starts_with("harness:") {
                    continue;
                }
                out.fail(
                    format!("tcp-shared-context/{}/result-differs-from-running-alone", c.proto.protocol_name()),
                    format!("{} threads of flows on one shared context ({}): thread {} fails although the same flows succeed when run alone: {}", c.threads, c.proto.short(), t, e),
                );
                break;
            }
        }
        out
    }
}

// ------------------------------------------------------------------------------------------------ system level

#[derive(Clone, Debug, Serialize, Deserialize)]
pub struct SysCase {
    pub tcp: crate::props::c01::Case,
    /// UDP histories run at the same time through a second cluster of the same kind (when the combination relays UDP)
    pub udp: Option<crate::props::c02::Case>,
}

pub struct ManyFlows;

impl SubCheck for ManyFlows {
    type Case = SysCase;
    fn name(&self) -> &'static str {
        "many-flows"
    }
    fn strategy(&self, tier: Tier) -> BoxedStrategy<SysCase> {
        let (lo, hi) = if tier == Tier::Thorough { (16usize, 64usize) } else { (8, 32) };
        let combos = crate::sys::cluster::all_tcp_combos();
        (
            proptest::sample::select(combos),
            proptest::collection::vec(crate::props::c01::flow_strategy(40_000, 5), lo..=hi),
            2u8..=16,
            1u64..1_000_000,
            0u8..3,
            proptest::collection::vec((0u8..4, 0u8..3, crate::props::c02::size_strategy(Tier::Quick), any::<bool>()), 4..40),
        )
            .prop_map(|((proto, transport), flows, workers, seed, n_users, sends)| {
                let mut spec = crate::sys::cluster::Spec::new(proto, transport);
                spec.workers = workers;
                spec.seed = seed;
                spec.n_users = n_users;
                let udp = if crate::sys::cluster::Spec::udp_supported(proto, transport) {
                    let mut us = spec.clone();
                    us.udp = true;
                    Some(crate::props::c02::Case { spec: us, apps: 4, targets: 3, sends: sends.into_iter().map(|(app, target, size, by_name)| crate::props::c02::Send { app, target, size: size.min(9000), by_name }).collect(), reply_delay_ms: vec![0, 12, 0] })
                } else {
                    None
                };
                SysCase { tcp: crate::props::c01::Case { spec, flows, tap: None }, udp }
            })
            .boxed()
    }
    fn workers(&self) -> usize {
        2
    }
    fn max_shrink_iters(&self) -> u32 {
        16
    }
    fn confirm_runs(&self) -> u32 {
        2
    }
    fn exec(&self, c: &SysCase) -> Outcome {
        // one cluster carries TCP flows and UDP sessions at the same time
        let mut tcp = c.tcp.clone();
        if c.udp.is_some() {
            tcp.spec.udp = true;
        }
        let mut out = Outcome::new();
        out.weight = tcp.flows.len() as u64;
        let (r, reruns) = crate::props::c01::exec_confirmed(&tcp);
        for l in r.labels.into_iter().filter(|l| l.starts_with("combo:") || l.starts_with("flows:")) {
            out.label(l);
        }
        if reruns > 0 && r.fail.is_none() {
            out.label("deadline-miss-not-confirmed");
        }
        if tcp.flows.len() >= 2 {
            out.nontrivial(format!("{}|{}|{}", tcp.spec.short(), tcp.flows.len(), tcp.spec.workers));
        }
        if let Some(f) = r.fail {
            out.fail(format!("many-flows/{}/{}", tcp.spec.proto.protocol_name(), f.sig), format!("{} concurrent flows on {} worker threads: {}", tcp.flows.len(), tcp.spec.workers, f.msg));
            return out;
        }
        if let Some(u) = &c.udp {
            let (ru, _) = crate::props::c02::exec_confirmed(u);
            out.label("udp-sessions-too");
            if let Some(f) = ru.fail {
                out.fail(format!("many-flows/{}/udp/{}", u.spec.proto.protocol_name(), f.sig), f.msg);
            }
        }
        out
    }
}


// ------------------------------------------------------------------------------------------------ harness-owned interleavings
//
// The stress sub-checks above leave the interleaving to the machine. Here the harness owns it, at the granularity of
// codec calls: several TCP flows and UDP sessions on one server context / one datagram codec (and per user one client
// context) are advanced one call at a time in a generated order - client encodes a write, the server reads a segment,
// the server encodes an answer, the client reads a segment - on one thread. Every order is reproducible and shrinks;
// whatever a session observes must be what its own writes say, and a session that deviates is re-run alone before the
// deviation is attributed to sharing.

#[derive(Clone, Debug, Serialize, Deserialize)]
pub struct StepSession {
    /// a Shadowsocks UDP session instead of a TCP flow (Shadowsocks only; ignored elsewhere)
    pub udp: bool,
    pub user: u8,
    pub ups: Vec<u32>,
    pub downs: Vec<u32>,
    /// segment sizes used cyclically when wire bytes are handed to a decoder (TCP)
    pub seg: Vec<u16>,
    /// preferences among the four kinds of call, used cyclically
    pub script: Vec<u8>,
    /// Shadowsocks 2022 UDP sessions only: the client side is the reference implementation with this *chosen* client
    /// session id (sessions, also of different users, that name the same value share it), instead of the real client codec
    /// with its random id
    #[serde(default)]
    pub ref_sid: Option<u8>,
}

#[derive(Clone, Debug, Serialize, Deserialize)]
pub struct StepCase {
    pub proto: Proto,
    pub n_users: u8,
    pub seed: u64,
    pub sessions: Vec<StepSession>,
    /// which session makes the next call (index modulo the number of unfinished sessions); round-robin afterwards
    pub schedule: Vec<u8>,
}

struct TcpSt {
    cc: real::ClientTcp,
    sc: real::ServerTcp,
    up_wire: Vec<u8>,
    sbuf: BytesMut,
    items: Vec<real::Item>,
    down_wire: Vec<u8>,
    cbuf: BytesMut,
    got_down: Vec<u8>,
    s_fed: bool,
    c_fed: bool,
}

struct RefCli {
    c22: C22,
    keys: crate::refside::RefKeys,
    sid: u64,
}

struct UdpSt {
    refc: Option<RefCli>,
    /// user the server must attribute this session's datagrams to (None: no user table)
    want_user: Option<String>,
    cc: Box<dyn real::ClientUdpDyn>,
    up_q: std::collections::VecDeque<(usize, BytesMut)>,
    down_q: std::collections::VecDeque<(usize, BytesMut)>,
    sess: Option<real::USession>,
    up_seen: usize,
    down_seen: usize,
}

enum Kind {
    Tcp(Box<TcpSt>),
    Udp(Box<UdpSt>),
}

struct StepSt<'a> {
    idx: usize,
    plan: &'a StepSession,
    kind: Kind,
    target: Addr,
    next_up: usize,
    next_down: usize,
    calls: usize,
    done: bool,
}

struct Shared {
    sctx: ServerCtx,
    sudp: Option<Box<dyn real::ServerUdpDyn>>,
    cctx: Vec<ClientCtx>,
    cudp: Vec<Option<real::ClientUdpCtx>>,
}

fn step_shared(c: &StepCase) -> Result<Shared, String> {
    let n = (c.n_users as usize).max(1);
    let creds: Vec<real::Cred> = (0..n).map(|u| gen::make_cred(c.proto, "interleaving password", c.seed, c.n_users as usize, u)).collect();
    let sctx = ServerCtx::new(&creds[0]).map_err(|e| format!("harness: server ctx: {}", e))?;
    let is_ss = matches!(c.proto, Proto::SsLegacy(_) | Proto::Ss22(_));
    let sudp = if is_ss && c.sessions.iter().any(|s| s.udp) { Some(real::server_udp(&creds[0]).map_err(|e| format!("harness: server udp: {}", e))?) } else { None };
    let mut cctx = vec![];
    let mut cudp = vec![];
    for cr in &creds {
        cctx.push(ClientCtx::new(cr).map_err(|e| format!("harness: client ctx: {}", e))?);
        cudp.push(if sudp.is_some() { Some(real::ClientUdpCtx::new(cr).map_err(|e| format!("harness: client udp ctx: {}", e))?) } else { None });
    }
    Ok(Shared { sctx, sudp, cctx, cudp })
}

fn step_payload(seed: u64, idx: usize, down: bool, k: usize, len: u32) -> Vec<u8> {
    gen::keystream(seed ^ ((idx as u64 + 1) << 36) ^ if down { 0x7777_0000 } else { 0 }, k * 70_001, len as usize)
}

fn step_new<'a>(c: &StepCase, sh: &Shared, idx: usize, plan: &'a StepSession, alone: bool) -> Result<StepSt<'a>, String> {
    let nusers = sh.cctx.len();
    let u = plan.user as usize % nusers;
    let target = Addr::V4([10, 9, (idx / 200) as u8, (idx % 200) as u8 + 1], 3000 + idx as u16);
    let address = to_address(&target).unwrap();
    let kind = if plan.udp && sh.sudp.is_some() {
        let cred = gen::make_cred(c.proto, "interleaving password", c.seed, c.n_users as usize, u);
        let want_user = if cred.users.is_empty() { None } else { Some(cred.users[u % cred.users.len()].0.clone()) };
        let refc = match (plan.ref_sid, c.proto) {
            // the id is this case's own (the implementation keeps per-session state in a process-wide cache for 30 s), and the
            // re-run of a single session uses yet another one: "alone" means without anything the other sessions left behind
            (Some(v), Proto::Ss22(c22)) => crate::refside::ref_keys(&cred).ok().map(|keys| RefCli { c22, keys, sid: 0x51d0_0000_0000_0000 | ((c.seed & 0xffff_ffff) << 8) | v as u64 | if alone { 1 << 44 } else { 0 } }),
            _ => None,
        };
        Kind::Udp(Box::new(UdpSt { refc, want_user, cc: sh.cudp[u].as_ref().unwrap().codec(), up_q: Default::default(), down_q: Default::default(), sess: None, up_seen: 0, down_seen: 0 }))
    } else {
        Kind::Tcp(Box::new(TcpSt {
            cc: sh.cctx[u].codec(&address).map_err(|e| format!("harness: client codec: {}", e))?,
            sc: sh.sctx.codec().map_err(|e| format!("harness: server codec: {}", e))?,
            up_wire: vec![],
            sbuf: BytesMut::new(),
            items: vec![],
            down_wire: vec![],
            cbuf: BytesMut::new(),
            got_down: vec![],
            s_fed: false,
            c_fed: false,
        }))
    };
    Ok(StepSt { idx, plan, kind, target, next_up: 0, next_down: 0, calls: 0, done: false })
}

/// One call of one session. Err = the session observed something its own writes do not explain.
fn step_once(c: &StepCase, sh: &Shared, st: &mut StepSt) -> Result<(), String> {
    let plan = st.plan;
    let pref = if plan.script.is_empty() { 0 } else { plan.script[st.calls % plan.script.len()] as usize };
    let seg_len = |calls: usize| -> usize {
        if plan.seg.is_empty() {
            usize::MAX
        } else {
            match plan.seg[calls % plan.seg.len()] as usize {
                0 => usize::MAX,
                n => n,
            }
        }
    };
    let is22 = matches!(c.proto, Proto::Ss22(_));
    let address = to_address(&st.target).unwrap();
    st.calls += 1;
    match &mut st.kind {
        Kind::Tcp(t) => {
            let server_ready = !t.items.is_empty();
            for d in 0..4 {
                match (pref + d) % 4 {
                    0 if st.next_up < plan.ups.len() => {
                        let w = step_payload(c.seed, st.idx, false, st.next_up, plan.ups[st.next_up]);
                        st.next_up += 1;
                        let mut wire = BytesMut::new();
                        rt::catch(|| t.cc.encode(BytesMut::from(&w[..]), &mut wire)).map_err(|p| format!("client encode panicked: {}", p))?.map_err(|e| format!("client encode: {}", e))?;
                        t.up_wire.extend_from_slice(&wire);
                        return Ok(());
                    }
                    1 if !t.up_wire.is_empty() => {
                        // Shadowsocks 2022 wants salt and fixed header in the first read: the first hand-over is whole
                        let n = if is22 && !t.s_fed { t.up_wire.len() } else { seg_len(st.calls).min(t.up_wire.len()) };
                        t.s_fed = true;
                        let seg: Vec<u8> = t.up_wire.drain(..n).collect();
                        t.sbuf.extend_from_slice(&seg);
                        loop {
                            match rt::catch(|| t.sc.decode(&mut t.sbuf)).map_err(|p| format!("server decode panicked: {}", p))? {
                                Ok(Some(it)) => t.items.push(real::Item::from_inbound(&it).0),
                                Ok(None) => break,
                                Err(e) => return Err(format!("server decode: {}", e)),
                            }
                        }
                        return Ok(());
                    }
                    2 if st.next_down < plan.downs.len() && server_ready => {
                        let w = step_payload(c.seed, st.idx, true, st.next_down, plan.downs[st.next_down]);
                        st.next_down += 1;
                        let mut wire = BytesMut::new();
                        rt::catch(|| t.sc.encode(real::OutboundIn::Tcp(BytesMut::from(&w[..])), &mut wire)).map_err(|p| format!("server encode panicked: {}", p))?.map_err(|e| format!("server encode: {}", e))?;
                        t.down_wire.extend_from_slice(&wire);
                        return Ok(());
                    }
                    3 if !t.down_wire.is_empty() => {
                        let n = if is22 && !t.c_fed { t.down_wire.len() } else { seg_len(st.calls).min(t.down_wire.len()) };
                        t.c_fed = true;
                        let seg: Vec<u8> = t.down_wire.drain(..n).collect();
                        t.cbuf.extend_from_slice(&seg);
                        loop {
                            match rt::catch(|| t.cc.decode(&mut t.cbuf)).map_err(|p| format!("client decode panicked: {}", p))? {
                                Ok(Some(b)) => t.got_down.extend_from_slice(&b),
                                Ok(None) => break,
                                Err(e) => return Err(format!("client decode: {}", e)),
                            }
                        }
                        return Ok(());
                    }
                    _ => {}
                }
            }
            st.done = true;
            Ok(())
        }
        Kind::Udp(u) => {
            let sudp = sh.sudp.as_ref().unwrap();
            for d in 0..4 {
                match (pref + d) % 4 {
                    0 if st.next_up < plan.ups.len() => {
                        let k = st.next_up;
                        let w = step_payload(c.seed, st.idx, false, k, plan.ups[k].min(1400));
                        st.next_up += 1;
                        let mut wire = BytesMut::new();
                        if let Some(r) = &u.refc {
                            let p = crate::refimpl::ss2022::UdpClientPacket {
                                sid: r.sid,
                                pid: st.idx as u64 * 100_000 + k as u64 + 1,
                                typ: 0,
                                ts: T0,
                                padding: vec![],
                                addr: st.target.clone(),
                                payload: w.clone(),
                                xnonce: if r.c22.is_aes() { vec![] } else { gen::keystream(c.seed ^ 0xabcd, (st.idx * 1000 + k) * 24, 24) },
                            };
                            wire.extend_from_slice(&crate::refimpl::ss2022::encode_udp_client(r.c22, &r.keys.client_upsk, &r.keys.client_ipsks, &p));
                        } else {
                            rt::catch(|| u.cc.encode(&w, address.clone(), &mut wire)).map_err(|p| format!("client encode panicked: {}", p))?.map_err(|e| format!("datagram {}: client encode: {}", k, e))?;
                        }
                        u.up_q.push_back((k, wire));
                        return Ok(());
                    }
                    1 if !u.up_q.is_empty() => {
                        let (k, mut wire) = u.up_q.pop_front().unwrap();
                        let want = step_payload(c.seed, st.idx, false, k, plan.ups[k].min(1400));
                        match rt::catch(|| sudp.decode(&mut wire)).map_err(|p| format!("server decode panicked: {}", p))? {
                            Ok(Some((content, addr, sess))) => {
                                if content != want || addr != address {
                                    return Err(format!("datagram {}: server decoded {} bytes for {:?}, the session sent {} bytes for {:?}", k, content.len(), addr, want.len(), address));
                                }
                                if sess.user != u.want_user {
                                    return Err(format!("datagram {}: the server attributes it to user {:?}; it was sealed under the key of {:?}", k, sess.user, u.want_user));
                                }
                                if let Some(prev) = &u.sess {
                                    if prev.client_sid != sess.client_sid || prev.user != sess.user {
                                        return Err(format!("datagram {}: attributed to session {:x} user {:?}, earlier datagrams of the same codec to {:x} user {:?}", k, sess.client_sid, sess.user, prev.client_sid, prev.user));
                                    }
                                }
                                u.sess = Some(sess);
                                u.up_seen += 1;
                            }
                            Ok(None) => return Err(format!("datagram {}: server decoded nothing", k)),
                            Err(e) => return Err(format!("datagram {}: server decode: {}", k, e)),
                        }
                        return Ok(());
                    }
                    2 if st.next_down < plan.downs.len() && u.sess.is_some() => {
                        let k = st.next_down;
                        let w = step_payload(c.seed, st.idx, true, k, plan.downs[k].min(1400));
                        st.next_down += 1;
                        let mut rs = u.sess.clone().unwrap();
                        rs.server_sid = 0x7700_0000_0000_0000 | st.idx as u64;
                        rs.pid = k as u64 + 1;
                        let mut wire = BytesMut::new();
                        rt::catch(|| sudp.encode(&w, address.clone(), &rs, &mut wire)).map_err(|p| format!("server encode panicked: {}", p))?.map_err(|e| format!("reply {}: server encode: {}", k, e))?;
                        u.down_q.push_back((k, wire));
                        return Ok(());
                    }
                    3 if !u.down_q.is_empty() => {
                        let (k, mut wire) = u.down_q.pop_front().unwrap();
                        let want = step_payload(c.seed, st.idx, true, k, plan.downs[k].min(1400));
                        if let Some(r) = &u.refc {
                            match crate::refimpl::ss2022::decode_udp_server(r.c22, &r.keys.client_upsk, &wire) {
                                Ok(d) if d.pkt.payload == want && d.pkt.addr == st.target && d.pkt.client_sid == r.sid => {
                                    u.down_seen += 1;
                                    return Ok(());
                                }
                                Ok(d) => return Err(format!("reply {}: under the user's key the reply opens to {} bytes from {:?} for client session {:#x}; the server was given {} bytes from {:?} for {:#x}", k, d.pkt.payload.len(), d.pkt.addr, d.pkt.client_sid, want.len(), st.target, r.sid)),
                                Err(e) => return Err(format!("reply {}: does not open under the key of the session's user ({:?}): {}", k, u.want_user, e)),
                            }
                        }
                        match rt::catch(|| u.cc.decode(&mut wire)).map_err(|p| format!("client decode panicked: {}", p))? {
                            Ok(Some((content, addr))) => {
                                if content != want || addr != address {
                                    return Err(format!("reply {}: client decoded {} bytes from {:?}, the server sent {} bytes from {:?}", k, content.len(), addr, want.len(), address));
                                }
                                u.down_seen += 1;
                            }
                            Ok(None) => return Err(format!("reply {}: client decoded nothing", k)),
                            Err(e) => return Err(format!("reply {}: client decode: {}", k, e)),
                        }
                        return Ok(());
                    }
                    _ => {}
                }
            }
            st.done = true;
            Ok(())
        }
    }
}

/// What the session must have observed once it has nothing left to do.
fn step_verdict(c: &StepCase, st: &StepSt) -> Result<(), String> {
    match &st.kind {
        Kind::Tcp(t) => {
            if st.plan.ups.is_empty() {
                return Ok(());
            }
            let mut up = vec![];
            for (k, l) in st.plan.ups.iter().enumerate() {
                up.extend_from_slice(&step_payload(c.seed, st.idx, false, k, *l));
            }
            match crate::drive::flow_of(&t.items) {
                crate::drive::Flow::Tcp { addr, bytes } => {
                    if addr != st.target {
                        return Err(format!("the server decoded target {:?}, the flow asked for {:?}", addr, st.target));
                    }
                    if bytes != up {
                        let at = bytes.iter().zip(up.iter()).position(|(a, b)| a != b).unwrap_or(bytes.len().min(up.len()));
                        return Err(format!("the server decoded {} upload bytes, the flow wrote {}; first difference at {}", bytes.len(), up.len(), at));
                    }
                }
                other => return Err(format!("the server did not accept the flow's request: {:?}", std::mem::discriminant(&other))),
            }
            let mut down = vec![];
            for (k, l) in st.plan.downs.iter().enumerate().take(st.next_down) {
                down.extend_from_slice(&step_payload(c.seed, st.idx, true, k, *l));
            }
            if t.got_down != down {
                let at = t.got_down.iter().zip(down.iter()).position(|(a, b)| a != b).unwrap_or(t.got_down.len().min(down.len()));
                return Err(format!("the client decoded {} answer bytes, the server wrote {}; first difference at {}", t.got_down.len(), down.len(), at));
            }
            Ok(())
        }
        Kind::Udp(u) => {
            if u.up_seen != st.next_up || u.down_seen != st.next_down {
                return Err(format!("{} of {} datagrams and {} of {} replies were decoded", u.up_seen, st.next_up, u.down_seen, st.next_down));
            }
            Ok(())
        }
    }
}

/// Runs the sessions listed in `only` (all when None) in the case's order. Returns (first deviation, order of calls).
fn step_run(c: &StepCase, only: Option<usize>) -> Result<(Option<(usize, String)>, Vec<u8>), String> {
    real::set_clock(Some(T0));
    let sh = step_shared(c)?;
    let mut sts: Vec<StepSt> = vec![];
    for (i, p) in c.sessions.iter().enumerate() {
        if only.map(|o| o == i).unwrap_or(true) {
            sts.push(step_new(c, &sh, i, p, only.is_some())?);
        }
    }
    let mut order: Vec<u8> = vec![];
    let mut sched = c.schedule.iter();
    let mut rr = 0usize;
    let mut guard = 0usize;
    loop {
        let live: Vec<usize> = (0..sts.len()).filter(|i| !sts[*i].done).collect();
        if live.is_empty() {
            break;
        }
        guard += 1;
        if guard > 200_000 {
            return Err("harness: interleaving did not terminate".into());
        }
        let pick = match sched.next() {
            Some(s) => live[*s as usize % live.len()],
            None => {
                rr += 1;
                live[rr % live.len()]
            }
        };
        order.push(sts[pick].idx as u8);
        if let Err(e) = step_once(c, &sh, &mut sts[pick]) {
            return Ok((Some((sts[pick].idx, e)), order));
        }
        if sts[pick].done {
            if let Err(e) = step_verdict(c, &sts[pick]) {
                return Ok((Some((sts[pick].idx, e)), order));
            }
        }
    }
    Ok((None, order))
}

pub struct InterleavedSteps;

impl SubCheck for InterleavedSteps {
    type Case = StepCase;
    fn name(&self) -> &'static str {
        "interleaved-steps"
    }
    fn strategy(&self, tier: Tier) -> BoxedStrategy<StepCase> {
        let max_s = if tier == Tier::Thorough { 10usize } else { 6 };
        let sess = (
            prop::bool::weighted(0.45),
            0u8..6,
            gen::write_lens(5, tier == Tier::Thorough).prop_map(|mut v| {
                if v.is_empty() {
                    v.push(33);
                }
                for x in v.iter_mut() {
                    *x = (*x).max(1);
                }
                v
            }),
            gen::write_lens(4, false).prop_map(|v| v.into_iter().map(|x| x.max(1)).collect::<Vec<u32>>()),
            proptest::collection::vec(prop_oneof![3 => Just(0u16), 2 => 1u16..40, 2 => 40u16..600, 1 => 600u16..9000], 0..5),
            proptest::collection::vec(0u8..4, 0..6),
            prop_oneof![2 => Just(None), 3 => (0u8..2).prop_map(Some)],
        )
            .prop_map(|(udp, user, ups, downs, seg, script, ref_sid)| StepSession { udp, user, ups, downs, seg, script, ref_sid });
        (gen::proto_strategy(), 0u8..5, any::<u64>(), proptest::collection::vec(sess, 2..=max_s), proptest::collection::vec(any::<u8>(), 0..300))
            .prop_map(|(proto, n_users, seed, sessions, schedule)| StepCase { proto, n_users, seed, sessions, schedule })
            .boxed()
    }
    fn exec(&self, c: &StepCase) -> Outcome {
        let mut out = Outcome::new();
        out.label(format!("proto:{}", c.proto.short()));
        let (dev, order) = match step_run(c, None) {
            Ok(x) => x,
            Err(e) if e.starts_with("harness:") => {
                out.label("harness-could-not-build-case");
                return out;
            }
            Err(e) => {
                out.fail("interleaved-steps/harness", e);
                return out;
            }
        };
        out.weight = order.len().max(1) as u64;
        // interleaved = some session made a call between two calls of another one
        let mut switches = 0usize;
        for w in order.windows(2) {
            if w[0] != w[1] {
                switches += 1;
            }
        }
        let is_ss = matches!(c.proto, Proto::SsLegacy(_) | Proto::Ss22(_));
        let n_udp = if is_ss { c.sessions.iter().filter(|s| s.udp).count() } else { 0 };
        let table = gen::make_cred(c.proto, "interleaving password", c.seed, c.n_users as usize, 0).users.len();
        let users: std::collections::BTreeSet<usize> = c.sessions.iter().map(|s| s.user as usize % (c.n_users as usize).max(1) % table.max(1)).collect();
        if users.len() >= 2 && table >= 2 {
            out.label("sessions-of-different-users");
        }
        if n_udp > 0 && n_udp < c.sessions.len() {
            out.label("tcp-and-udp-mixed");
        }
        if matches!(c.proto, Proto::Ss22(_)) {
            let mut by_sid: std::collections::BTreeMap<u8, std::collections::BTreeSet<usize>> = Default::default();
            for s in c.sessions.iter().filter(|s| s.udp) {
                if let Some(v) = s.ref_sid {
                    by_sid.entry(v).or_default().insert(s.user as usize % (c.n_users as usize).max(1) % table.max(1));
                }
            }
            if by_sid.values().any(|u| u.len() >= 2) {
                out.label("udp-sessions-of-different-users-share-a-session-id");
            }
        }
        if switches >= 3 {
            out.label("calls-interleaved");
            out.nontrivial(format!("{}|{}s|{}u|sw{}", c.proto.short(), c.sessions.len(), n_udp, switches.min(400) / 20));
        }
        if let Some((idx, e)) = dev {
            // the same session alone, same calls in the same order
            match step_run(c, Some(idx)) {
                Ok((None, _)) => {
                    out.fail(
                        format!("interleaved-steps/{}/result-differs-from-running-alone", c.proto.protocol_name()),
                        format!("{} sessions advanced call by call on one shared context ({}): session {} ({}) deviates although the same calls succeed when it runs alone: {}", c.sessions.len(), c.proto.short(), idx, if c.sessions[idx].udp && is_ss { "udp" } else { "tcp" }, e),
                    );
                }
                Ok((Some(_), _)) => {
                    // not a matter of sharing: C03 / C04 decide that
                    out.label("fails-alone");
                }
                Err(_) => {
                    out.label("harness-could-not-build-case");
                }
            }
        }
        out
    }
}

pub fn subs() -> Vec<Box<dyn DynSub>> {
    vec![Box::new(UdpCodecStress), Box::new(TcpSharedContext), Box::new(InterleavedSteps), Box::new(crate::props::c10::ConcurrentReplay), Box::new(ManyFlows)]
}

pub fn run(ctx: &mut PropCtx) {
    ctx.level = "exploration";
    ctx.rule = "a case is non-trivial when at least two of its sessions / flows overlapped in time on the shared state (measured with Instant, used for the label only); distinct by (protocol, cipher, thread or flow count, size class)".into();
    ctx.assumptions = vec![
        "the harness does not own the schedule: this explores the interleavings the machine produces, with barrier-released threads to make overlap likely".into(),
        "oracle: every operation that succeeds when run alone must give the same result when run concurrently; K identical handshakes => exactly one acceptance; per-flow keystreams make cross-delivery visible".into(),
        "UDP keys are address-stable leaked allocations, as in the binaries (the cipher cache is keyed by key address)".into(),
    ];
    let t = ctx.tier;
    rt::run_sub(ctx, &UdpCodecStress, t.pick(40, 300));
    rt::run_sub(ctx, &TcpSharedContext, t.pick(40, 300));
    rt::run_sub(ctx, &InterleavedSteps, t.pick(15_000, 600_000));
    rt::run_sub(ctx, &crate::props::c10::ConcurrentReplay, t.pick(60, 1500));
    rt::run_sub(ctx, &ManyFlows, t.pick(10, 120));
}
