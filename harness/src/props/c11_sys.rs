//! C11 system half (Engine B): what the real server and the real client do with refused packet ids.
//! A reference client sends a generated id history to the real server (the scripted target must receive exactly the
//! model-accepted datagrams, and fresh ids afterwards must still arrive); a reference server answers the real client
//! with a generated reply-id history (the local application must receive exactly the model-accepted replies, and
//! later fresh ones must still arrive).
use crate::ev::{Outcome, PropCtx, Tier};
use crate::props::c11::{concretize, History, Model};
use crate::real::Proto;
use crate::refimpl::ss2022::C22;
use crate::refimpl::Addr;
use crate::rt::{self, DynSub, SubCheck};
use crate::sys::cluster::{ClientOnly, Cluster, Spec, Transport};
use crate::sys::net::{self, UdpTarget};
use crate::sys::refpeer::{RefUdpClient, RefUdpServer};
use proptest::prelude::*;
use proptest::strategy::BoxedStrategy;
use serde::{Deserialize, Serialize};
use std::net::{Ipv4Addr, SocketAddr, SocketAddrV4};
use std::time::{Duration, Instant};

#[derive(Clone, Debug, Serialize, Deserialize)]
pub struct SysCase {
    pub cipher: C22,
    pub n_users: u8,
    pub seed: u64,
    pub history: History,
}

fn hist_strategy(max: usize) -> BoxedStrategy<History> {
    (proptest::bool::weighted(0.3), proptest::collection::vec(crate::props::c11::op_strategy_pub(), 1..max)).prop_map(|(top, ops)| History { limit: 0, top, ops }).boxed()
}

fn case_strategy(tier: Tier) -> BoxedStrategy<SysCase> {
    let n = if tier == Tier::Quick { 30 } else { 120 };
    (proptest::sample::select(C22::ALL.to_vec()), 0u8..3, 1u64..1_000_000, hist_strategy(n)).prop_map(|(cipher, n_users, seed, history)| SysCase { cipher, n_users, seed, history }).boxed()
}

fn spec_of(c: &SysCase) -> Spec {
    let mut s = Spec::new(Proto::Ss22(c.cipher), Transport::Tcp);
    s.udp = true;
    s.n_users = if c.cipher.is_aes() { c.n_users } else { 0 };
    s.user = (c.seed % 7) as u8;
    s.seed = c.seed;
    s.workers = 2 + (c.seed % 5) as u8;
    s
}

fn payload_for(k: usize, id: u64) -> Vec<u8> {
    let mut v = format!("dgram#{}#", k).into_bytes();
    v.extend_from_slice(&id.to_be_bytes());
    v
}

fn model_bits(ids: &[u64]) -> Vec<bool> {
    let mut m = Model::default();
    ids.iter().map(|id| m.step(*id, u64::MAX)).collect()
}

fn classify(out: &mut Outcome, ids: &[u64], bits: &[bool]) {
    let rejected_then_accepted = bits.iter().position(|b| !*b).map(|p| bits[p..].iter().any(|b| *b)).unwrap_or(false);
    out.weight = ids.len() as u64;
    if rejected_then_accepted {
        let s: String = bits.iter().map(|b| if *b { '1' } else { '0' }).collect();
        out.nontrivial(s);
        out.label("reject-then-accept");
    }
    if bits.iter().any(|b| !*b) {
        out.label("has-refused-id");
    }
}

/// Reference client -> real server.
pub struct ServerSession;

fn exec_server(c: &SysCase) -> (Outcome, bool) {
    let mut out = Outcome::new();
    // histories with runs can be thousands of ids long; a burst of that many datagrams overflows loopback socket buffers,
    // and loss is not what this check is about: the system halves use the first 250 ids
    let (_, mut ids) = concretize(&c.history);
    ids.truncate(250);
    let bits = model_bits(&ids);
    classify(&mut out, &ids, &bits);
    let spec = spec_of(c);
    let mut cl = match Cluster::start(&spec) {
        Ok(cl) => cl,
        Err(e) => {
            out.fail("server-session/start-up", format!("cluster did not start: {}", e));
            return (out, true);
        }
    };
    let target = UdpTarget::spawn(0, false);
    let taddr = Addr::V4([127, 0, 0, 1], target.port);
    let rc = match RefUdpClient::new(&cl.cred, cl.server_port, 0x5e55_0000_0000_0000 ^ c.seed) {
        Ok(rc) => rc,
        Err(e) => {
            out.fail("server-session/harness", e);
            return (out, false);
        }
    };
    // the same session from a second source address now and then (a client behind a NAT that rebinds, or a copy of a
    // datagram injected from elsewhere): the session, and with it the record of accepted ids, is the session id's, not
    // the address's
    let rc2 = RefUdpClient::new(&cl.cred, cl.server_port, rc.sid).ok();
    let mut from_second = 0;
    for (k, id) in ids.iter().enumerate() {
        let second = k > 0 && ((c.seed.rotate_left((k % 61) as u32) ^ k as u64) & 3) == 0;
        match (&rc2, second) {
            (Some(r2), true) => {
                from_second += 1;
                r2.send(*id, &taddr, &payload_for(k, *id));
            }
            _ => {
                rc.send(*id, &taddr, &payload_for(k, *id));
            }
        }
        std::thread::sleep(Duration::from_millis(2));
    }
    if from_second > 0 {
        out.label("some-datagrams-from-a-second-source-address");
    }
    let want: Vec<Vec<u8>> = ids.iter().enumerate().filter(|(k, _)| bits[*k]).map(|(k, id)| payload_for(k, *id)).collect();
    let t0 = Instant::now();
    while target.received().len() < want.len() && t0.elapsed() < Duration::from_millis(if rt::failed_already() { 800 } else { 2500 }) {
        std::thread::sleep(Duration::from_millis(5));
    }
    std::thread::sleep(Duration::from_millis(60));
    let got: Vec<Vec<u8>> = target.received().into_iter().map(|(_, d)| d).collect();
    let mut soft = false;
    // anything delivered that the model refuses (or delivered twice) is a definite violation
    for (i, d) in got.iter().enumerate() {
        let k = ids.iter().enumerate().position(|(k, id)| payload_for(k, *id) == *d);
        match k {
            None => {
                out.fail("server-session/altered-datagram", format!("target received a datagram nobody sent: {}", crate::ev::hex(&d[..d.len().min(32)])));
            }
            Some(k) if !bits[k] => {
                out.fail(
                    "server-session/refused-id-was-forwarded",
                    format!("datagram {} with packet id {} must be refused (history {:?}) but reached the target", k, ids[k], &ids[..=k]),
                );
            }
            Some(k) if got[..i].contains(d) => {
                out.fail("server-session/forwarded-twice", format!("datagram {} with packet id {} reached the target twice", k, ids[k]));
            }
            _ => {}
        }
    }
    if !out.failed() {
        if let Some(k) = (0..ids.len()).find(|k| bits[*k] && !got.contains(&payload_for(*k, ids[*k]))) {
            soft = true;
            out.fail(
                "server-session/acceptable-id-not-forwarded",
                format!(
                    "datagram {} with packet id {} is acceptable (model) but never reached the target; {} of {} acceptable datagrams arrived; history prefix {:?}\n{}",
                    k,
                    ids[k],
                    got.len(),
                    want.len(),
                    &ids[..=k.min(30)],
                    crate::ev::truncate(&cl.logs(6), 1200)
                ),
            );
        }
    }
    // afterwards: the session is still usable (a refusal must not have ended it)
    if !out.failed() {
        let mx = ids.iter().copied().filter(|i| *i < u64::MAX).max().unwrap_or(0);
        if mx < u64::MAX - 3 {
            let before = target.received().len();
            for j in 1..=2u64 {
                rc.send(mx + j, &taddr, &payload_for(10_000 + j as usize, mx + j));
                std::thread::sleep(Duration::from_millis(3));
            }
            let t0 = Instant::now();
            while target.received().len() < before + 2 && t0.elapsed() < Duration::from_millis(if rt::failed_already() { 800 } else { 2500 }) {
                std::thread::sleep(Duration::from_millis(5));
            }
            if target.received().len() < before + 2 {
                soft = true;
                out.fail(
                    "server-session/session-dead-after-refusal",
                    format!(
                        "after the history (with {} refused ids) fresh packet ids {} and {} of the same session no longer reach the target\n{}",
                        bits.iter().filter(|b| !**b).count(),
                        mx + 1,
                        mx + 2,
                        crate::ev::truncate(&cl.logs(6), 1200)
                    ),
                );
            }
        }
    }
    if let Err(h) = cl.health() {
        soft = false;
        out.fail("server-session/process-or-task-died", h);
    }
    (out, soft)
}

impl SubCheck for ServerSession {
    type Case = SysCase;
    fn name(&self) -> &'static str {
        "server-session"
    }
    fn strategy(&self, tier: Tier) -> BoxedStrategy<SysCase> {
        case_strategy(tier)
    }
    fn exec(&self, c: &SysCase) -> Outcome {
        let (out, soft) = exec_server(c);
        if !(out.failed() && soft) || rt::failed_already() {
            return out;
        }
        // two of three executions on fresh clusters must fail before a deadline-decided failure is reported
        let (o2, _) = exec_server(c);
        if o2.failed() {
            return o2;
        }
        let (mut o3, _) = exec_server(c);
        if !o3.failed() {
            o3.label("deadline-miss-not-confirmed");
        }
        o3
    }
    fn workers(&self) -> usize {
        (rt::threads() / 2).clamp(1, 8)
    }
    fn max_shrink_iters(&self) -> u32 {
        30
    }
    fn confirm_runs(&self) -> u32 {
        2
    }
}

/// Reference server -> real client.
pub struct ClientReplies;

fn reply_payload(k: usize, j: usize, pid: u64) -> Vec<u8> {
    let mut v = format!("reply#{}#{}#", k, j).into_bytes();
    v.extend_from_slice(&pid.to_be_bytes());
    v
}

fn exec_client(c: &SysCase) -> (Outcome, bool) {
    let mut out = Outcome::new();
    // histories with runs can be thousands of ids long; a burst of that many datagrams overflows loopback socket buffers,
    // and loss is not what this check is about: the system halves use the first 250 ids
    let (_, mut ids) = concretize(&c.history);
    ids.truncate(250);
    let bits = model_bits(&ids);
    classify(&mut out, &ids, &bits);
    let spec = spec_of(c);
    let cred = spec.cred();
    let mx = ids.iter().copied().filter(|i| *i < u64::MAX).max().unwrap_or(0);
    let fresh: Vec<u64> = if mx < u64::MAX - 3 { vec![mx + 1, mx + 2] } else { vec![] };
    let port = crate::sys::free_port();
    let rs = match RefUdpServer::spawn(&cred, port, 0x5e4f_0000_0000_0000 ^ c.seed, vec![ids.clone(), fresh.clone()], reply_payload) {
        Ok(rs) => rs,
        Err(e) => {
            out.fail("client-replies/harness", e);
            return (out, true);
        }
    };
    let mut co = match ClientOnly::start(&spec, port) {
        Ok(co) => co,
        Err(e) => {
            out.fail("client-replies/start-up", format!("client did not start: {}", e));
            return (out, true);
        }
    };
    let app = net::udp_socket(Duration::from_millis(30));
    let client = SocketAddr::V4(SocketAddrV4::new(Ipv4Addr::LOCALHOST, co.client_port));
    let taddr = Addr::V4([127, 0, 0, 1], 9);
    let recv_for = |dur: Duration, want: usize| -> Vec<Vec<u8>> {
        let t0 = Instant::now();
        let mut v = vec![];
        let mut buf = vec![0u8; 70000];
        let mut last = Instant::now();
        while t0.elapsed() < dur {
            if let Ok((n, _)) = app.recv_from(&mut buf) {
                if let Some((_, body)) = net::parse_socks5_udp(&buf[..n]) {
                    v.push(body);
                } else {
                    v.push(buf[..n].to_vec());
                }
                last = Instant::now();
            }
            if v.len() >= want && last.elapsed() > Duration::from_millis(80) {
                break;
            }
        }
        v
    };
    let wait = Duration::from_millis(if rt::failed_already() { 900 } else { 3000 });
    let _ = app.send_to(&net::socks5_udp(&taddr, b"first"), client);
    let want: Vec<Vec<u8>> = ids.iter().enumerate().filter(|(j, _)| bits[*j]).map(|(j, id)| reply_payload(0, j, *id)).collect();
    let got = recv_for(wait, want.len());
    let mut soft = false;
    for (i, d) in got.iter().enumerate() {
        let j = ids.iter().enumerate().position(|(j, id)| reply_payload(0, j, *id) == *d);
        match j {
            None => {
                out.fail("client-replies/altered-reply", format!("the application received a datagram the reference server did not send: {}", crate::ev::hex(&d[..d.len().min(32)])));
            }
            Some(j) if !bits[j] => {
                out.fail("client-replies/refused-id-was-delivered", format!("reply {} with packet id {} must be refused (history {:?}) but reached the application", j, ids[j], &ids[..=j]));
            }
            Some(j) if got[..i].contains(d) => {
                out.fail("client-replies/delivered-twice", format!("reply {} with packet id {} reached the application twice", j, ids[j]));
            }
            _ => {}
        }
    }
    if !out.failed() {
        if let Some(j) = (0..ids.len()).find(|j| bits[*j] && !got.contains(&reply_payload(0, *j, ids[*j]))) {
            soft = true;
            out.fail(
                "client-replies/acceptable-id-not-delivered",
                format!(
                    "reply {} with packet id {} is acceptable (model) but never reached the application; {} of {} acceptable replies arrived (reference server decoded {} datagrams, {} undecodable); history prefix {:?}\n{}",
                    j,
                    ids[j],
                    got.len(),
                    want.len(),
                    rs.got.lock().unwrap().len(),
                    rs.undecodable.lock().unwrap().len(),
                    &ids[..=j.min(30)],
                    crate::ev::truncate(&co.client.log_tail(6), 1000)
                ),
            );
        }
    }
    if !out.failed() && !fresh.is_empty() {
        let _ = app.send_to(&net::socks5_udp(&taddr, b"second"), client);
        let got2 = recv_for(wait, 2);
        let want2: Vec<Vec<u8>> = fresh.iter().enumerate().map(|(j, id)| reply_payload(1, j, *id)).collect();
        if !want2.iter().all(|w| got2.contains(w)) {
            soft = true;
            out.fail(
                "client-replies/session-dead-after-refusal",
                format!(
                    "after the reply history (with {} refused ids) replies with fresh ids {:?} no longer reach the application (got {} datagrams; reference server decoded {} client datagrams)\n{}",
                    bits.iter().filter(|b| !**b).count(),
                    fresh,
                    got2.len(),
                    rs.got.lock().unwrap().len(),
                    crate::ev::truncate(&co.client.log_tail(6), 1000)
                ),
            );
        }
    }
    if let Err(h) = co.health() {
        soft = false;
        out.fail("client-replies/process-or-task-died", h);
    }
    (out, soft)
}

impl SubCheck for ClientReplies {
    type Case = SysCase;
    fn name(&self) -> &'static str {
        "client-replies"
    }
    fn strategy(&self, tier: Tier) -> BoxedStrategy<SysCase> {
        case_strategy(tier)
    }
    fn exec(&self, c: &SysCase) -> Outcome {
        let (out, soft) = exec_client(c);
        if !(out.failed() && soft) || rt::failed_already() {
            return out;
        }
        // two of three executions on fresh clusters must fail before a deadline-decided failure is reported
        let (o2, _) = exec_client(c);
        if o2.failed() {
            return o2;
        }
        let (mut o3, _) = exec_client(c);
        if !o3.failed() {
            o3.label("deadline-miss-not-confirmed");
        }
        o3
    }
    fn workers(&self) -> usize {
        (rt::threads() / 2).clamp(1, 8)
    }
    fn max_shrink_iters(&self) -> u32 {
        30
    }
    fn confirm_runs(&self) -> u32 {
        2
    }
}

pub fn subs() -> Vec<Box<dyn DynSub>> {
    vec![Box::new(ServerSession), Box::new(ClientReplies)]
}

pub fn run(ctx: &mut PropCtx) {
    rt::run_sub(ctx, &ServerSession, ctx.tier.pick(60, 800));
    rt::run_sub(ctx, &ClientReplies, ctx.tier.pick(60, 800));
}
