//! C01 – TCP relay is byte-transparent end to end for every supported configuration (Engine B).
use crate::ev::{Outcome, PropCtx, Tier};
use crate::real::Proto;
use crate::rt::{self, DynSub, SubCheck};
use crate::sys::cluster::{all_tcp_combos, Cluster, Spec, Transport};
use crate::sys::flow::{run_flow, Ending, FlowFail, FlowScript, Op};
use crate::sys::net::Hs;
use crate::sys::tap::{Policy, Tap};
use proptest::prelude::*;
use proptest::strategy::{BoxedStrategy, ValueTree};
use proptest::test_runner::{Config, RngAlgorithm, TestRng, TestRunner};
use serde::{Deserialize, Serialize};

#[derive(Clone, Debug, Serialize, Deserialize)]
pub struct Case {
    pub spec: Spec,
    /// flows run concurrently through one client/server pair
    pub flows: Vec<FlowScript>,
    /// re-cut the client<->server byte stream (stream transports only): segment sizes up / down, pause in µs
    #[serde(default)]
    pub tap: Option<(Vec<u16>, Vec<u16>, u16)>,
}

pub fn len_strategy(max: u32) -> BoxedStrategy<u32> {
    prop_oneof![
        4 => 1u32..64,
        3 => 64u32..3000,
        2 => proptest::sample::select(vec![1u32, 2, 15, 16, 17, 2030, 2047, 2048, 2049, 8191, 8192, 8193, 16349, 16350, 16383, 16384, 16385]),
        2 => proptest::sample::select(vec![32768u32, 65500, 65501, 65502, 65535, 65536, 65537, 131072]),
        2 => 3000u32..70000,
        1 => 70000u32..=max.max(70001),
    ]
    .prop_map(move |v| v.min(max))
    .boxed()
}

pub fn op_strategy(max: u32) -> BoxedStrategy<Op> {
    prop_oneof![
        4 => len_strategy(max).prop_map(Op::AppWrite),
        4 => len_strategy(max).prop_map(Op::TargetWrite),
        1 => (0u8..8).prop_map(Op::PauseMs),
        1 => Just(Op::Sync),
    ]
    .boxed()
}

pub fn ending_strategy(max: u32) -> BoxedStrategy<Ending> {
    prop_oneof![
        3 => len_strategy(max).prop_map(Ending::TargetCloses),
        2 => len_strategy(max).prop_map(Ending::AppCloses),
        1 => len_strategy(max).prop_map(Ending::AppHalfCloses),
        1 => Just(Ending::TargetCloses(0)),
        1 => Just(Ending::AppCloses(0)),
    ]
    .boxed()
}

pub fn hs_strategy() -> BoxedStrategy<Hs> {
    proptest::sample::select(Hs::ALL.to_vec()).boxed()
}

pub fn flow_strategy(max: u32, max_ops: usize) -> BoxedStrategy<FlowScript> {
    (hs_strategy(), len_strategy(max), proptest::collection::vec(op_strategy(max), 0..=max_ops), ending_strategy(max), prop_oneof![3 => Just(0u16), 1 => 20u16..250], prop_oneof![39 => Just(0u16), 1 => 5200u16..7500])
        .prop_map(|(hs, first, ops, ending, slow_reader_ms, idle_ms)| FlowScript { hs, first, ops, ending, slow_reader_ms, idle_ms })
        .boxed()
}

fn spec_strategy(combo: Option<(Proto, Transport)>) -> BoxedStrategy<Spec> {
    let combo_s: BoxedStrategy<(Proto, Transport)> = match combo {
        Some(c) => Just(c).boxed(),
        None => proptest::sample::select(all_tcp_combos()).boxed(),
    };
    (combo_s, 0u8..3, any::<u8>(), 2u8..=16, 1u64..1_000_000)
        .prop_map(|((proto, transport), n_users, user, workers, seed)| {
            let mut s = Spec::new(proto, transport);
            s.n_users = n_users;
            s.user = user;
            s.workers = workers;
            s.seed = seed;
            s
        })
        .boxed()
}

fn tap_strategy() -> BoxedStrategy<Option<(Vec<u16>, Vec<u16>, u16)>> {
    let sizes = || proptest::collection::vec(prop_oneof![3 => 1u16..40, 2 => 40u16..1500, 1 => 1500u16..20000], 1..6);
    prop_oneof![
        3 => Just(None),
        2 => (sizes(), sizes(), prop_oneof![Just(0u16), 0u16..300]).prop_map(Some),
    ]
    .boxed()
}

pub fn case_strategy(tier: Tier, combo: Option<(Proto, Transport)>) -> BoxedStrategy<Case> {
    let (max, max_flows) = match tier {
        Tier::Quick => (262_144u32, 6usize),
        Tier::Thorough => (4 * 1024 * 1024, 24),
    };
    (spec_strategy(combo), proptest::collection::vec(flow_strategy(max, 8), 1..=max_flows), tap_strategy())
        .prop_map(|(spec, flows, tap)| {
            let tap = if spec.transport.stream_based() { tap } else { None };
            Case { spec, flows, tap }
        })
        .boxed()
}

pub struct CaseResult {
    pub fail: Option<FlowFail>,
    pub nontrivial: bool,
    pub labels: Vec<String>,
}

fn classify(c: &Case, reports: &[(usize, usize, bool)]) -> (bool, Vec<String>) {
    let mut labels = vec![format!("combo:{}/{}", c.spec.proto.short(), c.spec.transport.name())];
    for f in &c.flows {
        labels.push(format!("hs:{}", f.hs.name()));
        labels.push(format!(
            "ending:{}",
            match f.ending {
                Ending::TargetCloses(_) => "target-closes",
                Ending::AppCloses(_) => "app-closes",
                Ending::AppHalfCloses(_) => "app-half-closes",
                _ => "other",
            }
        ));
    }
    if c.flows.iter().any(|f| f.slow_reader_ms > 0) {
        labels.push("slow-reader-at-close".into());
    }
    if c.flows.iter().any(|f| f.idle_ms > 0) {
        labels.push("idle-period-of-5-to-7-s".into());
    }
    labels.push(format!("flows:{}", match c.flows.len() { 1 => "1", 2..=4 => "2-4", 5..=8 => "5-8", _ => ">8" }));
    if c.tap.is_some() {
        labels.push("tap-recut".into());
    }
    if c.spec.n_users > 0 {
        labels.push("user-table".into());
    }
    let mut nontrivial = false;
    for (a, t, inter) in reports {
        labels.push(format!("up:{}", crate::gen::size_class(*a)));
        labels.push(format!("down:{}", crate::gen::size_class(*t)));
        if *a >= 1 && *t >= 1 && (*a > 8192 || *t > 8192 || *inter) {
            nontrivial = true;
        }
    }
    (nontrivial, labels)
}

/// One execution of a case on a fresh cluster.
pub fn exec_once(c: &Case) -> CaseResult {
    let mut spec = c.spec.clone();
    spec.via_tap = c.tap.is_some();
    let mut cl = match Cluster::start(&spec) {
        Ok(cl) => cl,
        Err(e) => {
            return CaseResult {
                fail: Some(FlowFail { soft: true, sig: "start-up".into(), msg: format!("cluster for {} did not start: {}", spec.short(), e) }),
                nontrivial: false,
                labels: vec![],
            }
        }
    };
    let tap_listener = cl.tap_listener.take();
    let _tap = c.tap.as_ref().zip(tap_listener).map(|((up, down, pause), l)| {
        Tap::start(
            l,
            cl.server_port,
            Policy {
                up: up.iter().map(|x| *x as usize).collect(),
                down: down.iter().map(|x| *x as usize).collect(),
                pause_us: *pause as u64,
                first_min: if matches!(spec.proto, Proto::Ss22(_)) { 256 } else { 1 },
                recut_bytes: 48 * 1024,
            },
        )
    });
    let port = cl.client_port;
    let mut results = vec![];
    std::thread::scope(|sc| {
        let hs: Vec<_> = c.flows.iter().enumerate().map(|(i, f)| sc.spawn(move || run_flow(port, f, 1000 + i as u64).0)).collect();
        for h in hs {
            results.push(h.join().unwrap_or_default());
        }
    });
    let reports: Vec<(usize, usize, bool)> = results.iter().map(|r| (r.app_sent, r.tgt_sent, r.interleaved)).collect();
    let (nontrivial, labels) = classify(c, &reports);
    // hard failures first
    let mut fail = results.iter().filter_map(|r| r.fail.clone()).find(|f| !f.soft).or_else(|| results.iter().filter_map(|r| r.fail.clone()).next());
    if let Err(h) = cl.health() {
        fail = Some(FlowFail { soft: false, sig: "process-or-task-died".into(), msg: h });
    }
    if let Some(f) = &mut fail {
        f.msg = format!("{} [{}; flows={}]\n{}", f.msg, spec.short(), c.flows.len(), crate::ev::truncate(&cl.logs(8), 1800));
    }
    CaseResult { fail, nontrivial, labels }
}

/// A failure decided by a deadline is confirmed on two more fresh clusters before it is reported.
pub fn exec_confirmed(c: &Case) -> (CaseResult, u32) {
    // A failure decided by a deadline is reported when it shows in at least two of three executions on fresh clusters
    // (the first one and one of two re-runs): a one-off deadline miss of the machine is not reported, a defect that
    // depends on the implementation's own randomness (one flow in twenty) still is.
    let r = exec_once(c);
    let Some(f) = &r.fail else { return (r, 0) };
    if !f.soft || rt::failed_already() {
        return (r, 0);
    }
    let mut last = exec_once(c);
    if last.fail.is_none() {
        last = exec_once(c);
    }
    if last.fail.is_none() {
        last.labels.push("deadline-miss-not-confirmed".into());
    }
    (last, 2)
}

pub fn outcome_of(prefix: &str, c: &Case) -> Outcome {
    let (r, reruns) = exec_confirmed(c);
    let mut out = Outcome::new();
    out.weight = c.flows.len() as u64;
    for l in r.labels {
        out.label(l);
    }
    if r.nontrivial {
        let sizes: Vec<String> = c.flows.iter().map(|f| format!("{}:{}", f.hs.name(), f.ops.len())).collect();
        out.nontrivial(format!("{}|{}|{}|{:?}", c.spec.proto.short(), c.spec.transport.name(), sizes.join(","), c.tap.is_some()));
    }
    if let Some(f) = r.fail {
        out.fail(format!("{}/{}/{}", prefix, c.spec.proto.protocol_name(), f.sig), f.msg);
    }
    out
}

pub struct Relay;

impl SubCheck for Relay {
    type Case = Case;
    fn name(&self) -> &'static str {
        "relay"
    }
    fn strategy(&self, tier: Tier) -> BoxedStrategy<Case> {
        case_strategy(tier, None)
    }
    fn exec(&self, c: &Case) -> Outcome {
        outcome_of("relay", c)
    }
    fn workers(&self) -> usize {
        (rt::threads() / 2).clamp(1, 8)
    }
    fn max_shrink_iters(&self) -> u32 {
        24
    }
    fn confirm_runs(&self) -> u32 {
        2
    }
}

/// Deterministic sample of a strategy (used to give every README combination its own generated script per run).
pub fn sample<T: std::fmt::Debug>(s: &BoxedStrategy<T>, seed: u64, salt: u64) -> T {
    let mut h = blake3::Hasher::new();
    h.update(&seed.to_le_bytes());
    h.update(&salt.to_le_bytes());
    let rng = TestRng::from_seed(RngAlgorithm::ChaCha, h.finalize().as_bytes());
    let mut runner = TestRunner::new_with_rng(Config::default(), rng);
    s.new_tree(&mut runner).expect("strategy").current()
}


// ---------------------------------------------------------------------------------------------- cold one-shot uploads

#[derive(Clone, Debug, Serialize, Deserialize)]
pub struct ColdCase {
    pub spec: Spec,
    /// (handshake, bytes, delay before the target starts reading in ms) per concurrent flow
    pub uploads: Vec<(Hs, u32, u16)>,
    /// flows in which the target answers this many bytes and half-closes while the application keeps uploading
    #[serde(default)]
    pub busy_answers: Vec<(Hs, u32)>,
    /// flows in which the target answers this many bytes and closes while the application (small receive buffer) does not
    /// read for the given number of milliseconds; it must still get the whole answer and then end-of-stream
    #[serde(default)]
    pub stalled_answers: Vec<(Hs, u32, u32)>,
    /// full-duplex bulk flows (upload bytes, answer bytes): the application writes everything before it reads anything
    /// while the target streams its answer from the start
    #[serde(default)]
    pub duplex: Vec<(Hs, u32, u32)>,
    /// flows whose application is silent for this many milliseconds between the local handshake and its first byte
    #[serde(default)]
    pub late_first: Vec<(Hs, u32)>,
}

pub struct ColdUpload;

fn cold_once(c: &ColdCase) -> (Option<FlowFail>, Vec<String>) {
    let mut labels = vec![format!("combo:{}/{}", c.spec.proto.short(), c.spec.transport.name())];
    let mut cl = match Cluster::start(&c.spec) {
        Ok(cl) => cl,
        Err(e) => return (Some(FlowFail { soft: true, sig: "start-up".into(), msg: format!("cluster for {} did not start: {}", c.spec.short(), e) }), labels),
    };
    let port = cl.client_port;
    let mut fails = vec![];
    std::thread::scope(|sc| {
        let hs: Vec<_> = c.uploads.iter().enumerate().map(|(i, (h, n, d))| sc.spawn(move || crate::sys::flow::cold_upload(port, *h, *n, 3000 + i as u64, *d))).collect();
        let hb: Vec<_> = c.busy_answers.iter().enumerate().map(|(i, (h, n))| sc.spawn(move || crate::sys::flow::answer_during_upload(port, *h, *n, 4000 + i as u64))).collect();
        let hl: Vec<_> = c.stalled_answers.iter().enumerate().map(|(i, (h, n, ms))| sc.spawn(move || crate::sys::flow::stalled_answer(port, *h, *n, 5000 + i as u64, *ms))).collect();
        let hd: Vec<_> = c.duplex.iter().enumerate().map(|(i, (h, u, d))| sc.spawn(move || crate::sys::flow::duplex_bulk(port, *h, *u, *d, 6000 + i as u64))).collect();
        let hf: Vec<_> = c.late_first.iter().enumerate().map(|(i, (h, ms))| sc.spawn(move || crate::sys::flow::late_first_write(port, *h, *ms, 7000 + 2 * i as u64))).collect();
        for h in hs.into_iter().chain(hb).chain(hl).chain(hd).chain(hf) {
            if let Ok(Err(f)) = h.join() {
                fails.push(f);
            }
        }
    });
    if !c.stalled_answers.is_empty() {
        labels.push("answer-waits-for-a-late-reader".into());
    }
    if !c.duplex.is_empty() {
        labels.push("full-duplex-bulk-write-before-read".into());
    }
    if !c.late_first.is_empty() {
        labels.push("silence-between-handshake-and-first-byte".into());
    }
    if !c.busy_answers.is_empty() {
        labels.push("answer-during-upload".into());
    }
    for (_, n, d) in &c.uploads {
        labels.push(format!("upload:{}", crate::gen::size_class(*n as usize)));
        if *d > 0 {
            labels.push("slow-target".into());
        }
    }
    let mut fail = fails.iter().find(|f| !f.soft).cloned().or_else(|| fails.first().cloned());
    if let Err(h) = cl.health() {
        fail = Some(FlowFail { soft: false, sig: "process-or-task-died".into(), msg: h });
    }
    if let Some(f) = &mut fail {
        f.msg = format!("{} [{}; uploads={:?}; answers during upload={:?}; answers for a late reader={:?}; duplex={:?}; late first byte={:?}]\n{}", f.msg, c.spec.short(), c.uploads, c.busy_answers, c.stalled_answers, c.duplex, c.late_first, crate::ev::truncate(&cl.logs(8), 1500));
    }
    (fail, labels)
}

impl SubCheck for ColdUpload {
    type Case = ColdCase;
    fn name(&self) -> &'static str {
        "cold-upload"
    }
    fn strategy(&self, tier: Tier) -> BoxedStrategy<ColdCase> {
        let max = if tier == Tier::Thorough { 6 * 1024 * 1024 } else { 1_500_000u32 };
        let size = prop_oneof![2 => 1u32..70_000, 3 => 70_000u32..=max, 1 => Just(1_048_576u32)];
        let up = (hs_strategy(), size, prop_oneof![3 => Just(0u16), 2 => 1u16..400, 1 => 800u16..1600]);
        let busy = (hs_strategy(), prop_oneof![1 => 1u32..70_000, 2 => 70_000u32..=max]);
        (spec_strategy(None), proptest::collection::vec(up, 0..=6), proptest::collection::vec(busy, 0..=3)).prop_map(|(spec, uploads, busy_answers)| ColdCase { spec, uploads, busy_answers, stalled_answers: vec![], duplex: vec![], late_first: vec![] }).boxed()
    }
    fn exec(&self, c: &ColdCase) -> Outcome {
        let (mut fail, mut labels) = cold_once(c);
        // two of three executions on fresh clusters must fail before a deadline-decided failure is reported
        if fail.as_ref().map(|f| f.soft).unwrap_or(false) && !rt::failed_already() {
            let (f2, l2) = cold_once(c);
            if f2.is_some() {
                fail = f2;
                labels = l2;
            } else {
                let (f3, mut l3) = cold_once(c);
                if f3.is_none() {
                    l3.push("deadline-miss-not-confirmed".into());
                }
                fail = f3;
                labels = l3;
            }
        }
        let mut out = Outcome::new();
        out.weight = (c.uploads.len() + c.busy_answers.len() + c.stalled_answers.len() + c.duplex.len() + c.late_first.len()).max(1) as u64;
        for l in labels {
            out.label(l);
        }
        if !c.late_first.is_empty() {
            out.nontrivial(format!("{}|late-first-byte|{:?}", c.spec.short(), c.late_first.iter().map(|(h, ms)| (h.name(), ms / 1000)).collect::<Vec<_>>()));
        } else if !c.duplex.is_empty() {
            out.nontrivial(format!("{}|duplex|{:?}", c.spec.short(), c.duplex.iter().map(|(h, u, d)| (h.name(), u >> 20, d >> 20)).collect::<Vec<_>>()));
        } else if !c.stalled_answers.is_empty() {
            out.nontrivial(format!("{}|late-reader|{:?}", c.spec.short(), c.stalled_answers.iter().map(|(h, n, ms)| (h.name(), crate::gen::size_class(*n as usize), ms / 1000)).collect::<Vec<_>>()));
        } else if c.uploads.iter().any(|(_, n, _)| *n > 65536) || c.busy_answers.iter().any(|(_, n)| *n > 65536) {
            out.nontrivial(format!("{}|{:?}", c.spec.short(), c.uploads.iter().map(|(h, n, d)| (h.name(), crate::gen::size_class(*n as usize), *d > 0)).collect::<Vec<_>>()));
        }
        if let Some(f) = fail {
            out.fail(format!("cold-upload/{}/{}", c.spec.transport.name(), f.sig), f.msg);
        }
        out
    }
    fn workers(&self) -> usize {
        (rt::threads() / 2).clamp(1, 8)
    }
    fn max_shrink_iters(&self) -> u32 {
        24
    }
    fn confirm_runs(&self) -> u32 {
        6
    }
}

pub fn subs() -> Vec<Box<dyn DynSub>> {
    vec![Box::new(Relay), Box::new(ColdUpload)]
}

pub fn run(ctx: &mut PropCtx) {
    ctx.level = "exploration";
    ctx.rule = "a flow is non-trivial when both directions carry >= 1 byte and at least one direction carries more than 8 KiB (more than one read / protocol frame) or the two directions are interleaved; distinct by (protocol, cipher, transport, handshake kinds, script shape, tap)".into();
    ctx.assumptions = vec![
        "the server dials when the first application bytes arrive (all four wire protocols carry the target address in front of the first payload); scripts therefore start with an application write".into(),
        "bytes in flight towards a side that closes are allowed to be lost; every closing step is preceded by a sync".into(),
        "after an application half-close nothing more is demanded of the reverse direction (the relay ends the flow when either pump ends)".into(),
        "deadline-decided failures (20 s for an event that takes milliseconds) are reported only when they reproduce on three fresh clusters; wrong bytes, extra dials, dead processes are reported at once".into(),
        "localhost resolves to 127.0.0.1 (README: IPv4 only)".into(),
    ];
    if !crate::sys::localhost_is_v4() {
        eprintln!("INCONCLUSIVE: localhost does not resolve to 127.0.0.1 first in this environment");
        std::process::exit(2);
    }
    // every README (protocol, cipher, transport) combination, with a generated script each
    let combos = all_tcp_combos();
    let per = ctx.tier.pick(2, 6) as u64;
    let mut cases = vec![];
    for (i, combo) in combos.iter().enumerate() {
        for k in 0..per {
            let s = case_strategy(ctx.tier, Some(*combo));
            let mut c: Case = sample(&s, ctx.seed, (i as u64) * 16 + k);
            // rotate the handshake kind so that all four meet every combination over a few seeds
            let h = Hs::ALL[((i as u64 + k + ctx.seed) % 4) as usize];
            if let Some(f) = c.flows.first_mut() {
                f.hs = h;
            }
            cases.push(c);
        }
    }
    rt::run_list(ctx, &Relay, "matrix", cases);
    ctx.note("matrix", "every (protocol, cipher, transport) combination of the README table is exercised in every run; scripts, handshake kinds, user tables and worker counts are generated");
    rt::run_sub(ctx, &Relay, ctx.tier.pick(160, 2500));
    // one-shot uploads without any warm-up: handshake, write, close at once
    let mut cold = vec![];
    for (i, combo) in combos.iter().enumerate() {
        let s = ColdUpload.strategy(ctx.tier);
        let mut c: ColdCase = sample(&s, ctx.seed ^ 0xc01d, i as u64);
        c.spec.proto = combo.0;
        c.spec.transport = combo.1;
        cold.push(c);
    }
    rt::run_list(ctx, &ColdUpload, "cold-upload-matrix", cold);
    // answers that wait for a late reader: the application comes back for the answer after every timer of the relay has
    // run out (the flow's 10 s grace after the first clean end, the 2 s drain of the local socket); one transport each in
    // the quick tier, every README combination in the thorough tier
    let mut late = vec![];
    for (i, combo) in combos.iter().enumerate() {
        let pick = ctx.tier == Tier::Thorough || (i as u64) % 11 == ctx.seed % 11;
        if !pick {
            continue;
        }
        let mut spec = Spec::new(combo.0, combo.1);
        spec.seed = ctx.seed.wrapping_mul(977) + i as u64;
        spec.workers = 2 + (i % 5) as u8;
        let h = |k: u64| Hs::ALL[((i as u64 + k + ctx.seed) % 4) as usize];
        late.push(ColdCase { spec, uploads: vec![], busy_answers: vec![], duplex: vec![], late_first: vec![(h(3), 6_500), (h(0), 11_000)], stalled_answers: vec![(h(0), 40_000 + (i as u32 * 997) % 60_000, 14_500), (h(1), 9_000 + (i as u32 * 131) % 20_000, 13_500), (h(2), 300_000, 3_000)] });
    }
    rt::run_list(ctx, &ColdUpload, "late-reader", late);
    // full duplex in bulk, write-before-read: one combination per transport in the quick tier, all of them in thorough
    let mut duplex = vec![];
    for (i, combo) in combos.iter().enumerate() {
        let pick = ctx.tier == Tier::Thorough || (i as u64 + 3) % 11 == ctx.seed % 11;
        if !pick {
            continue;
        }
        let mut spec = Spec::new(combo.0, combo.1);
        spec.seed = ctx.seed.wrapping_mul(613) + i as u64;
        spec.workers = 2 + (i % 4) as u8;
        let h = Hs::ALL[((i as u64 + 2 + ctx.seed) % 4) as usize];
        let mib = 1u32 << 20;
        duplex.push(ColdCase { spec, uploads: vec![], busy_answers: vec![], stalled_answers: vec![], late_first: vec![], duplex: vec![(h, 14 * mib + (i as u32 * 7919) % mib, 9 * mib + (i as u32 * 104729) % mib)] });
    }
    rt::run_list(ctx, &ColdUpload, "duplex-bulk", duplex);
    rt::run_sub(ctx, &ColdUpload, ctx.tier.pick(60, 1000));
}
