//! C03 – Wire format interoperates with the published protocol specifications.
use crate::drive::{cut, encode_all, feed, feed_server, flow_of, Flow};
use crate::ev::{Outcome, PropCtx, Tier};
use crate::gen::{self, size_class, CredGen, Det, T0};
use crate::real::{self, to_address, ClientCtx, Cred, OutboundIn, Proto, ServerCtx};
use crate::refimpl::ss2022::{self, UdpClientPacket, UdpServerPacket};
use crate::refimpl::{ss, trojan, vmess, Addr};
use crate::refside::{self, ReqOpts, RespOpts, SessionInfo};
use crate::rt::{self, DynSub, SubCheck};
use bytes::BytesMut;
use proptest::prelude::*;
use proptest::strategy::BoxedStrategy;
use serde::{Deserialize, Serialize};
use tokio_util::codec::Encoder;

pub fn family(p: Proto) -> &'static str {
    match p {
        Proto::SsLegacy(_) => "ss-legacy",
        Proto::Ss22(_) => "ss-2022",
        Proto::Vmess(_) => "vmess",
        Proto::Trojan => "trojan",
    }
}

#[derive(Clone, Debug, Serialize, Deserialize)]
pub struct TcpCase {
    pub cred: Cred,
    pub addr: Addr,
    pub c2s: Vec<u32>,
    pub s2c: Vec<u32>,
    pub seed: u64,
    pub vmess_mask: u8,
    pub hdr_pad: u8,
    pub ss22_pad: u16,
    pub first_in_header: bool,
}

pub fn tcp_case_strategy(big: bool) -> BoxedStrategy<TcpCase> {
    (
        gen::cred_strategy(),
        gen::addr_strategy(),
        gen::write_lens(5, big),
        gen::write_lens(5, big),
        any::<u64>(),
        proptest::sample::select(vmess::valid_masks()),
        0u8..16,
        prop_oneof![3 => Just(0u16), 2 => 1u16..64, 1 => Just(900u16), 1 => 64u16..900],
        proptest::bool::weighted(0.8),
    )
        .prop_map(|(CredGen { cred, .. }, addr, c2s, s2c, seed, vmess_mask, hdr_pad, ss22_pad, first_in_header)| TcpCase {
            cred,
            addr,
            c2s: c2s.into_iter().map(|l| l.max(1)).collect(),
            s2c: s2c.into_iter().map(|l| l.max(1)).collect(),
            seed,
            vmess_mask,
            hdr_pad,
            ss22_pad,
            first_in_header,
        })
        .boxed()
}

fn classify_tcp(out: &mut Outcome, c: &TcpCase, dir: &str) {
    let tot_c: usize = c.c2s.iter().map(|l| *l as usize).sum();
    let tot_s: usize = c.s2c.iter().map(|l| *l as usize).sum();
    out.label(format!("proto:{}", c.cred.proto.short()));
    out.label(format!("addr:{}", c.addr.kind()));
    if !c.cred.users.is_empty() && matches!(c.cred.proto, Proto::Ss22(_)) {
        out.label("ss2022-user-table");
    }
    let big = c.c2s.iter().chain(c.s2c.iter()).any(|l| *l > 2000);
    if tot_c + tot_s > 0 && (c.c2s.len() >= 2 || c.s2c.len() >= 2 || big) {
        let sc: Vec<&str> = c.c2s.iter().map(|l| size_class(*l as usize)).collect();
        let ss: Vec<&str> = c.s2c.iter().map(|l| size_class(*l as usize)).collect();
        out.nontrivial(format!("{}|{}|{:#x}|{}|{:?}|{:?}|{}", dir, c.cred.proto.short(), c.vmess_mask, c.addr.kind(), sc, ss, c.cred.users.len()));
    }
}

/// impl -> ref, both directions: what the real encoders emit is decoded by the reference.
pub struct TcpImplToRef;

impl SubCheck for TcpImplToRef {
    type Case = TcpCase;
    fn name(&self) -> &'static str {
        "tcp-impl-to-ref"
    }
    fn strategy(&self, tier: Tier) -> BoxedStrategy<TcpCase> {
        tcp_case_strategy(tier == Tier::Thorough || true)
    }
    fn exec(&self, c: &TcpCase) -> Outcome {
        let mut out = Outcome::new();
        let fam = family(c.cred.proto);
        real::set_clock(Some(T0));
        classify_tcp(&mut out, c, "i2r");
        if c.c2s.is_empty() {
            out.label("no-client-write");
            return out;
        }
        let Some(address) = to_address(&c.addr) else {
            return out;
        };
        let cctx = match ClientCtx::new(&c.cred) {
            Ok(x) => x,
            Err(e) => {
                out.fail(format!("tcp-impl-to-ref/{}/client-context-refused-documented-credential", fam), e.to_string());
                return out;
            }
        };
        let mut codec = match cctx.codec(&address) {
            Ok(x) => x,
            Err(e) => {
                out.fail(format!("tcp-impl-to-ref/{}/client-codec-refused", fam), e.to_string());
                return out;
            }
        };
        let c2s = gen::writes_from_lens(c.seed, &c.c2s);
        let want_c: Vec<u8> = c2s.concat();
        let (wire, _) = match encode_all(&mut codec, c2s.iter().map(|w| BytesMut::from(&w[..])).collect::<Vec<_>>()) {
            Ok(x) => x,
            Err(e) => {
                out.fail(format!("tcp-impl-to-ref/{}/client-encode-failed", fam), e);
                return out;
            }
        };
        // (1) the reference server decodes the real client's bytes
        let dec = match refside::ref_server_decode(&c.cred, &wire, T0) {
            Ok(d) => d,
            Err(e) => {
                let what = if e.contains("exceeds 0x3FFF") { "chunk-length-exceeds-0x3fff" } else { "reference-rejects-client-bytes" };
                out.fail(format!("tcp-impl-to-ref/{}/{}", fam, what), format!("reference server cannot decode client bytes: {}", e));
                return out;
            }
        };
        if dec.addr != c.addr {
            out.fail(format!("tcp-impl-to-ref/{}/address-differs", fam), format!("reference decoded {:?}, client was asked for {:?}", dec.addr, c.addr));
            return out;
        }
        if dec.payload != want_c {
            out.fail(
                format!("tcp-impl-to-ref/{}/request-payload-differs", fam),
                format!("reference decoded {} payload bytes, expected {} (first difference at {:?})", dec.payload.len(), want_c.len(), first_diff(&dec.payload, &want_c)),
            );
            return out;
        }
        // (2) the real server decodes the same bytes (sets up its state), then answers; the reference client decodes the answer
        if c.s2c.is_empty() {
            return out;
        }
        let sctx = match ServerCtx::new(&c.cred) {
            Ok(x) => x,
            Err(e) => {
                out.fail(format!("tcp-impl-to-ref/{}/server-context-refused-documented-credential", fam), e.to_string());
                return out;
            }
        };
        let mut scodec = sctx.codec().expect("server codec");
        let (items, _, fed) = feed_server(&mut scodec, &[wire.clone()]);
        if let Some(p) = &fed.panic {
            out.fail(format!("tcp-impl-to-ref/{}/server-panics-on-own-client-bytes", fam), p.clone());
            return out;
        }
        match flow_of(&items) {
            Flow::Tcp { addr, bytes } if addr == c.addr && bytes == want_c => {}
            other => {
                out.fail(
                    format!("tcp-impl-to-ref/{}/server-does-not-accept-own-client", fam),
                    format!("server flow for the real client's bytes: {} (err={:?}, leftover={})", brief_flow(&other), fed.err, fed.leftover),
                );
                return out;
            }
        }
        let s2c = gen::writes_from_lens(c.seed ^ 0x5555, &c.s2c);
        let want_s: Vec<u8> = s2c.concat();
        let (wire_s, _) = match encode_all(&mut scodec, s2c.iter().map(|w| OutboundIn::Tcp(BytesMut::from(&w[..]))).collect::<Vec<_>>()) {
            Ok(x) => x,
            Err(e) => {
                out.fail(format!("tcp-impl-to-ref/{}/server-encode-failed", fam), e);
                return out;
            }
        };
        match refside::ref_client_decode(&c.cred, &dec.session, &wire_s, T0) {
            Ok(r) => {
                if r.payload != want_s {
                    out.fail(
                        format!("tcp-impl-to-ref/{}/response-payload-differs", fam),
                        format!("reference decoded {} bytes, expected {} (first difference at {:?})", r.payload.len(), want_s.len(), first_diff(&r.payload, &want_s)),
                    );
                }
            }
            Err(e) => {
                let what = if e.contains("exceeds 0x3FFF") { "chunk-length-exceeds-0x3fff" } else { "reference-rejects-server-bytes" };
                out.fail(format!("tcp-impl-to-ref/{}/{}", fam, what), format!("reference client cannot decode server bytes: {}", e));
            }
        }
        out
    }
}

pub fn first_diff(a: &[u8], b: &[u8]) -> Option<usize> {
    a.iter().zip(b.iter()).position(|(x, y)| x != y).or(if a.len() != b.len() { Some(a.len().min(b.len())) } else { None })
}

pub fn brief_flow(f: &Flow) -> String {
    match f {
        Flow::Idle => "Idle (nothing yielded)".into(),
        Flow::Tcp { addr, bytes } => format!("Tcp{{addr={:?}, {} bytes}}", addr, bytes.len()),
        Flow::Udp { datagrams } => format!("Udp{{{} datagrams, sizes {:?}}}", datagrams.len(), datagrams.iter().map(|d| d.1.len()).take(8).collect::<Vec<_>>()),
        Flow::Rejected => "Rejected (RelayTcp first)".into(),
        Flow::Confused(s) => format!("Confused({})", s),
    }
}

/// ref -> impl, both directions: reference-built streams are accepted by the real decoders with the same result.
pub struct TcpRefToImpl;

impl SubCheck for TcpRefToImpl {
    type Case = TcpCase;
    fn name(&self) -> &'static str {
        "tcp-ref-to-impl"
    }
    fn strategy(&self, _tier: Tier) -> BoxedStrategy<TcpCase> {
        tcp_case_strategy(true)
    }
    fn exec(&self, c: &TcpCase) -> Outcome {
        let mut out = Outcome::new();
        let fam = family(c.cred.proto);
        real::set_clock(Some(T0));
        classify_tcp(&mut out, c, "r2i");
        let mut d = Det::new(c.seed, "r2i");
        let c2s = gen::writes_from_lens(c.seed, &c.c2s);
        let want_c: Vec<u8> = c2s.concat();
        let mut o = ReqOpts::new(T0);
        o.vmess_opt = c.vmess_mask;
        o.vmess_hdr_pad = c.hdr_pad as usize;
        o.ss22_pad = c.ss22_pad as usize;
        o.first_in_header = c.first_in_header;
        let frames = match refside::ref_client_request(&c.cred, &c.addr, &c2s, &o, &mut d) {
            Ok(f) => f,
            Err(e) => {
                out.fail("tcp-ref-to-impl/harness/reference-encoder-failed", e);
                return out;
            }
        };
        // whole, and cut at every frame end (arbitrary cuts belong to C04)
        let ends: Vec<usize> = frames.frame_ends.iter().map(|(e, _)| *e).collect();
        for (mode, segs) in [("whole", vec![frames.wire.clone()]), ("frame-cuts", cut(&frames.wire, &ends))] {
            if want_c.is_empty() && matches!(c.cred.proto, Proto::SsLegacy(_) | Proto::Vmess(_) | Proto::Trojan) {
                // a request without payload is still a complete handshake for Trojan; for VMess/legacy there is nothing to deliver yet
            }
            // a fresh listener context per presentation: the same stream presented twice to one context is a replay
            let sctx = match ServerCtx::new(&c.cred) {
                Ok(x) => x,
                Err(e) => {
                    out.fail(format!("tcp-ref-to-impl/{}/server-context-refused-documented-credential", fam), e.to_string());
                    return out;
                }
            };
            let mut scodec = sctx.codec().expect("server codec");
            let (items, utf8_ok, fed) = feed_server(&mut scodec, &segs);
            if let Some(p) = &fed.panic {
                out.fail(format!("tcp-ref-to-impl/{}/server-panics-on-valid-request", fam), format!("[{}] {}", mode, p));
                return out;
            }
            let _ = utf8_ok;
            let flow = flow_of(&items);
            let ok = match &flow {
                Flow::Tcp { addr, bytes } => *addr == c.addr && *bytes == want_c,
                Flow::Idle => want_c.is_empty() && !matches!(c.cred.proto, Proto::Trojan | Proto::Ss22(_)),
                _ => false,
            };
            if !ok || fed.err.is_some() {
                let what = match (&flow, &fed.err) {
                    (Flow::Idle, None) => "server-never-yields-connect",
                    (Flow::Rejected, _) => "first-item-is-not-connect",
                    (_, Some(_)) => "server-rejects-valid-request",
                    (Flow::Tcp { addr, .. }, None) if *addr != c.addr => "address-differs",
                    _ => "payload-differs",
                };
                out.fail(
                    format!("tcp-ref-to-impl/{}/{}", fam, what),
                    format!("[{}] reference request for {:?} with {} payload bytes: server flow {} err={:?} leftover={}", mode, c.addr, want_c.len(), brief_flow(&flow), fed.err, fed.leftover),
                );
                return out;
            }
        }
        // response direction: the real client first emits a request (which fixes its session state); the reference
        // decodes that request to learn the session, builds the response, the real client decodes it.
        if c.s2c.is_empty() {
            return out;
        }
        let Some(address) = to_address(&c.addr) else {
            return out;
        };
        let Ok(cctx) = ClientCtx::new(&c.cred) else {
            return out; // reported by tcp-impl-to-ref
        };
        let Ok(mut ccodec) = cctx.codec(&address) else {
            return out;
        };
        let mut first = BytesMut::new();
        if let Err(_) | Ok(Err(_)) = rt::catch(|| ccodec.encode(BytesMut::from(&b"x"[..]), &mut first)) {
            return out; // reported by tcp-impl-to-ref
        }
        let Ok(req) = refside::ref_server_decode(&c.cred, &first, T0) else {
            return out; // reported by tcp-impl-to-ref
        };
        let s2c = gen::writes_from_lens(c.seed ^ 0x5555, &c.s2c);
        let want_s: Vec<u8> = s2c.concat();
        let resp = match refside::ref_server_response(&c.cred, &req.session, &s2c, &RespOpts::new(T0), &mut d) {
            Ok(f) => f,
            Err(e) => {
                out.fail("tcp-ref-to-impl/harness/reference-response-encoder-failed", e);
                return out;
            }
        };
        let ends: Vec<usize> = resp.frame_ends.iter().map(|(e, _)| *e).collect();
        let fed = feed(&mut ccodec, &cut(&resp.wire, &ends));
        let got: Vec<u8> = fed.items.iter().flat_map(|b| b.to_vec()).collect();
        if let Some(p) = &fed.panic {
            out.fail(format!("tcp-ref-to-impl/{}/client-panics-on-valid-response", fam), p.clone());
        } else if let Some(e) = &fed.err {
            out.fail(format!("tcp-ref-to-impl/{}/client-rejects-valid-response", fam), e.clone());
        } else if got != want_s {
            out.fail(
                format!("tcp-ref-to-impl/{}/response-payload-differs", fam),
                format!("client decoded {} bytes, expected {} (first difference at {:?}, leftover {})", got.len(), want_s.len(), first_diff(&got, &want_s), fed.leftover),
            );
        }
        out
    }
}

// ------------------------------------------------------------------------------------------ Shadowsocks UDP

#[derive(Clone, Debug, Serialize, Deserialize)]
pub struct UdpCase {
    pub cred: Cred,
    pub addr: Addr,
    pub reply_addr: Addr,
    pub lens: Vec<u32>,
    pub seed: u64,
    pub pad: u16,
}

fn ss_cred_strategy() -> BoxedStrategy<CredGen> {
    let mut ps: Vec<Proto> = vec![];
    for p in Proto::all() {
        if matches!(p, Proto::SsLegacy(_) | Proto::Ss22(_)) {
            ps.push(p);
        }
    }
    proptest::sample::select(ps).prop_flat_map(gen::cred_for).boxed()
}

fn sockaddr_strategy() -> BoxedStrategy<Addr> {
    prop_oneof![(any::<[u8; 4]>(), any::<u16>()).prop_map(|(a, p)| Addr::V4(a, p)), (any::<[u8; 16]>(), any::<u16>()).prop_map(|(a, p)| Addr::V6(a, p))].boxed()
}

pub fn udp_case_strategy() -> BoxedStrategy<UdpCase> {
    let len = prop_oneof![4 => 0u32..64, 3 => 64u32..1500, 1 => proptest::sample::select(vec![0u32, 1, 1400, 1472, 4096, 16384, 65000]), 1 => 1500u32..65000];
    (ss_cred_strategy(), gen::addr_strategy(), sockaddr_strategy(), proptest::collection::vec(len, 1..5), any::<u64>(), prop_oneof![Just(0u16), 1u16..900, Just(900u16)])
        .prop_map(|(CredGen { cred, .. }, addr, reply_addr, lens, seed, pad)| UdpCase { cred, addr, reply_addr, lens, seed, pad })
        .boxed()
}

pub struct UdpSs;

impl SubCheck for UdpSs {
    type Case = UdpCase;
    fn name(&self) -> &'static str {
        "udp-ss"
    }
    fn strategy(&self, _tier: Tier) -> BoxedStrategy<UdpCase> {
        udp_case_strategy()
    }
    fn exec(&self, c: &UdpCase) -> Outcome {
        let mut out = Outcome::new();
        let fam = family(c.cred.proto);
        real::set_clock(Some(T0));
        out.label(format!("proto:{}", c.cred.proto.short()));
        out.label(format!("addr:{}", c.addr.kind()));
        let total: usize = c.lens.iter().map(|l| *l as usize).sum();
        if total > 0 && (c.lens.len() >= 2 || matches!(c.addr, Addr::Name(..))) {
            let sc: Vec<&str> = c.lens.iter().map(|l| size_class(*l as usize)).collect();
            out.nontrivial(format!("udp|{}|{}|{:?}|{}", c.cred.proto.short(), c.addr.kind(), sc, c.cred.users.len()));
        }
        let Some(address) = to_address(&c.addr) else {
            return out;
        };
        let Some(reply_address) = to_address(&c.reply_addr) else {
            return out;
        };
        let keys = match refside::ref_keys(&c.cred) {
            Ok(k) => k,
            Err(e) => {
                out.fail("udp-ss/harness/reference-keys", e);
                return out;
            }
        };
        let cctx = match real::ClientUdpCtx::new(&c.cred) {
            Ok(x) => x,
            Err(e) => {
                out.fail(format!("udp-ss/{}/client-refuses-documented-password", fam), format!("UDP client context for password {:?}: {}", c.cred.password, e));
                return out;
            }
        };
        let sudp = match real::server_udp(&c.cred) {
            Ok(x) => x,
            Err(e) => {
                out.fail(format!("udp-ss/{}/server-refuses-documented-password", fam), format!("UDP server codec for password {:?}: {}", c.cred.password, e));
                return out;
            }
        };
        let mut ccodec = cctx.codec();
        let payloads = gen::writes_from_lens(c.seed, &c.lens);
        let mut d = Det::new(c.seed, "udp");
        let mut last_pid: Option<u64> = None;
        for (i, p) in payloads.iter().enumerate() {
            if matches!(c.cred.proto, Proto::SsLegacy(_)) {
                // the original AEAD datagram format has no sessions: every datagram stands alone, so a fresh binding per
                // datagram is a sound way to exercise the format (the session handling of these ciphers is C02's business)
                ccodec = cctx.codec();
            }
            // impl client -> ref server
            let mut wire = BytesMut::new();
            match rt::catch(|| ccodec.encode(p, address.clone(), &mut wire)) {
                Err(pn) => {
                    out.fail(format!("udp-ss/{}/client-encode-panics", fam), pn);
                    return out;
                }
                Ok(Err(e)) => {
                    out.fail(format!("udp-ss/{}/client-encode-failed", fam), e.to_string());
                    return out;
                }
                Ok(Ok(())) => {}
            }
            let (sid, user_key): (u64, Vec<u8>);
            match c.cred.proto {
                Proto::SsLegacy(l) => match ss::decode_datagram(l, &keys.legacy_key, &wire) {
                    Ok((a, pl, _)) => {
                        if a != c.addr || pl != *p {
                            out.fail(format!("udp-ss/{}/client-datagram-differs", fam), format!("reference decoded {:?}/{} bytes, expected {:?}/{}", a, pl.len(), c.addr, p.len()));
                            return out;
                        }
                        sid = 0;
                        user_key = vec![];
                    }
                    Err(e) => {
                        out.fail(
                            format!("udp-ss/{}/reference-rejects-client-datagram", fam),
                            format!("reference (EVP_BytesToKey of the configured password) cannot open the client's datagram: {}", e),
                        );
                        return out;
                    }
                },
                Proto::Ss22(cc) => {
                    let users = if cc.is_aes() { keys.user_psks.clone() } else { vec![] };
                    match ss2022::decode_udp_client(cc, &keys.server_psk, &users, &wire) {
                        Ok(dec) => {
                            let pk = &dec.pkt;
                            let mut problems = vec![];
                            if pk.addr != c.addr {
                                problems.push(format!("address {:?} != {:?}", pk.addr, c.addr));
                            }
                            if pk.payload != *p {
                                problems.push(format!("payload {} bytes != {}", pk.payload.len(), p.len()));
                            }
                            if pk.typ != 0 {
                                problems.push(format!("type {}", pk.typ));
                            }
                            if (pk.ts as i64 - T0 as i64).abs() > 30 {
                                problems.push(format!("timestamp {}", pk.ts));
                            }
                            if pk.padding.len() > 900 {
                                problems.push(format!("padding {}", pk.padding.len()));
                            }
                            if let Some(lp) = last_pid {
                                if pk.pid <= lp {
                                    problems.push(format!("packet id {} after {}", pk.pid, lp));
                                }
                            }
                            if !problems.is_empty() {
                                out.fail(format!("udp-ss/{}/client-datagram-differs", fam), problems.join("; "));
                                return out;
                            }
                            last_pid = Some(pk.pid);
                            sid = pk.sid;
                            user_key = match dec.user {
                                Some(u) => users[u].clone(),
                                None => keys.server_psk.clone(),
                            };
                        }
                        Err(e) => {
                            out.fail(format!("udp-ss/{}/reference-rejects-client-datagram", fam), e);
                            return out;
                        }
                    }
                }
                _ => unreachable!(),
            }
            // the real server decodes the same datagram
            let mut src = BytesMut::from(&wire[..]);
            let sess = match rt::catch(|| sudp.decode(&mut src)) {
                Err(pn) => {
                    out.fail(format!("udp-ss/{}/server-decode-panics", fam), pn);
                    return out;
                }
                Ok(Err(e)) => {
                    out.fail(format!("udp-ss/{}/server-rejects-own-client-datagram", fam), e.to_string());
                    return out;
                }
                Ok(Ok(None)) => {
                    out.fail(format!("udp-ss/{}/server-yields-nothing", fam), "decode returned None for a complete datagram");
                    return out;
                }
                Ok(Ok(Some((content, a, s)))) => {
                    if content != *p || real::from_address(&a) != c.addr {
                        out.fail(format!("udp-ss/{}/server-decodes-differently", fam), format!("{} bytes to {:?}", content.len(), a));
                        return out;
                    }
                    s
                }
            };
            // ref client -> impl server (fresh session id, chosen packet id)
            if let Proto::Ss22(cc) = c.cred.proto {
                let ipsks = if cc.is_aes() { keys.client_ipsks.clone() } else { vec![] };
                let pkt = UdpClientPacket { sid: d.u64(), pid: i as u64, typ: 0, ts: T0, padding: d.bytes(c.pad as usize), addr: c.addr.clone(), payload: p.clone(), xnonce: d.bytes(24) };
                let w = ss2022::encode_udp_client(cc, &keys.client_upsk, &ipsks, &pkt);
                let mut src = BytesMut::from(&w[..]);
                match rt::catch(|| sudp.decode(&mut src)) {
                    Err(pn) => {
                        out.fail(format!("udp-ss/{}/server-decode-panics", fam), pn);
                        return out;
                    }
                    Ok(Ok(Some((content, a, s)))) if content == *p && real::from_address(&a) == c.addr && s.client_sid == pkt.sid && s.pid == pkt.pid => {}
                    Ok(other) => {
                        out.fail(format!("udp-ss/{}/server-rejects-reference-datagram", fam), format!("{:?}", other.map(|o| o.map(|(c, a, s)| (c.len(), a, s)))));
                        return out;
                    }
                }
            } else if let Proto::SsLegacy(l) = c.cred.proto {
                let w = ss::encode_datagram(l, &keys.legacy_key, &d.bytes(l.key_len()), &c.addr, p);
                let mut src = BytesMut::from(&w[..]);
                match rt::catch(|| sudp.decode(&mut src)) {
                    Ok(Ok(Some((content, a, _)))) if content == *p && real::from_address(&a) == c.addr => {}
                    other => {
                        out.fail(format!("udp-ss/{}/server-rejects-reference-datagram", fam), format!("{:?}", other.map(|o| o.map(|x| x.map(|(c, a, s)| (c.len(), a, s))))));
                        return out;
                    }
                }
            }
            // impl server reply -> ref client
            let reply = gen::keystream(c.seed ^ 0x77, i * 7, p.len().min(60000));
            let mut rs = sess.clone();
            rs.server_sid = 0x1122334455667788 ^ c.seed;
            rs.pid = i as u64 + 1;
            let mut wire_r = BytesMut::new();
            match rt::catch(|| sudp.encode(&reply, reply_address.clone(), &rs, &mut wire_r)) {
                Err(pn) => {
                    out.fail(format!("udp-ss/{}/server-encode-panics", fam), pn);
                    return out;
                }
                Ok(Err(e)) => {
                    out.fail(format!("udp-ss/{}/server-encode-failed", fam), e.to_string());
                    return out;
                }
                Ok(Ok(())) => {}
            }
            match c.cred.proto {
                Proto::SsLegacy(l) => match ss::decode_datagram(l, &keys.legacy_key, &wire_r) {
                    Ok((a, pl, _)) if a == c.reply_addr && pl == reply => {}
                    other => {
                        out.fail(format!("udp-ss/{}/reference-rejects-server-datagram", fam), format!("{:?}", other.map(|(a, p, _)| (a, p.len()))));
                        return out;
                    }
                },
                Proto::Ss22(cc) => match ss2022::decode_udp_server(cc, &user_key, &wire_r) {
                    Ok(dec) => {
                        let pk = &dec.pkt;
                        if pk.addr != c.reply_addr || pk.payload != reply || pk.typ != 1 || pk.client_sid != sid || pk.ssid != rs.server_sid || pk.pid != rs.pid || (pk.ts as i64 - T0 as i64).abs() > 30 || pk.padding.len() > 900 {
                            out.fail(
                                format!("udp-ss/{}/server-datagram-differs", fam),
                                format!("decoded addr={:?} len={} typ={} csid={:#x} (want {:#x}) ssid={:#x} pid={} ts={} pad={}", pk.addr, pk.payload.len(), pk.typ, pk.client_sid, sid, pk.ssid, pk.pid, pk.ts, pk.padding.len()),
                            );
                            return out;
                        }
                    }
                    Err(e) => {
                        out.fail(format!("udp-ss/{}/reference-rejects-server-datagram", fam), e);
                        return out;
                    }
                },
                _ => unreachable!(),
            }
            // the real client decodes the real server's reply
            let mut src = BytesMut::from(&wire_r[..]);
            match rt::catch(|| ccodec.decode(&mut src)) {
                Err(pn) => {
                    out.fail(format!("udp-ss/{}/client-decode-panics", fam), pn);
                    return out;
                }
                Ok(Ok(Some((content, a)))) if content == reply && real::from_address(&a) == c.reply_addr => {}
                Ok(other) => {
                    out.fail(format!("udp-ss/{}/client-rejects-own-server-datagram", fam), format!("{:?}", other.map(|o| o.map(|(c, a)| (c.len(), a)))));
                    return out;
                }
            }
            // ref server -> impl client
            if let Proto::Ss22(cc) = c.cred.proto {
                let pkt = UdpServerPacket { ssid: rs.server_sid, pid: 1000 + i as u64, typ: 1, ts: T0, client_sid: sid, padding: d.bytes(c.pad as usize), addr: c.reply_addr.clone(), payload: reply.clone(), xnonce: d.bytes(24) };
                let w = ss2022::encode_udp_server(cc, &keys.client_upsk, &pkt);
                let mut src = BytesMut::from(&w[..]);
                match rt::catch(|| ccodec.decode(&mut src)) {
                    Ok(Ok(Some((content, a)))) if content == reply && real::from_address(&a) == c.reply_addr => {}
                    other => {
                        out.fail(format!("udp-ss/{}/client-rejects-reference-datagram", fam), format!("{:?}", other.map(|o| o.map(|x| x.map(|(c, a)| (c.len(), a))))));
                        return out;
                    }
                }
            }
        }
        out
    }
}

// ------------------------------------------------------------------------------------------ datagram-in-stream (VMess UDP, Trojan UDP)

#[derive(Clone, Debug, Serialize, Deserialize)]
pub struct DgramStreamCase {
    pub cred: Cred,
    pub addr: Addr,
    pub lens: Vec<u32>,
    pub seed: u64,
    pub vmess_mask: u8,
}

pub fn dgram_stream_strategy() -> BoxedStrategy<DgramStreamCase> {
    let len = prop_oneof![4 => 1u32..64, 3 => 64u32..1500, 2 => proptest::sample::select(vec![1u32, 1400, 1472, 1957, 1958, 1959, 2000, 2047, 2048, 2049, 4096, 16000]), 1 => 1500u32..16000];
    let protos = vec![Proto::Vmess(3), Proto::Vmess(4), Proto::Trojan];
    (proptest::sample::select(protos).prop_flat_map(gen::cred_for), gen::addr_strategy(), proptest::collection::vec(len, 1..5), any::<u64>(), proptest::sample::select(vmess::valid_masks()))
        .prop_map(|(CredGen { cred, .. }, addr, lens, seed, vmess_mask)| DgramStreamCase { cred, addr, lens, seed, vmess_mask })
        .boxed()
}

pub struct UdpInStream;

impl SubCheck for UdpInStream {
    type Case = DgramStreamCase;
    fn name(&self) -> &'static str {
        "udp-in-stream"
    }
    fn strategy(&self, _tier: Tier) -> BoxedStrategy<DgramStreamCase> {
        dgram_stream_strategy()
    }
    fn exec(&self, c: &DgramStreamCase) -> Outcome {
        let mut out = Outcome::new();
        let fam = family(c.cred.proto);
        real::set_clock(Some(T0));
        out.label(format!("proto:{}", c.cred.proto.short()));
        let total: usize = c.lens.iter().map(|l| *l as usize).sum();
        if total > 0 && (c.lens.len() >= 2 || c.lens.iter().any(|l| *l > 2000) || matches!(c.addr, Addr::Name(..))) {
            let sc: Vec<&str> = c.lens.iter().map(|l| size_class(*l as usize)).collect();
            out.nontrivial(format!("dgs|{}|{}|{:?}", c.cred.proto.short(), c.addr.kind(), sc));
        }
        let Some(address) = to_address(&c.addr) else {
            return out;
        };
        let payloads = gen::writes_from_lens(c.seed, &c.lens);
        // impl client -> reference server
        let wire: Vec<u8> = match c.cred.proto {
            Proto::Vmess(_) => {
                let mut codec = match real::vmess_udp_client(&c.cred, &address) {
                    Ok(x) => x,
                    Err(e) => {
                        out.fail(format!("udp-in-stream/{}/client-codec-refused", fam), e.to_string());
                        return out;
                    }
                };
                match encode_all(&mut codec, payloads.iter().map(|p| BytesMut::from(&p[..])).collect::<Vec<_>>()) {
                    Ok((w, _)) => w,
                    Err(e) => {
                        out.fail(format!("udp-in-stream/{}/client-encode-failed", fam), e);
                        return out;
                    }
                }
            }
            Proto::Trojan => {
                let mut codec = real::trojan_udp_client(&c.cred, &address);
                match encode_all(&mut codec, payloads.iter().map(|p| (BytesMut::from(&p[..]), address.clone())).collect::<Vec<_>>()) {
                    Ok((w, _)) => w,
                    Err(e) => {
                        out.fail(format!("udp-in-stream/{}/client-encode-failed", fam), e);
                        return out;
                    }
                }
            }
            _ => unreachable!(),
        };
        let dec = match refside::ref_server_decode(&c.cred, &wire, T0) {
            Ok(d) => d,
            Err(e) => {
                out.fail(format!("udp-in-stream/{}/reference-rejects-client-bytes", fam), e);
                return out;
            }
        };
        if !dec.udp_cmd || dec.addr != c.addr {
            out.fail(format!("udp-in-stream/{}/command-or-address-differs", fam), format!("udp_cmd={} addr={:?}", dec.udp_cmd, dec.addr));
            return out;
        }
        let got: Vec<Vec<u8>> = dec.datagrams.iter().map(|d| d.1.clone()).collect();
        if got != payloads {
            let truncated = got.len() == payloads.len() && got.iter().zip(payloads.iter()).any(|(g, p)| g.len() < p.len() && p.starts_with(g));
            out.fail(
                format!("udp-in-stream/{}/{}", fam, if truncated { "client-truncates-datagram" } else { "datagram-list-differs" }),
                format!("sent sizes {:?}, reference decoded sizes {:?}", c.lens, got.iter().map(|g| g.len()).collect::<Vec<_>>()),
            );
            return out;
        }
        if let Proto::Trojan = c.cred.proto {
            if dec.datagrams.iter().any(|d| d.0.as_ref() != Some(&c.addr)) {
                out.fail(format!("udp-in-stream/{}/datagram-address-differs", fam), "per-datagram address differs");
                return out;
            }
        }
        // reference client -> impl server, one datagram unit per read (what a datagram-per-write peer produces)
        let mut d = Det::new(c.seed, "dgs");
        let mut o = ReqOpts::new(T0);
        o.udp_cmd = true;
        o.vmess_opt = c.vmess_mask;
        let (req_wire, segs): (Vec<u8>, Vec<Vec<u8>>) = match c.cred.proto {
            Proto::Vmess(_) => {
                let small: Vec<Vec<u8>> = payloads.iter().map(|p| p[..p.len().min(16000)].to_vec()).collect();
                let f = match refside::ref_client_request(&c.cred, &c.addr, &small, &o, &mut d) {
                    Ok(f) => f,
                    Err(e) => {
                        out.fail("udp-in-stream/harness/reference-encoder-failed", e);
                        return out;
                    }
                };
                let ends: Vec<usize> = f.frame_ends.iter().map(|(e, _)| *e).collect();
                // header + first datagram in the first read, then one datagram per read
                (f.wire.clone(), cut(&f.wire, &ends))
            }
            Proto::Trojan => {
                let keys = refside::ref_keys(&c.cred).unwrap();
                let mut w = trojan::encode_request(&keys.trojan_client_pw, trojan::CMD_UDP, &c.addr, &[]);
                let mut ends = vec![];
                for p in &payloads {
                    w.extend(trojan::encode_udp_unit(&c.addr, p));
                    ends.push(w.len());
                }
                (w.clone(), cut(&w, &ends))
            }
            _ => unreachable!(),
        };
        let _ = req_wire;
        let sctx = ServerCtx::new(&c.cred).expect("server ctx");
        let mut scodec = sctx.codec().expect("server codec");
        let (items, _, fed) = feed_server(&mut scodec, &segs);
        if let Some(p) = &fed.panic {
            out.fail(format!("udp-in-stream/{}/server-panics-on-valid-datagrams", fam), p.clone());
            return out;
        }
        let want: Vec<(Addr, Vec<u8>)> = payloads.iter().map(|p| (c.addr.clone(), p[..p.len().min(16000)].to_vec())).collect();
        match flow_of(&items) {
            Flow::Udp { datagrams } if datagrams == want && fed.err.is_none() => {}
            other => {
                out.fail(format!("udp-in-stream/{}/server-decodes-differently", fam), format!("flow {} err={:?} (sent sizes {:?})", brief_flow(&other), fed.err, c.lens));
                return out;
            }
        }
        // impl server replies -> reference client
        let replies: Vec<Vec<u8>> = payloads.iter().enumerate().map(|(i, p)| gen::keystream(c.seed ^ 0x99, i * 3, p.len().min(16000))).collect();
        let src_addr = std::net::SocketAddr::from(([127, 0, 0, 1], 5353));
        let (wire_r, _) = match encode_all(&mut scodec, replies.iter().map(|r| OutboundIn::Udp((BytesMut::from(&r[..]), src_addr))).collect::<Vec<_>>()) {
            Ok(x) => x,
            Err(e) => {
                out.fail(format!("udp-in-stream/{}/server-encode-failed", fam), e);
                return out;
            }
        };
        match c.cred.proto {
            Proto::Vmess(_) => {
                let SessionInfo::Vmess(h) = &dec.session else { unreachable!() };
                // the server's session is the one of the *reference* request; rebuild it from req
                let sreq = refside::ref_server_decode(&c.cred, &segs.concat(), T0).unwrap();
                let _ = h;
                match refside::ref_client_decode(&c.cred, &sreq.session, &wire_r, T0) {
                    Ok(r) => {
                        if r.chunks != replies {
                            let truncated = r.chunks.len() == replies.len() && r.chunks.iter().zip(replies.iter()).any(|(g, p)| g.len() < p.len() && p.starts_with(g));
                            out.fail(
                                format!("udp-in-stream/{}/{}", fam, if truncated { "server-truncates-datagram" } else { "reply-list-differs" }),
                                format!("sent sizes {:?}, reference decoded sizes {:?}", replies.iter().map(|r| r.len()).collect::<Vec<_>>(), r.chunks.iter().map(|g| g.len()).collect::<Vec<_>>()),
                            );
                        }
                    }
                    Err(e) => {
                        out.fail(format!("udp-in-stream/{}/reference-rejects-server-bytes", fam), e);
                    }
                }
            }
            Proto::Trojan => match trojan::decode_udp_units(&wire_r) {
                Ok((units, used)) => {
                    let want: Vec<(Addr, Vec<u8>)> = replies.iter().map(|r| (Addr::V4([127, 0, 0, 1], 5353), r.clone())).collect();
                    if units != want || used != wire_r.len() {
                        out.fail(format!("udp-in-stream/{}/reply-list-differs", fam), format!("decoded {} units, used {} of {}", units.len(), used, wire_r.len()));
                    }
                }
                Err(e) => {
                    out.fail(format!("udp-in-stream/{}/reference-rejects-server-bytes", fam), e);
                }
            },
            _ => unreachable!(),
        }
        out
    }
}


// ---------------------------------------------------------------------------------------------- identity chains (SIP023)
//
// A client password `iPSK0:iPSK1:...:uPSK` addresses a chain of relays: relay i holds iPSK_i, finds in its identity
// header the hash of the next key and forwards. This project's own server takes one level only, so the implementation is
// the *sender* here and the reference walks the chain the way the relays would.

#[derive(Clone, Debug, Serialize, Deserialize)]
pub struct ChainCase {
    pub aes256: bool,
    /// number of identity keys in front of the user key (1..=3)
    pub n_ipsk: u8,
    pub seed: u64,
    pub addr: Addr,
    pub lens: Vec<u32>,
    pub udp: bool,
}

pub struct IdentityChain;

impl SubCheck for IdentityChain {
    type Case = ChainCase;
    fn name(&self) -> &'static str {
        "identity-chain"
    }
    fn strategy(&self, _tier: Tier) -> BoxedStrategy<ChainCase> {
        (any::<bool>(), 1u8..=3, any::<u64>(), gen::addr_strategy(), gen::write_lens(4, false), any::<bool>())
            .prop_map(|(aes256, n_ipsk, seed, addr, mut lens, udp)| {
                if lens.is_empty() {
                    lens.push(19);
                }
                ChainCase { aes256, n_ipsk, seed, addr, lens, udp }
            })
            .boxed()
    }
    fn exec(&self, c: &ChainCase) -> Outcome {
        use crate::refimpl::{aes_ecb_decrypt_block, b64};
        let mut out = Outcome::new();
        real::set_clock(Some(T0));
        let cipher = if c.aes256 { ss2022::C22::Aes256 } else { ss2022::C22::Aes128 };
        let kl = cipher.key_len();
        let mut d = Det::new(c.seed, "chain");
        let keys: Vec<Vec<u8>> = (0..=c.n_ipsk as usize).map(|_| d.bytes(kl)).collect();
        let password = keys.iter().map(|k| b64(k)).collect::<Vec<_>>().join(":");
        let cred = Cred { proto: Proto::Ss22(cipher), password: b64(&keys[0]), client_password: Some(password), users: vec![] };
        let (ipsks, upsk) = (&keys[..keys.len() - 1], &keys[keys.len() - 1]);
        let Some(address) = to_address(&c.addr) else { return out };
        out.label(format!("proto:ss/{}", cipher.name()));
        out.label(format!("identity-keys:{}", c.n_ipsk));
        out.label(if c.udp { "datagram" } else { "stream" });
        let sig = |what: &str| format!("identity-chain/{}/{}", if c.udp { "udp" } else { "tcp" }, what);
        if c.udp {
            let Ok(cctx) = real::ClientUdpCtx::new(&cred) else {
                out.fail(sig("client-refuses-documented-key-chain"), format!("the client refuses a password of {} colon-separated keys of the right length", keys.len()));
                return out;
            };
            let mut cc = cctx.codec();
            for (k, l) in c.lens.iter().enumerate() {
                let payload = gen::keystream(c.seed, k * 1000, (*l as usize).min(1400));
                let mut wire = BytesMut::new();
                match rt::catch(|| cc.encode(&payload, address.clone(), &mut wire)) {
                    Err(p) => {
                        out.fail(sig("client-encoder-panics"), format!("datagram {} ({} bytes) with {} identity keys: the client's encoder panicked: {}", k, payload.len(), c.n_ipsk, p));
                        return out;
                    }
                    Ok(Err(e)) => {
                        out.fail(sig("client-encoder-fails"), format!("datagram {} ({} bytes) with {} identity keys: {}", k, payload.len(), c.n_ipsk, e));
                        return out;
                    }
                    Ok(Ok(())) => {}
                }
                // relay 0 opens the separate header with its key; every relay i finds the hash of the next key
                let n = c.n_ipsk as usize;
                if wire.len() < 16 + 16 * n + 16 {
                    out.fail(sig("reference-rejects-client-datagram"), format!("datagram of {} bytes is too short for a separate header, {} identity headers and a tag", wire.len(), n));
                    return out;
                }
                let mut header: [u8; 16] = wire[..16].try_into().unwrap();
                aes_ecb_decrypt_block(&ipsks[0], &mut header);
                for i in 0..n {
                    let mut block: [u8; 16] = wire[16 + 16 * i..32 + 16 * i].try_into().unwrap();
                    aes_ecb_decrypt_block(&ipsks[i], &mut block);
                    for (b, h) in block.iter_mut().zip(header.iter()) {
                        *b ^= h;
                    }
                    let next = if i + 1 < n { &ipsks[i + 1] } else { upsk };
                    if block != ss2022::psk_hash(next) {
                        out.fail(sig("relay-does-not-find-the-next-key"), format!("datagram {}: identity header {} of {} does not name the next key of the chain", k, i, n));
                        return out;
                    }
                }
                let sid = u64::from_be_bytes(header[..8].try_into().unwrap());
                let sk = ss2022::session_subkey(upsk, &sid.to_be_bytes(), kl);
                let Some(body) = cipher.udp_alg().open(&sk, &header[4..16], &[], &wire[16 + 16 * n..]) else {
                    out.fail(sig("reference-rejects-client-datagram"), format!("datagram {} ({} payload bytes, {} identity keys): the body does not open under the user key's session sub-key at offset {}", k, payload.len(), n, 16 + 16 * n));
                    return out;
                };
                // type, timestamp, padding, address, payload
                let ok = (|| {
                    if body.len() < 11 || body[0] != 0 {
                        return None;
                    }
                    let plen = u16::from_be_bytes([body[9], body[10]]) as usize;
                    let (a, an) = Addr::parse_socks(body.get(11 + plen..)?)?;
                    Some(a == c.addr && body[11 + plen + an..] == payload[..])
                })();
                if ok != Some(true) {
                    out.fail(sig("reference-decodes-differently"), format!("datagram {}: the decoded body does not carry the address and the {} payload bytes the client was given", k, payload.len()));
                    return out;
                }
            }
        } else {
            let Ok(cctx) = ClientCtx::new(&cred) else {
                out.fail(sig("client-refuses-documented-key-chain"), format!("the client refuses a password of {} colon-separated keys of the right length", keys.len()));
                return out;
            };
            let Ok(mut cc) = cctx.codec(&address) else { return out };
            let writes = gen::writes_from_lens(c.seed, &c.lens);
            let wire = match encode_all(&mut cc, writes.iter().map(|w| BytesMut::from(&w[..])).collect()) {
                Ok((w, _)) => w,
                Err(e) => {
                    out.fail(sig("client-encoder-fails"), format!("{} identity keys: {}", c.n_ipsk, e));
                    return out;
                }
            };
            let n = c.n_ipsk as usize;
            if wire.len() < kl + 16 * n {
                out.fail(sig("reference-rejects-client-bytes"), "stream shorter than salt and identity headers".to_string());
                return out;
            }
            let salt = &wire[..kl];
            for i in 0..n {
                let mut block: [u8; 16] = wire[kl + 16 * i..kl + 16 * (i + 1)].try_into().unwrap();
                let idk = ss2022::identity_subkey(&ipsks[i], salt, kl);
                aes_ecb_decrypt_block(&idk, &mut block);
                let next = if i + 1 < n { &ipsks[i + 1] } else { upsk };
                if block != ss2022::psk_hash(next) {
                    out.fail(sig("relay-does-not-find-the-next-key"), format!("identity header {} of {} does not name the next key of the chain", i, n));
                    return out;
                }
            }
            match ss2022::decode_tcp_request(cipher, upsk, &[], n, &wire) {
                Ok(dec) => {
                    let mut got = dec.req.first.clone();
                    for ch in &dec.req.chunks {
                        got.extend_from_slice(ch);
                    }
                    let want: Vec<u8> = writes.concat();
                    if dec.req.addr != c.addr || got != want {
                        out.fail(sig("reference-decodes-differently"), format!("behind {} identity headers the reference decodes {} bytes for {:?}; the client was given {} bytes for {:?}", n, got.len(), dec.req.addr, want.len(), c.addr));
                        return out;
                    }
                }
                Err(e) => {
                    out.fail(sig("reference-rejects-client-bytes"), format!("behind {} identity headers: {}", n, e));
                    return out;
                }
            }
        }
        if c.n_ipsk >= 2 {
            out.nontrivial(format!("{}|{}|{}|{:?}", cipher.name(), c.n_ipsk, c.udp, c.lens.iter().map(|l| gen::size_class(*l as usize)).collect::<Vec<_>>()));
        }
        out
    }
}

pub fn subs() -> Vec<Box<dyn DynSub>> {
    vec![Box::new(TcpImplToRef), Box::new(TcpRefToImpl), Box::new(UdpSs), Box::new(UdpInStream), Box::new(IdentityChain)]
}

pub fn run(ctx: &mut PropCtx) {
    ctx.rule = "cases = (credential set incl. user tables, cipher/security, VMess option mask, target address, write-size script per \
                direction, header/padding choices) from biased generators. impl->ref: bytes from the real Encoders are decoded by an \
                independent reference implementation configured only with the configured password strings (sender limits enforced: \
                legacy chunk <= 0x3FFF, VMess chunk <= 2^14, 2022 padding <= 900, timestamps, type bytes, packet-id order); ref->impl: \
                reference-built streams/datagrams are fed to the real Decoders; address and payload must agree exactly in both \
                directions. Non-trivial = payload > 0 and (>= 2 writes, or a write > 2000 bytes, or a datagram with a domain address); \
                distinct by (direction, protocol, cipher, mask, address kind, size-class vector, user-table size)."
        .into();
    ctx.assumptions = vec![
        "the reference implementation encodes the published specifications as recalled in DESIGN.md Appendix A and is anchored by third-party known-answer vectors (refimpl::self_test)".into(),
        "the clock hook pins 'now' so that reference-made timestamps are deterministic".into(),
    ];
    let t = ctx.tier;
    rt::run_sub(ctx, &TcpImplToRef, t.pick(30_000, 600_000));
    rt::run_sub(ctx, &TcpRefToImpl, t.pick(30_000, 600_000));
    rt::run_sub(ctx, &UdpSs, t.pick(20_000, 300_000));
    rt::run_sub(ctx, &UdpInStream, t.pick(20_000, 300_000));
    rt::run_sub(ctx, &IdentityChain, t.pick(30_000, 400_000));
}
