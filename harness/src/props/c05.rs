//! C05 – Tampered or reflected ciphertext is never delivered as plaintext.
use crate::adapters::{run_framed, run_ws, Collected, WsRole};
use crate::drive::{cut, encode_all, feed_server, flow_of, Flow};
use crate::ev::{Outcome, PropCtx, Tier};
use crate::gen::{self, CredGen, Det, T0};
use crate::props::c03::{family, first_diff};
use crate::props::c04::{build_stream, Adapter, Built, CutCase, CutSpec, Dir};
use crate::real::{self, to_address, ClientCtx, Cred, InboundIn, Item, OutboundIn, Proto, ServerCtx};
use crate::refimpl::ss2022::{self, UdpClientPacket, UdpServerPacket};
use crate::refimpl::{ss, vmess, Addr};
use crate::refside::{self, RespOpts};
use crate::rt::{self, DynSub, SubCheck};
use bytes::BytesMut;
use proptest::prelude::*;
use proptest::strategy::BoxedStrategy;
use serde::{Deserialize, Serialize};

#[derive(Clone, Debug, Serialize, Deserialize)]
pub enum Mutation {
    BitFlip(u16, u8),
    Truncate(u16),
    DeleteFrame(u16),
    DupFrame(u16),
    SwapFrames(u16),
    /// replace frame region by k * 18 garbage bytes
    Garbage(u16, u8),
    Edit(u16, Vec<u8>),
    Insert(u16, Vec<u8>),
    /// rewrite the 2-byte length field at the start of a frame region by XOR (possible wherever the field is not
    /// authenticated: the attacker knows the old length) and cut the frame's body to the new length
    ResizeFrame(u16, u16),
    /// exact position bit flip (exhaustive enumerations)
    FlipAt(u32, u8),
    TruncateAt(u32),
}

#[derive(Clone, Debug, Serialize, Deserialize)]
pub struct TamperCase {
    pub cred: Cred,
    pub addr: Addr,
    pub frames: Vec<u32>,
    pub seed: u64,
    pub vmess_mask: u8,
    pub dir: Dir,
    pub adapter: Adapter,
    pub mutation: Mutation,
    /// how the tampered stream reaches the decoder: 0 = one piece per frame region (each call sees one frame), 1 = the
    /// whole stream in one piece (intact frames and the tampered one meet in a single decode call), 2 = regions coalesced
    /// in pairs
    #[serde(default)]
    pub coalesce: u8,
}

fn encrypted_protos() -> Vec<Proto> {
    Proto::all().into_iter().filter(|p| p.encrypted()).collect()
}

fn mutation_strategy() -> BoxedStrategy<Mutation> {
    prop_oneof![
        5 => (any::<u16>(), 0u8..8).prop_map(|(p, b)| Mutation::BitFlip(p, b)),
        2 => any::<u16>().prop_map(Mutation::Truncate),
        2 => any::<u16>().prop_map(Mutation::DeleteFrame),
        2 => any::<u16>().prop_map(Mutation::DupFrame),
        2 => any::<u16>().prop_map(Mutation::SwapFrames),
        2 => (any::<u16>(), 1u8..6).prop_map(|(f, k)| Mutation::Garbage(f, k)),
        2 => (any::<u16>(), proptest::collection::vec(any::<u8>(), 1..24)).prop_map(|(p, b)| Mutation::Edit(p, b)),
        1 => (any::<u16>(), proptest::collection::vec(any::<u8>(), 1..40)).prop_map(|(p, b)| Mutation::Insert(p, b)),
        2 => (any::<u16>(), prop_oneof![proptest::sample::select(vec![0u16, 1, 15, 16, 17, 18, 32, 34]), any::<u16>()]).prop_map(|(f, s)| Mutation::ResizeFrame(f, s)),
    ]
    .boxed()
}

pub fn tamper_strategy() -> BoxedStrategy<TamperCase> {
    let one = prop_oneof![5 => 1u32..80, 3 => 80u32..2500, 1 => proptest::sample::select(vec![1u32, 16, 2047, 2048, 2049, 8192])];
    (
        proptest::sample::select(encrypted_protos()).prop_flat_map(gen::cred_for),
        gen::addr_strategy(),
        proptest::collection::vec(one, 2..6),
        any::<u64>(),
        proptest::sample::select(vmess::valid_masks()),
        prop_oneof![Just(Dir::Request), Just(Dir::Response)],
        prop_oneof![3 => Just(Adapter::Framed), 2 => Just(Adapter::Ws)],
        mutation_strategy(),
        prop_oneof![3 => Just(0u8), 2 => Just(1u8), 1 => Just(2u8)],
    )
        .prop_map(|(CredGen { cred, .. }, addr, frames, seed, vmess_mask, dir, adapter, mutation, coalesce)| TamperCase { cred, addr, frames, seed, vmess_mask, dir, adapter, mutation, coalesce })
        .boxed()
}

fn as_cut_case(c: &TamperCase) -> CutCase {
    CutCase {
        cred: c.cred.clone(),
        addr: c.addr.clone(),
        frames: c.frames.clone(),
        seed: c.seed,
        vmess_mask: c.vmess_mask,
        hdr_pad: (c.seed % 16) as u8,
        ss22_pad: (c.seed % 37) as u16,
        first_in_header: c.seed % 5 != 0,
        dir: c.dir,
        adapter: c.adapter,
        cuts: CutSpec::None,
        deliver: 65535,
        eof: false,
    }
}

/// Region boundaries: 0, header end, every frame end, wire end.
fn regions(b: &Built) -> Vec<usize> {
    let mut v = vec![0, b.frames.header_end, b.frames.wire.len()];
    v.extend(b.frames.frame_ends.iter().map(|(e, _)| *e));
    v.sort();
    v.dedup();
    v
}

pub struct Mutated {
    pub wire: Vec<u8>,
    /// first wire offset that differs from the original (or where bytes were displaced)
    pub w: usize,
    /// the mutation touches only bytes the protocol leaves unauthenticated
    pub neutral: bool,
    pub kind: &'static str,
    pub unchanged: bool,
}

pub fn apply(m: &Mutation, b: &Built) -> Mutated {
    let orig = &b.frames.wire;
    let n = orig.len();
    let r = regions(b);
    let nreg = r.len() - 1;
    let mut wire = orig.clone();
    let kind;
    let mut neutral = false;
    let in_unauth = |a: usize, z: usize| b.frames.unauth.iter().any(|(s, e)| *s <= a && z <= *e);
    match m {
        Mutation::BitFlip(p, bit) => {
            let pos = rt::idx(*p, n);
            wire[pos] ^= 1 << (bit % 8);
            neutral = in_unauth(pos, pos + 1);
            kind = "bit-flip";
        }
        Mutation::FlipAt(p, bit) => {
            let pos = (*p as usize).min(n - 1);
            wire[pos] ^= 1 << (bit % 8);
            neutral = in_unauth(pos, pos + 1);
            kind = "bit-flip";
        }
        Mutation::Truncate(p) => {
            wire.truncate(rt::idx(*p, n));
            kind = "truncate";
        }
        Mutation::TruncateAt(p) => {
            wire.truncate((*p as usize).min(n));
            kind = "truncate";
        }
        Mutation::DeleteFrame(f) => {
            let k = rt::idx(*f, nreg);
            wire.drain(r[k]..r[k + 1]);
            kind = "delete-frame";
        }
        Mutation::DupFrame(f) => {
            let k = rt::idx(*f, nreg);
            let seg = orig[r[k]..r[k + 1]].to_vec();
            let at = r[k + 1];
            wire.splice(at..at, seg);
            kind = "dup-frame";
        }
        Mutation::SwapFrames(f) => {
            if nreg >= 2 {
                let k = rt::idx(*f, nreg - 1);
                let a = orig[r[k]..r[k + 1]].to_vec();
                let z = orig[r[k + 1]..r[k + 2]].to_vec();
                let mut nw = orig[..r[k]].to_vec();
                nw.extend(z);
                nw.extend(a);
                nw.extend_from_slice(&orig[r[k + 2]..]);
                wire = nw;
            }
            kind = "swap-frames";
        }
        Mutation::Garbage(f, k) => {
            let i = rt::idx(*f, nreg);
            let mut d = Det::new(*f as u64 * 131 + *k as u64, "garbage");
            let g = d.bytes(*k as usize * 18);
            wire.splice(r[i]..r[i + 1], g);
            kind = "garbage-frame";
        }
        Mutation::Edit(p, bytes) => {
            let pos = rt::idx(*p, n);
            let end = (pos + bytes.len()).min(n);
            for (i, x) in bytes.iter().enumerate() {
                if pos + i < n {
                    wire[pos + i] ^= x | 1;
                }
            }
            neutral = in_unauth(pos, end);
            kind = "multi-byte-edit";
        }
        Mutation::Insert(p, bytes) => {
            let pos = rt::idx(*p, n + 1);
            wire.splice(pos..pos, bytes.iter().copied());
            kind = "insert";
        }
        Mutation::ResizeFrame(f, s) => {
            let k = rt::idx(*f, nreg);
            let (a, z) = (r[k], r[k + 1]);
            if z - a > 3 {
                let old = z - a - 2;
                let new = (*s as usize) % old;
                let x = (old ^ new) as u16;
                let mut nw = orig[..a].to_vec();
                nw.push(orig[a] ^ (x >> 8) as u8);
                nw.push(orig[a + 1] ^ (x & 0xff) as u8);
                nw.extend_from_slice(&orig[a + 2..a + 2 + new]);
                nw.extend_from_slice(&orig[z..]);
                wire = nw;
            }
            kind = "resize-frame";
        }
    }
    // first changed offset that is *authenticated* (differences confined to unauthenticated padding do not count)
    let w = wire
        .iter()
        .zip(orig.iter())
        .enumerate()
        .position(|(i, (a, b))| a != b && !in_unauth(i, i + 1))
        .unwrap_or(wire.len().min(orig.len()));
    let unchanged = wire == *orig;
    Mutated { wire, w, neutral, kind, unchanged }
}

fn collect_released(c: &TamperCase, b: Built, segs: Vec<Vec<u8>>) -> (Option<String>, Vec<u8>, bool, usize) {
    // returns (panic, released bytes, flow confused/rejected, number of errors)
    match c.dir {
        Dir::Request => {
            let Ok(sctx) = ServerCtx::new(&c.cred) else { return (None, vec![], false, 0) };
            let codec = sctx.codec().expect("server codec");
            let col: Collected<InboundIn> = match c.adapter {
                Adapter::Framed => run_framed(codec, segs, false),
                Adapter::Ws => run_ws(codec, segs, WsRole::Server, false),
            };
            // server consumer: errors are filtered out, decoding goes on until the stream ends
            let items: Vec<Item> = col.oks().map(|i| Item::from_inbound(i).0).collect();
            let nerr = col.seq.iter().filter(|r| r.is_err()).count();
            let released: Vec<u8> = items
                .iter()
                .flat_map(|i| match i {
                    Item::Connect(b, _) | Item::Tcp(b) | Item::Udp(b, _) => b.clone(),
                })
                .collect();
            let confused = matches!(flow_of(&items), Flow::Confused(_));
            (col.panic, released, confused, nerr)
        }
        Dir::Response => {
            let codec = b.client.expect("client codec");
            let col: Collected<BytesMut> = match c.adapter {
                Adapter::Framed => run_framed(codec, segs, false),
                Adapter::Ws => run_ws(codec, segs, WsRole::Client, false),
            };
            let nerr = col.seq.iter().filter(|r| r.is_err()).count();
            let rel: Vec<u8> = col.oks().flat_map(|b| b.to_vec()).collect();
            (col.panic, rel, false, nerr)
        }
    }
}

pub fn exec_tamper(sub: &str, c: &TamperCase) -> Outcome {
    let mut out = Outcome::new();
    real::set_clock(Some(T0));
    let fam = family(c.cred.proto);
    out.label(format!("proto:{}", c.cred.proto.short()));
    out.label(format!("dir:{:?}", c.dir));
    out.label(format!("adapter:{:?}", c.adapter));
    let cc = as_cut_case(c);
    let Some(b) = build_stream(&cc, &mut out, sub) else {
        return out;
    };
    let m = apply(&c.mutation, &b);
    out.label(format!("mutation:{}", m.kind));
    if m.unchanged {
        out.label("mutation-is-identity");
        return out;
    }
    if m.neutral {
        out.label("neutral:unauthenticated-padding-only");
    }
    // plaintext of all frames that end at or before the first changed offset
    let p_w: usize = b.frames.units.iter().filter(|u| u.end <= m.w).map(|u| u.app_bytes).sum();
    let payload = b.payload.clone();
    // segmentation: original region boundaries before the tamper point, one piece per region afterwards (WS: one message each)
    let r = regions(&b);
    let mut cuts: Vec<usize> = r.iter().copied().filter(|x| *x <= m.w).collect();
    let shift = m.wire.len() as i64 - b.frames.wire.len() as i64;
    cuts.extend(r.iter().filter(|x| **x > m.w).map(|x| (*x as i64 + shift).max(0) as usize));
    let exempt = crate::props::c04::exempt_prefix(&c.cred, &b.frames);
    cuts.retain(|x| *x >= exempt);
    match c.coalesce {
        1 => cuts.clear(),
        2 => {
            let mut k = 0;
            cuts.retain(|_| {
                k += 1;
                k % 2 == 0
            });
        }
        _ => {}
    }
    out.label(format!("delivery:{}", match c.coalesce { 1 => "whole-stream-in-one-read", 2 => "regions-in-pairs", _ => "one-region-per-read" }));
    let segs = cut(&m.wire, &cuts);
    let unit_idx = b.frames.frame_ends.iter().filter(|(e, _)| *e <= m.w).count();
    let field = if m.w < b.frames.header_end {
        "header"
    } else if let Some(u) = b.frames.units.iter().find(|u| u.start <= m.w && m.w < u.end) {
        u.kind
    } else {
        "other"
    };
    if !m.neutral && p_w > 0 {
        out.nontrivial(format!("{}|{:?}|{:?}|{:#x}|{}|{}|{}", c.cred.proto.short(), c.dir, c.adapter, c.vmess_mask, m.kind, unit_idx.min(4), field));
    }
    let (panic, released, _confused, _nerr) = collect_released(c, b, segs);
    let ad = if c.adapter == Adapter::Framed { "framed" } else { "ws" };
    let who = if c.dir == Dir::Request { "server" } else { "client" };
    if let Some(p) = panic {
        // a panic on tampered input is C07's finding; it releases nothing
        out.label("decoder-panicked");
        let _ = p;
        return out;
    }
    if !payload.starts_with(&released) {
        out.fail(
            format!("{}/{}/{}/{}-releases-bytes-that-are-not-a-prefix/{}", sub, fam, ad, who, m.kind),
            format!("mutation {:?} at wire offset {}: released {} bytes, first difference from the sender's plaintext at {:?}", c.mutation, m.w, released.len(), first_diff(&released, &payload)),
        );
        return out;
    }
    if !m.neutral && released.len() > p_w {
        out.fail(
            format!("{}/{}/{}/{}-releases-plaintext-past-the-tamper-point/{}", sub, fam, ad, who, m.kind),
            format!("mutation {:?}: first changed wire offset {}, {} plaintext bytes belong to frames complete before it, but {} bytes were released", c.mutation, m.w, p_w, released.len()),
        );
    }
    out
}

pub struct StreamTamper;

impl SubCheck for StreamTamper {
    type Case = TamperCase;
    fn name(&self) -> &'static str {
        "stream-tamper"
    }
    fn strategy(&self, _tier: Tier) -> BoxedStrategy<TamperCase> {
        tamper_strategy()
    }
    fn exec(&self, c: &TamperCase) -> Outcome {
        exec_tamper("stream-tamper", c)
    }
}

/// Every single-bit flip (one bit per byte in quick, all eight in thorough) and every truncation point of one
/// 3-frame stream per (decoder x cipher).
pub struct StreamTamperExhaustive;

impl SubCheck for StreamTamperExhaustive {
    type Case = TamperCase;
    fn name(&self) -> &'static str {
        "stream-tamper-exhaustive"
    }
    fn strategy(&self, _tier: Tier) -> BoxedStrategy<TamperCase> {
        tamper_strategy()
    }
    fn exec(&self, c: &TamperCase) -> Outcome {
        exec_tamper("stream-tamper-exhaustive", c)
    }
}

fn exhaustive_cases(seed: u64, tier: Tier) -> Vec<TamperCase> {
    let mut all = vec![];
    for proto in encrypted_protos() {
        let masks: Vec<u8> = if matches!(proto, Proto::Vmess(_)) { vec![0x01, 0x05, 0x0d, 0x11, 0x1d] } else { vec![0x1d] };
        for mask in masks {
            for dir in [Dir::Request, Dir::Response] {
                let cred = gen::make_cred(proto, "tamper me", seed ^ 0x7a, if matches!(proto, Proto::Ss22(c) if c.is_aes()) { 2 } else { 0 }, 1);
                let base = TamperCase { cred, addr: Addr::V4([10, 1, 2, 3], 8080), frames: vec![9, 14, 11], seed, vmess_mask: mask, dir, adapter: Adapter::Framed, mutation: Mutation::TruncateAt(0), coalesce: 0 };
                let mut tmp = Outcome::new();
                real::set_clock(Some(T0));
                let Some(b) = build_stream(&as_cut_case(&base), &mut tmp, "stream-tamper-exhaustive") else { continue };
                let n = b.frames.wire.len();
                for p in 0..n {
                    let bits: Vec<u8> = if tier == Tier::Thorough { (0..8).collect() } else { vec![((p * 5 + 3) % 8) as u8] };
                    for bit in bits {
                        let mut c = base.clone();
                        c.mutation = Mutation::FlipAt(p as u32, bit);
                        if tier == Tier::Thorough && p % 2 == 1 {
                            c.adapter = Adapter::Ws;
                        }
                        // every other position: the whole stream arrives in one read
                        c.coalesce = (p % 2) as u8;
                        all.push(c);
                    }
                    let mut c = base.clone();
                    c.mutation = Mutation::TruncateAt(p as u32);
                    all.push(c);
                }
            }
        }
    }
    all
}

// ------------------------------------------------------------------------ reflection / cross-session splices

#[derive(Clone, Debug, Serialize, Deserialize)]
pub struct ReflectCase {
    pub cred: Cred,
    pub addr: Addr,
    pub frames: Vec<u32>,
    pub seed: u64,
    /// 0: client's own request fed back to the client decoder; 1: server's own response fed to the server decoder;
    /// 2: response of *another* session of the same key fed to the client; 3: reference request fed to the client decoder;
    /// 4: reference response fed to the server decoder
    pub mode: u8,
}

pub struct Reflect;

impl SubCheck for Reflect {
    type Case = ReflectCase;
    fn name(&self) -> &'static str {
        "reflect-splice"
    }
    fn strategy(&self, _tier: Tier) -> BoxedStrategy<ReflectCase> {
        let protos: Vec<Proto> = Proto::all().into_iter().filter(|p| matches!(p, Proto::Ss22(_) | Proto::Vmess(_))).collect();
        (proptest::sample::select(protos).prop_flat_map(gen::cred_for), gen::addr_strategy(), proptest::collection::vec(1u32..600, 1..4), any::<u64>(), 0u8..5)
            .prop_map(|(CredGen { cred, .. }, addr, frames, seed, mode)| ReflectCase { cred, addr, frames, seed, mode })
            .boxed()
    }
    fn exec(&self, c: &ReflectCase) -> Outcome {
        let mut out = Outcome::new();
        real::set_clock(Some(T0));
        let fam = family(c.cred.proto);
        out.label(format!("proto:{}", c.cred.proto.short()));
        out.label(format!("mode:{}", c.mode));
        out.nontrivial(format!("{}|{}|{}", c.cred.proto.short(), c.mode, c.frames.len()));
        let Some(address) = to_address(&c.addr) else { return out };
        let Ok(cctx) = ClientCtx::new(&c.cred) else { return out };
        let Ok(sctx) = ServerCtx::new(&c.cred) else { return out };
        let writes = gen::writes_from_lens(c.seed, &c.frames);
        let mut d = Det::new(c.seed, "reflect");
        // a real session: client request -> server
        let Ok(mut ccodec) = cctx.codec(&address) else { return out };
        let Ok((req_wire, _)) = encode_all(&mut ccodec, writes.iter().map(|w| BytesMut::from(&w[..])).collect::<Vec<_>>()) else { return out };
        let mut scodec = sctx.codec().unwrap();
        let (items, _, fed) = feed_server(&mut scodec, &[req_wire.clone()]);
        if !fed.clean() || !matches!(flow_of(&items), Flow::Tcp { .. }) {
            return out; // C03's business
        }
        let Ok((resp_wire, _)) = encode_all(&mut scodec, writes.iter().map(|w| OutboundIn::Tcp(BytesMut::from(&w[..]))).collect::<Vec<_>>()) else { return out };
        let Ok(req_dec) = refside::ref_server_decode(&c.cred, &req_wire, T0) else { return out };
        let (what, released): (&str, Vec<u8>) = match c.mode {
            0 => {
                let fed = crate::drive::feed(&mut ccodec, &[req_wire.clone()]);
                ("client-accepts-its-own-reflected-request", fed.items.iter().flat_map(|b| b.to_vec()).collect())
            }
            1 => {
                let (items, _, _) = feed_server(&mut scodec, &[resp_wire.clone()]);
                ("server-accepts-its-own-reflected-response", items.iter().flat_map(|i| match i { Item::Connect(b, _) | Item::Tcp(b) | Item::Udp(b, _) => b.clone() }).collect())
            }
            2 => {
                // a second, independent session of the same key: its response must not be accepted by the first client
                let Ok(mut ccodec2) = cctx.codec(&address) else { return out };
                let Ok((req2, _)) = encode_all(&mut ccodec2, vec![BytesMut::from(&b"second session"[..])]) else { return out };
                let Ok(dec2) = refside::ref_server_decode(&c.cred, &req2, T0) else { return out };
                let Ok(resp2) = refside::ref_server_response(&c.cred, &dec2.session, &writes, &RespOpts::new(T0), &mut d) else { return out };
                let fed = crate::drive::feed(&mut ccodec, &[resp2.wire.clone()]);
                ("client-accepts-response-of-another-session", fed.items.iter().flat_map(|b| b.to_vec()).collect())
            }
            3 => {
                let mut o = refside::ReqOpts::new(T0);
                o.vmess_opt = 0x1d;
                let Ok(f) = refside::ref_client_request(&c.cred, &c.addr, &writes, &o, &mut d) else { return out };
                let fed = crate::drive::feed(&mut ccodec, &[f.wire.clone()]);
                ("client-accepts-a-request-stream", fed.items.iter().flat_map(|b| b.to_vec()).collect())
            }
            _ => {
                let Ok(resp) = refside::ref_server_response(&c.cred, &req_dec.session, &writes, &RespOpts::new(T0), &mut d) else { return out };
                let sctx2 = ServerCtx::new(&c.cred).unwrap();
                let mut fresh = sctx2.codec().unwrap();
                let (items, _, _) = feed_server(&mut fresh, &[resp.wire.clone()]);
                ("server-accepts-a-response-stream", items.iter().flat_map(|i| match i { Item::Connect(b, _) | Item::Tcp(b) | Item::Udp(b, _) => b.clone() }).collect())
            }
        };
        if !released.is_empty() {
            out.fail(format!("reflect-splice/{}/{}", fam, what), format!("{} plaintext bytes were released from traffic that does not belong to this direction/session", released.len()));
        }
        out
    }
}

// ------------------------------------------------------------------------ datagrams

#[derive(Clone, Debug, Serialize, Deserialize)]
pub struct DgramTamperCase {
    pub cred: Cred,
    pub addr: Addr,
    pub len: u32,
    pub seed: u64,
    /// true: server decodes a client packet; false: client decodes a server packet
    pub to_server: bool,
    pub mutation: Mutation,
    /// feed the packet to the decoder of its own sender's side instead (2022 only)
    pub reflect: bool,
    /// 2022 only: the first `splice_header` bytes are taken from another valid datagram of the same session and direction
    /// (packet id 2 instead of 1, other payload); 0 = use `mutation`
    #[serde(default)]
    pub splice_header: u8,
    /// the valid datagrams come from the implementation's own encoder (client codec / server codec) instead of the
    /// reference: whatever the implementation itself accepts as valid is the baseline, so a change that keeps encoder and
    /// decoder consistent with each other but weakens what the tag covers cannot hide behind "baseline refused"
    #[serde(default)]
    pub impl_built: bool,
}

pub struct DgramTamper;

impl SubCheck for DgramTamper {
    type Case = DgramTamperCase;
    fn name(&self) -> &'static str {
        "dgram-tamper"
    }
    fn strategy(&self, _tier: Tier) -> BoxedStrategy<DgramTamperCase> {
        let protos: Vec<Proto> = Proto::all().into_iter().filter(|p| matches!(p, Proto::Ss22(_) | Proto::SsLegacy(_))).collect();
        let mutation = prop_oneof![
            6 => (any::<u16>(), 0u8..8).prop_map(|(p, b)| Mutation::BitFlip(p, b)),
            2 => any::<u16>().prop_map(Mutation::Truncate),
            2 => (any::<u16>(), proptest::collection::vec(any::<u8>(), 1..16)).prop_map(|(p, b)| Mutation::Edit(p, b)),
            1 => (any::<u16>(), proptest::collection::vec(any::<u8>(), 1..16)).prop_map(|(p, b)| Mutation::Insert(p, b)),
        ];
        (proptest::sample::select(protos).prop_flat_map(gen::cred_for), gen::addr_strategy(), prop_oneof![0u32..64, 64u32..1500], any::<u64>(), any::<bool>(), mutation, proptest::bool::weighted(0.15), prop_oneof![5 => Just(0u8), 2 => proptest::sample::select(vec![8u8, 16, 24, 32, 40, 48])], proptest::bool::weighted(0.4))
            .prop_map(|(CredGen { cred, .. }, addr, len, seed, to_server, mutation, reflect, splice_header, impl_built)| DgramTamperCase { cred, addr, len, seed, to_server, mutation, reflect, splice_header, impl_built })
            .boxed()
    }
    fn exec(&self, c: &DgramTamperCase) -> Outcome {
        let mut out = Outcome::new();
        real::set_clock(Some(T0));
        let fam = family(c.cred.proto);
        out.label(format!("proto:{}", c.cred.proto.short()));
        let Ok(keys) = refside::ref_keys(&c.cred) else { return out };
        let mut d = Det::new(c.seed, "dgt");
        let payload = gen::keystream(c.seed, 0, c.len as usize);
        let reflect = c.reflect && matches!(c.cred.proto, Proto::Ss22(_));
        if c.impl_built && !reflect {
            return exec_impl_built(c, out, &payload);
        }
        // build a valid packet of the chosen direction with the reference
        let mut sibling: Option<Vec<u8>> = None;
        let wire: Vec<u8> = match c.cred.proto {
            Proto::SsLegacy(l) => ss::encode_datagram(l, &keys.legacy_key, &d.bytes(l.key_len()), &c.addr, &payload),
            Proto::Ss22(cc) if c.splice_header > 0 && !reflect => {
                // two valid datagrams of one session: packet ids 1 and 2, different payloads
                let other = gen::keystream(c.seed ^ 0x5157, 0, (c.len as usize) + 3);
                let (sid, ssid) = (d.u64(), d.u64());
                let ipsks = if cc.is_aes() { keys.client_ipsks.clone() } else { vec![] };
                let mk = |pid: u64, pl: &Vec<u8>, xn: Vec<u8>| {
                    if c.to_server {
                        ss2022::encode_udp_client(cc, &keys.client_upsk, &ipsks, &UdpClientPacket { sid, pid, typ: 0, ts: T0, padding: vec![], addr: c.addr.clone(), payload: pl.clone(), xnonce: xn })
                    } else {
                        ss2022::encode_udp_server(cc, &keys.client_upsk, &UdpServerPacket { ssid, pid, typ: 1, ts: T0, client_sid: sid, padding: vec![], addr: c.addr.clone(), payload: pl.clone(), xnonce: xn })
                    }
                };
                let (x1, x2) = (d.bytes(24), d.bytes(24));
                sibling = Some(mk(2, &other, x2));
                mk(1, &payload, x1)
            }
            Proto::Ss22(cc) => {
                // For reflection the packet is crafted so that it is *well-formed when parsed as the opposite type*:
                // only the type byte (and nothing accidental) stands between it and delivery.
                let x = (c.seed % 40) as usize;
                if c.to_server {
                    let ipsks = if cc.is_aes() { keys.client_ipsks.clone() } else { vec![] };
                    let mut padding = d.bytes(8 + x);
                    padding[6..8].copy_from_slice(&(x as u16).to_be_bytes());
                    ss2022::encode_udp_client(cc, &keys.client_upsk, &ipsks, &UdpClientPacket { sid: d.u64(), pid: 1, typ: 0, ts: T0, padding, addr: c.addr.clone(), payload: payload.clone(), xnonce: d.bytes(24) })
                } else {
                    let client_sid = (((8 + x) as u64) << 48) | (d.u64() >> 16);
                    ss2022::encode_udp_server(cc, &keys.client_upsk, &UdpServerPacket { ssid: d.u64(), pid: 1, typ: 1, ts: T0, client_sid, padding: d.bytes(x), addr: c.addr.clone(), payload: payload.clone(), xnonce: d.bytes(24) })
                }
            }
            _ => unreachable!(),
        };
        let fake = Built { frames: refside::Frames { wire: wire.clone(), frame_ends: vec![], units: vec![], session: refside::SessionInfo::None, unauth: vec![], header_end: 0 }, payload: vec![], client: None };
        let m = if reflect {
            Mutated { wire: wire.clone(), w: 0, neutral: false, kind: "reflect", unchanged: false }
        } else if let Some(sib) = &sibling {
            let n = (c.splice_header as usize).min(wire.len()).min(sib.len());
            let mut w2 = sib[..n].to_vec();
            w2.extend_from_slice(&wire[n..]);
            let unchanged = w2 == wire;
            Mutated { wire: w2, w: 0, neutral: false, kind: "header-splice", unchanged }
        } else {
            apply(&c.mutation, &fake)
        };
        out.label(format!("mutation:{}", m.kind));
        if m.unchanged {
            return out;
        }
        out.nontrivial(format!("{}|{}|{}|{}", c.cred.proto.short(), c.to_server, m.kind, (m.w * 8 / wire.len().max(1)).min(7)));
        // server decodes client packets; with `reflect` the packet goes to the wrong side's decoder
        let feed_to_server = c.to_server != reflect;
        let mut src = BytesMut::from(&m.wire[..]);
        let got: Option<String> = if feed_to_server {
            let Ok(sudp) = real::server_udp(&c.cred) else { return out };
            match rt::catch(|| sudp.decode(&mut src)) {
                Err(_) => None, // panic: C07's finding
                Ok(Err(_)) | Ok(Ok(None)) => None,
                Ok(Ok(Some((content, a, _)))) => Some(format!("{} bytes for {:?}", content.len(), a)),
            }
        } else {
            let Ok(cctx) = real::ClientUdpCtx::new(&c.cred) else { return out };
            let mut cc = cctx.codec();
            match rt::catch(|| cc.decode(&mut src)) {
                Err(_) => None,
                Ok(Err(_)) | Ok(Ok(None)) => None,
                Ok(Ok(Some((content, a)))) => Some(format!("{} bytes from {:?}", content.len(), a)),
            }
        };
        if let Some(g) = got {
            out.fail(
                format!("dgram-tamper/{}/{}-delivers-{}-datagram", fam, if feed_to_server { "server" } else { "client" }, if reflect { "reflected" } else { "tampered" }),
                format!("{} datagram ({:?}, first changed offset {} of {}) was delivered: {}", m.kind, c.mutation, m.w, wire.len(), g),
            );
        }
        out
    }
}

/// dgram-tamper with datagrams made by the implementation's own encoders: the client codec sends two datagrams of one
/// session, the server codec answers them under one server session. The victim is datagram 1 of the chosen direction; it
/// is mutated, or its first bytes are replaced by those of datagram 2 (same session, same direction, still acceptable to
/// any replay window), and fed to the receiving side. The untampered datagram 1 must be delivered (otherwise the case
/// says nothing and is not counted), the tampered one must not.
fn exec_impl_built(c: &DgramTamperCase, mut out: Outcome, payload: &[u8]) -> Outcome {
    let fam = family(c.cred.proto);
    out.label("built-by:implementation");
    let Some(address) = to_address(&c.addr) else { return out };
    let Ok(cctx) = real::ClientUdpCtx::new(&c.cred) else { return out };
    let Ok(sudp) = real::server_udp(&c.cred) else { return out };
    let mut cc = cctx.codec();
    let other = gen::keystream(c.seed ^ 0x5157, 0, payload.len() + 3);
    let enc_c = |cc: &mut Box<dyn real::ClientUdpDyn>, p: &[u8]| -> Option<Vec<u8>> {
        let mut w = BytesMut::new();
        match rt::catch(|| cc.encode(p, address.clone(), &mut w)) {
            Ok(Ok(())) => Some(w.to_vec()),
            _ => None,
        }
    };
    let (Some(q1), Some(q2)) = (enc_c(&mut cc, payload), enc_c(&mut cc, &other)) else { return out };
    // the server's view of the session (needed for replies, and the baseline of the client->server direction)
    let sess = match rt::catch(|| sudp.decode(&mut BytesMut::from(&q1[..]))) {
        Ok(Ok(Some((content, a, sess)))) if content == payload && a == address => sess,
        _ => {
            out.label("baseline-not-delivered");
            return out;
        }
    };
    let (wire, sib): (Vec<u8>, Vec<u8>) = if c.to_server {
        (q1, q2)
    } else {
        let mut mk = |pid: u64, p: &[u8]| -> Option<Vec<u8>> {
            let mut rs = sess.clone();
            rs.server_sid = 0x7a00_0000_0000_0000 | (c.seed >> 8);
            rs.pid = pid;
            let mut w = BytesMut::new();
            match rt::catch(|| sudp.encode(p, address.clone(), &rs, &mut w)) {
                Ok(Ok(())) => Some(w.to_vec()),
                _ => None,
            }
        };
        let (Some(r1), Some(r2)) = (mk(1, payload), mk(2, &other)) else { return out };
        (r1, r2)
    };
    let fake = Built { frames: refside::Frames { wire: wire.clone(), frame_ends: vec![], units: vec![], session: refside::SessionInfo::None, unauth: vec![], header_end: 0 }, payload: vec![], client: None };
    let splice = c.splice_header > 0 && matches!(c.cred.proto, Proto::Ss22(_));
    let m = if splice {
        let n = (c.splice_header as usize).min(wire.len()).min(sib.len());
        let mut w2 = sib[..n].to_vec();
        w2.extend_from_slice(&wire[n..]);
        let unchanged = w2 == wire;
        Mutated { wire: w2, w: 0, neutral: false, kind: "header-splice", unchanged }
    } else {
        apply(&c.mutation, &fake)
    };
    out.label(format!("mutation:{}", m.kind));
    if m.unchanged {
        return out;
    }
    // tampered datagram first (fresh receiver state as far as replay filters go), then the untampered one as the baseline
    let mut deliver = |w: &[u8]| -> Option<String> {
        let mut src = BytesMut::from(w);
        if c.to_server {
            match rt::catch(|| sudp.decode(&mut src)) {
                Ok(Ok(Some((content, a, _)))) => Some(format!("{} bytes for {:?}", content.len(), a)),
                _ => None,
            }
        } else {
            match rt::catch(|| cc.decode(&mut src)) {
                Ok(Ok(Some((content, a)))) => Some(format!("{} bytes from {:?}", content.len(), a)),
                _ => None,
            }
        }
    };
    let got = deliver(&m.wire);
    if let Some(g) = got {
        out.fail(
            format!("dgram-tamper/{}/{}-delivers-tampered-datagram/implementation-built", fam, if c.to_server { "server" } else { "client" }),
            format!("{} datagram made by the implementation's own encoder ({:?}, first changed offset {} of {}) was delivered: {}", m.kind, c.mutation, m.w, wire.len(), g),
        );
        return out;
    }
    if deliver(&wire).is_none() {
        out.label("baseline-not-delivered");
        return out;
    }
    out.nontrivial(format!("impl|{}|{}|{}|{}", c.cred.proto.short(), c.to_server, m.kind, (m.w * 8 / wire.len().max(1)).min(7)));
    out
}

pub fn subs() -> Vec<Box<dyn DynSub>> {
    vec![Box::new(StreamTamper), Box::new(StreamTamperExhaustive), Box::new(Reflect), Box::new(DgramTamper)]
}

pub fn run(ctx: &mut PropCtx) {
    ctx.rule = "valid encrypted streams/datagrams (Shadowsocks AEAD, Shadowsocks 2022, VMess; both directions; all ciphers and masks) are built \
                by the reference encoder with known plaintext P and known unit boundaries; one generated mutation is applied (bit flip, \
                truncation, frame deletion / duplication / swap, replacement of a frame by k*18 garbage bytes, multi-byte edit, insertion; \
                reflection to the sender's own decoder; response of another session; request fed to a client / response fed to a server); \
                the result is delivered through the real FramedRead / WebSocketFramed with the server's error-skipping consumer. Oracle: \
                released bytes R are a prefix of P and |R| <= plaintext of the frames complete before the first changed offset; a mutated \
                or reflected datagram yields no item. Mutations confined to VMess' unauthenticated global padding are labelled neutral and \
                only the prefix half applies. Non-trivial = an authenticated byte changes after >= 1 complete frame; distinct by (decoder, \
                direction, adapter, mask, mutation kind, frame index, field). The exhaustive sub-check enumerates every byte position's bit \
                flip and every truncation point of one 3-frame stream per decoder configuration."
        .into();
    ctx.assumptions = vec!["Trojan is not an encrypted protocol and is out of the property's scope".into(), "a decoder panic on tampered input releases nothing; it is reported by C07, not here".into()];
    let t = ctx.tier;
    rt::run_sub(ctx, &StreamTamper, t.pick(300_000, 3_000_000));
    let cases = exhaustive_cases(ctx.seed, t);
    rt::run_list(ctx, &StreamTamperExhaustive, "stream-tamper-exhaustive", cases);
    ctx.mark_exhaustive("stream-tamper-exhaustive", "every byte position (quick: one bit per byte; thorough: all 8) and every truncation point of one 3-frame stream per decoder configuration");
    rt::run_sub(ctx, &Reflect, t.pick(50_000, 400_000));
    rt::run_sub(ctx, &DgramTamper, t.pick(200_000, 2_000_000));
}
