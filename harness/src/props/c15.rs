//! C15 – Closing or failing one side tears the whole flow down and frees it (Engine B, fault enumeration).
use crate::ev::{Outcome, PropCtx, Tier};
use crate::real::Proto;
use crate::rt::{self, DynSub, SubCheck};
use crate::sys::cluster::{all_tcp_combos, Cluster, Spec, Transport};
use crate::sys::flow::{run_flow, Ending, FlowFail, FlowScript, Op, OpenFlow};
use crate::sys::net::{self, Hs};
use crate::sys::procfs;
use crate::sys::tap::{Policy, Tap};
use proptest::prelude::*;
use proptest::strategy::BoxedStrategy;
use serde::{Deserialize, Serialize};
use std::io::{Read, Write};
use std::net::Shutdown;
use std::time::{Duration, Instant};

#[derive(Clone, Copy, Debug, Serialize, Deserialize, PartialEq, Eq, Hash, PartialOrd, Ord)]
pub enum End {
    /// application closes after everything addressed to it has arrived
    AppClosesClean,
    /// application closes while the target is still sending to it
    AppClosesInFlight,
    TargetClosesClean,
    /// target closes while the application is still sending to it
    TargetClosesInFlight,
    AppResets,
    TargetResets,
    /// the client<->server link is cut (tap; stream transports only)
    LinkCut,
    /// application closes; the target reads end-of-stream but keeps its own socket open: the relay must still let go
    AppClosesTargetLingers,
    /// target closes; the application reads end-of-stream but keeps its own socket open
    TargetClosesAppLingers,
    /// one-shot upload: handshake, a large write, close() at once, no warm-up; the (possibly slow) target must still read
    /// everything and then end-of-stream
    ColdUploadThenClose,
    /// the target writes a short answer (at most 32 KiB: it sits in the server's receive queue before the reset does) and
    /// resets at once. "Everything already received from the closing side is first delivered": the server can read the
    /// whole answer before it sees the error, so the application must get all of it, then end-of-stream or a reset.
    TargetAnswersThenResets,
    /// the same from the application's side: a last short write, then a reset at once
    AppSendsThenResets,
    /// the target can be neither reached nor ruled out (its accept queue is full, SYNs are dropped): the application sends a
    /// request, waits a moment and closes. The server is still connecting and does not answer the close; the client must
    /// let go of the flow within a bound of its own all the same. Once the target accepts again everything is released.
    AppClosesTargetStalled,
    /// nobody listens on the requested port
    TargetRefused,
    /// the requested name does not resolve
    TargetUnresolvable,
    /// one-shot upload closed at once towards a target (small receive buffer) that comes for it only after every timer of
    /// the relay has run out (12.5 s): everything the application wrote is still delivered, then end-of-stream
    ColdUploadLateTarget,
    /// the server process is killed while the flows are open (the link fails without any announcement): the application and
    /// the target observe end-of-stream or a reset and the client lets go of the flows
    ServerKilled,
    /// the same with the client process killed: the target observes the end and the server lets go
    ClientKilled,
}

impl End {
    /// endings that take ten seconds and more, or end the cluster: rare in generated batches
    pub const EXPENSIVE: [End; 3] = [End::ColdUploadLateTarget, End::ServerKilled, End::ClientKilled];
    pub const ALL: [End; 18] = [
        End::AppClosesClean,
        End::AppClosesInFlight,
        End::TargetClosesClean,
        End::TargetClosesInFlight,
        End::AppResets,
        End::TargetResets,
        End::LinkCut,
        End::AppClosesTargetLingers,
        End::TargetClosesAppLingers,
        End::ColdUploadThenClose,
        End::TargetAnswersThenResets,
        End::AppSendsThenResets,
        End::AppClosesTargetStalled,
        End::TargetRefused,
        End::TargetUnresolvable,
        End::ColdUploadLateTarget,
        End::ServerKilled,
        End::ClientKilled,
    ];
}

#[derive(Clone, Debug, Serialize, Deserialize)]
pub struct FlowEnd {
    pub hs: Hs,
    pub first: u32,
    pub up: u32,
    pub down: u32,
    pub end: End,
}

#[derive(Clone, Debug, Serialize, Deserialize)]
pub struct Case {
    pub spec: Spec,
    pub flows: Vec<FlowEnd>,
    /// run the batch concurrently (otherwise one after the other)
    pub concurrent: bool,
}

fn deadline() -> Duration {
    Duration::from_secs(if rt::failed_already() { 4 } else { 12 })
}

fn soft(sig: &str, msg: String) -> FlowFail {
    FlowFail { soft: true, sig: sig.into(), msg }
}

/// Runs one flow to its terminating event and checks what the *other* side observes. Returns whether the flow had moved
/// bytes in both directions before the event.
fn run_one(client_port: u16, f: &FlowEnd, tag: u64, tap: Option<&Tap>, keep: &std::sync::Mutex<Vec<std::net::TcpStream>>) -> (Option<FlowFail>, bool) {
    match f.end {
        End::AppClosesClean | End::TargetClosesClean => {
            let sc = FlowScript {
                hs: f.hs,
                first: f.first,
                ops: vec![Op::AppWrite(f.up.max(1)), Op::TargetWrite(f.down.max(1)), Op::Sync],
                ending: if f.end == End::AppClosesClean { Ending::AppCloses(f.up % 5000) } else { Ending::TargetCloses(f.down % 5000) },
                slow_reader_ms: 0,
                idle_ms: 0,
            };
            let (rep, _) = run_flow(client_port, &sc, tag);
            (rep.fail, true)
        }
        End::ColdUploadLateTarget => {
            let n = (f.up.max(40_000)).saturating_mul(8).min(900_000);
            let r = crate::sys::flow::cold_upload_opt(client_port, f.hs, n, tag, 12_500, true);
            (r.err().map(|mut e| {
                e.sig = format!("{}-by-a-late-target", e.sig);
                e
            }), true)
        }
        End::ServerKilled | End::ClientKilled => unreachable!("handled by exec_once"),
        End::ColdUploadThenClose => {
            let n = (f.up.max(20_000)).saturating_mul(8).min(1_400_000);
            let r = crate::sys::flow::cold_upload(client_port, f.hs, n, tag, if f.down % 3 == 0 { 900 + (f.down % 700) as u16 } else { (f.down % 300) as u16 });
            (r.err(), true)
        }
        End::TargetRefused | End::TargetUnresolvable => {
            // the application asks for a target that cannot be reached; it must observe end-of-stream, not a hang
            let t0;
            let mut s = if f.end == End::TargetRefused {
                let closed = crate::sys::free_port();
                match net::app_connect(client_port, Hs::Socks5V4, closed, Duration::from_secs(10)) {
                    Ok((s, _)) => s,
                    Err(e) => return (Some(soft("handshake", e)), false),
                }
            } else {
                let Ok(mut s) = std::net::TcpStream::connect(("127.0.0.1", client_port)) else { return (Some(soft("handshake", "connect".into())), false) };
                s.set_read_timeout(Some(Duration::from_secs(10))).ok();
                let name = b"no-such-host.invalid";
                let mut req = vec![5u8, 1, 0, 3, name.len() as u8];
                req.extend_from_slice(name);
                req.extend_from_slice(&80u16.to_be_bytes());
                let mut two = [0u8; 2];
                let mut rep = [0u8; 10];
                if s.write_all(&[5, 1, 0]).is_err() || s.read_exact(&mut two).is_err() || s.write_all(&req).is_err() || s.read_exact(&mut rep).is_err() {
                    return (Some(soft("handshake", "socks5 exchange for an unresolvable name failed".into())), false);
                }
                s
            };
            let _ = s.write_all(&crate::gen::keystream(tag, 0, f.first.max(1) as usize));
            t0 = Instant::now();
            s.set_read_timeout(Some(deadline())).ok();
            let mut b = [0u8; 64];
            match s.read(&mut b) {
                Ok(0) => (None, false),
                Ok(n) => (Some(FlowFail { soft: false, sig: "bytes-from-nowhere".into(), msg: format!("{} bytes arrived on a flow whose target cannot be reached", n) }), false),
                Err(e) if e.kind() == std::io::ErrorKind::WouldBlock || e.kind() == std::io::ErrorKind::TimedOut => (
                    Some(soft(
                        if f.end == End::TargetRefused { "no-eof-after-refused-target" } else { "no-eof-after-unresolvable-target" },
                        format!("the application sees neither end-of-stream nor a reset {:?} after asking for a target that {}", t0.elapsed(), if f.end == End::TargetRefused { "refuses the connection" } else { "does not resolve" }),
                    )),
                    false,
                ),
                Err(_) => (None, false), // reset: the flow is over, which is what the application must learn
            }
        }
        _ => {
            let mut fl = match OpenFlow::open(client_port, f.hs, f.first, tag) {
                Ok(fl) => fl,
                Err(e) => return (Some(e), false),
            };
            let r = (|| -> Result<(), FlowFail> {
                fl.app_write(f.up.max(1) as usize)?;
                fl.tgt_write(f.down.max(1) as usize)?;
                fl.sync("before the terminating event")?;
                Ok(())
            })();
            if let Err(e) = r {
                return (Some(e), false);
            }
            let t0 = Instant::now();
            let OpenFlow { mut app, mut tgt, app_rx, tgt_rx, tag_a, tag_t, app_sent, tgt_sent, pre_len, .. } = fl;
            let (watch_app, watch_tgt): (bool, bool);
            match f.end {
                End::AppClosesInFlight => {
                    // the target keeps writing; the application goes away
                    let mut t2 = tgt.try_clone().expect("clone");
                    let w = std::thread::spawn(move || {
                        let blob = vec![0x5au8; 1 << 16];
                        for _ in 0..64 {
                            if t2.write_all(&blob).is_err() {
                                break;
                            }
                        }
                    });
                    std::thread::sleep(Duration::from_millis(15));
                    let _ = app.shutdown(Shutdown::Both);
                    (watch_app, watch_tgt) = (false, true);
                    let r = tgt_rx.wait(deadline(), |r| r.eof || r.err.is_some());
                    let _ = tgt.shutdown(Shutdown::Both);
                    let _ = w.join();
                    if !r.1 {
                        return (Some(soft("no-eof-at-target", format!("application closed with data in flight towards it; the target sees neither end-of-stream nor a reset after {:?}", t0.elapsed()))), true);
                    }
                    let _ = (watch_app, watch_tgt);
                    return (None, true);
                }
                End::TargetClosesInFlight => {
                    let mut a2 = app.try_clone().expect("clone");
                    let w = std::thread::spawn(move || {
                        let blob = vec![0xa5u8; 1 << 16];
                        for _ in 0..64 {
                            if a2.write_all(&blob).is_err() {
                                break;
                            }
                        }
                    });
                    std::thread::sleep(Duration::from_millis(15));
                    let _ = tgt.shutdown(Shutdown::Both);
                    let r = app_rx.wait(deadline(), |r| r.eof || r.err.is_some());
                    let _ = app.shutdown(Shutdown::Both);
                    let _ = w.join();
                    if !r.1 {
                        return (Some(soft("no-eof-at-app", format!("target closed with data in flight towards it; the application sees neither end-of-stream nor a reset after {:?}", t0.elapsed()))), true);
                    }
                    return (None, true);
                }
                End::AppResets => {
                    drop(app_rx);
                    net::reset(&app);
                    drop(app);
                    let r = tgt_rx.wait(deadline(), |r| r.eof || r.err.is_some());
                    if !r.1 {
                        return (Some(soft("no-eof-at-target", format!("application reset the connection; the target sees neither end-of-stream nor a reset after {:?}", t0.elapsed()))), true);
                    }
                    return (None, true);
                }
                End::TargetResets => {
                    drop(tgt_rx);
                    net::reset(&tgt);
                    drop(tgt);
                    let r = app_rx.wait(deadline(), |r| r.eof || r.err.is_some());
                    if !r.1 {
                        return (Some(soft("no-eof-at-app", format!("target reset the connection; the application sees neither end-of-stream nor a reset after {:?}", t0.elapsed()))), true);
                    }
                    return (None, true);
                }
                End::TargetAnswersThenResets | End::AppSendsThenResets => {
                    let from_target = f.end == End::TargetAnswersThenResets;
                    let k = 1 + (if from_target { f.down } else { f.up } as usize % 32_000);
                    let (mut closer, closer_rx, other_rx, tag, off, before) = if from_target { (tgt, tgt_rx, app_rx, tag_t, tgt_sent, tgt_sent) } else { (app, app_rx, tgt_rx, tag_a, app_sent, app_sent + pre_len) };
                    // the reader thread holds a duplicate of the descriptor: it must be gone, or close() would not reset
                    drop(closer_rx);
                    net::reset(&closer);
                    let w = net::write_ks(&mut closer, tag, off, k);
                    drop(closer);
                    if let Err(e) = w {
                        return (Some(soft("harness-last-write", format!("last write of {} bytes before the reset: {}", k, e))), true);
                    }
                    let (r, done) = other_rx.wait(deadline(), |r| r.eof || r.err.is_some());
                    let (who, whom) = if from_target { ("target", "application") } else { ("application", "target") };
                    if !done {
                        return (Some(soft(if from_target { "no-eof-at-app" } else { "no-eof-at-target" }, format!("{} wrote {} bytes and reset the connection; the {} sees neither end-of-stream nor a reset after {:?}", who, k, whom, t0.elapsed()))), true);
                    }
                    if let Some(b) = r.bad_at {
                        return (Some(FlowFail { soft: false, sig: "wrong-byte-before-reset".into(), msg: format!("byte {} received by the {} differs from what the {} wrote", b, whom, who) }), true);
                    }
                    if r.count < before + k {
                        return (
                            Some(soft(
                                if from_target { "answer-before-reset-truncated" } else { "upload-before-reset-truncated" },
                                format!("the {} wrote {} bytes and reset at once; the proxy had received them (they precede the reset in its receive queue) but the {} got only {} of them before the flow ended ({})", who, k, whom, r.count.saturating_sub(before), if r.eof { "end-of-stream" } else { "reset" }),
                            )),
                            true,
                        );
                    }
                    return (None, true);
                }
                End::AppClosesTargetLingers => {
                    let _ = app.shutdown(Shutdown::Both);
                    let r = tgt_rx.wait(deadline(), |r| r.eof || r.err.is_some());
                    drop(tgt_rx);
                    // the target's own socket stays open until the descriptor baseline has been checked
                    keep.lock().unwrap().push(tgt);
                    if !r.1 {
                        return (Some(soft("no-eof-at-target", format!("application closed; the target sees neither end-of-stream nor a reset after {:?}", t0.elapsed()))), true);
                    }
                    return (None, true);
                }
                End::TargetClosesAppLingers => {
                    let _ = tgt.shutdown(Shutdown::Both);
                    let r = app_rx.wait(deadline(), |r| r.eof || r.err.is_some());
                    drop(app_rx);
                    keep.lock().unwrap().push(app);
                    if !r.1 {
                        return (Some(soft("no-eof-at-app", format!("target closed; the application sees neither end-of-stream nor a reset after {:?}", t0.elapsed()))), true);
                    }
                    return (None, true);
                }
                End::LinkCut => {
                    if let Some(t) = tap {
                        t.cut_links();
                    }
                    let ra = app_rx.wait(deadline(), |r| r.eof || r.err.is_some());
                    let rt_ = tgt_rx.wait(deadline(), |r| r.eof || r.err.is_some());
                    if !ra.1 {
                        return (Some(soft("no-eof-at-app", format!("the client-server link was cut; the application sees neither end-of-stream nor a reset after {:?}", t0.elapsed()))), true);
                    }
                    if !rt_.1 {
                        return (Some(soft("no-eof-at-target", format!("the client-server link was cut; the target sees neither end-of-stream nor a reset after {:?}", t0.elapsed()))), true);
                    }
                    return (None, true);
                }
                _ => unreachable!(),
            }
        }
    }
}

// (End::AppClosesTargetStalled is handled by exec_once itself: it needs the cluster's descriptor counts.)

pub struct CaseResult {
    pub fail: Option<FlowFail>,
    pub labels: Vec<String>,
    pub nontrivial: bool,
}

fn fd_report(pid: u32) -> String {
    let socks = procfs::socks_of(pid);
    let mut v: Vec<String> = socks.iter().map(|s| format!("{}:{}->{}/st{:02x}", s.proto, s.local_port, s.remote_port, s.state)).collect();
    v.sort();
    format!("{} descriptors; sockets: {}", procfs::fd_count(pid), v.join(" "))
}

pub fn exec_once(c: &Case) -> CaseResult {
    let mut res = CaseResult { fail: None, labels: vec![], nontrivial: false };
    let mut spec = c.spec.clone();
    let wants_cut = c.flows.iter().any(|f| f.end == End::LinkCut);
    spec.via_tap = wants_cut && spec.transport.stream_based();
    let mut cl = match Cluster::start(&spec) {
        Ok(cl) => cl,
        Err(e) => {
            res.fail = Some(soft("start-up", format!("cluster for {} did not start: {}", spec.short(), e)));
            return res;
        }
    };
    let tap = cl.tap_listener.take().map(|l| Tap::start(l, cl.server_port, Policy { up: vec![], down: vec![], pause_us: 0, first_min: 1, recut_bytes: 0 }));
    // warm-up flow, then the idle baseline
    if let Err(e) = crate::sys::flow::canary(cl.client_port, 2000, 1) {
        res.fail = Some(FlowFail { soft: true, sig: format!("warm-up/{}", e.sig), msg: format!("{} [{}]\n{}", e.msg, spec.short(), cl.logs(6)) });
        return res;
    }
    let settle = |cl: &Cluster, want_c: usize, want_s: usize, max: Duration| -> (usize, usize) {
        let t0 = Instant::now();
        loop {
            let (a, b) = (procfs::fd_count(cl.client.pid), procfs::fd_count(cl.server.pid));
            if (a <= want_c && b <= want_s) || t0.elapsed() > max {
                return (a, b);
            }
            std::thread::sleep(Duration::from_millis(25));
        }
    };
    // baseline: the smallest count seen once the warm-up flow is gone
    std::thread::sleep(Duration::from_millis(150));
    let mut base = settle(&cl, 0, 0, Duration::from_millis(400));
    for _ in 0..4 {
        std::thread::sleep(Duration::from_millis(60));
        let now = (procfs::fd_count(cl.client.pid), procfs::fd_count(cl.server.pid));
        base = (base.0.min(now.0), base.1.min(now.1));
    }
    let port = cl.client_port;
    let keep: std::sync::Mutex<Vec<std::net::TcpStream>> = std::sync::Mutex::new(vec![]);
    let keep = &keep;
    let mut fails: Vec<FlowFail> = vec![];
    let mut moved = false;
    // link cuts end every flow that is open at that moment: they run after the others, one at a time
    let (cuts, others): (Vec<(usize, &FlowEnd)>, Vec<(usize, &FlowEnd)>) = c.flows.iter().enumerate().partition(|(_, f)| f.end == End::LinkCut);
    let (stalled, others): (Vec<(usize, &FlowEnd)>, Vec<(usize, &FlowEnd)>) = others.into_iter().partition(|(_, f)| f.end == End::AppClosesTargetStalled);
    let (killed, others): (Vec<(usize, &FlowEnd)>, Vec<(usize, &FlowEnd)>) = others.into_iter().partition(|(_, f)| matches!(f.end, End::ServerKilled | End::ClientKilled));
    if c.concurrent {
        std::thread::scope(|sc| {
            let hs: Vec<_> = others.iter().map(|(i, f)| sc.spawn(move || run_one(port, f, 500 + *i as u64, None, keep))).collect();
            for h in hs {
                if let Ok((f, m)) = h.join() {
                    moved |= m;
                    fails.extend(f);
                }
            }
        });
    } else {
        for (i, f) in &others {
            let (fl, m) = run_one(port, f, 500 + *i as u64, None, keep);
            moved |= m;
            fails.extend(fl);
        }
    }
    // flows whose target stalls: all of them at once against one stalled target, after the others
    let mut stalled_target: Option<net::StalledTarget> = None;
    let mut long_settle = false;
    if !stalled.is_empty() {
        let st = net::StalledTarget::new();
        if !st.is_stalled() {
            res.labels.push("stall-not-achieved".into());
        } else {
            let mut apps = vec![];
            for (i, f) in &stalled {
                match net::app_connect(port, f.hs, st.port, Duration::from_secs(10)) {
                    Ok((mut s, _)) => {
                        let _ = net::write_ks(&mut s, 900 + *i as u64, 0, f.first.max(1) as usize);
                        apps.push(s);
                    }
                    Err(e) => fails.push(soft("handshake", format!("local handshake towards a stalled target failed: {}", e))),
                }
            }
            std::thread::sleep(Duration::from_millis(300));
            let held = procfs::fd_count(cl.client.pid);
            for s in &apps {
                let _ = s.shutdown(Shutdown::Both);
            }
            drop(apps);
            let t0 = Instant::now();
            let max = Duration::from_secs(if rt::failed_already() { 12 } else { 25 });
            let mut now = procfs::fd_count(cl.client.pid);
            while now > base.0 && t0.elapsed() < max {
                std::thread::sleep(Duration::from_millis(50));
                now = procfs::fd_count(cl.client.pid);
            }
            if now > base.0 && fails.is_empty() {
                fails.push(soft(
                    "client-holds-flows-while-the-server-stalls",
                    format!("{} applications closed their flows towards a target that neither accepts nor refuses (the server is still connecting); {:?} later the client still holds {} descriptors (idle baseline {}, {} while the flows were open): {}", stalled.len(), t0.elapsed(), now, base.0, held, fd_report(cl.client.pid)),
                ));
            }
            res.labels.push(format!("client-released-after-s:{}", t0.elapsed().as_secs()));
            moved = true;
            long_settle = true;
        }
        let mut st = st;
        st.release();
        stalled_target = Some(st);
    }
    for (i, f) in &cuts {
        if spec.via_tap {
            let (fl, m) = run_one(port, f, 500 + *i as u64, tap.as_ref(), keep);
            moved |= m;
            fails.extend(fl);
        }
    }
    // a process is killed while flows are open: the last thing that happens to this cluster
    let mut dead: Option<&'static str> = None;
    if !killed.is_empty() && fails.is_empty() {
        let who = if killed[0].1.end == End::ServerKilled { "server" } else { "client" };
        let mut open = vec![];
        for (i, f) in &killed {
            let sc = FlowScript { hs: f.hs, first: f.first, ops: vec![Op::AppWrite(f.up.max(1)), Op::TargetWrite(f.down.max(1)), Op::Sync], ending: Ending::Open, slow_reader_ms: 0, idle_ms: 0 };
            let (rep, fl) = run_flow(port, &sc, 700 + *i as u64);
            match (rep.fail, fl) {
                (Some(e), _) => fails.push(e),
                (None, Some(fl)) => open.push(fl),
                _ => {}
            }
        }
        if fails.is_empty() && !open.is_empty() {
            moved = true;
            // the survivor's descriptors before the kill (for the message only)
            let held = if who == "server" { procfs::fd_count(cl.client.pid) } else { procfs::fd_count(cl.server.pid) };
            if who == "server" {
                cl.server.kill();
            } else {
                cl.client.kill();
            }
            dead = Some(who);
            let t0 = Instant::now();
            // a stream transport learns of the peer's death from the kernel at once; QUIC has nothing but its idle timeout
            // (30 s with the defaults both sides use)
            let max = if spec.transport == Transport::Quic { Duration::from_secs(if rt::failed_already() { 40 } else { 50 }) } else { deadline() };
            for fl in &open {
                // the side whose process died sees its socket closed by the kernel; the other side depends on the survivor
                let (a, _) = fl.app_rx.wait(max.saturating_sub(t0.elapsed()).max(Duration::from_millis(200)), |r| r.eof || r.err.is_some());
                let (t, _) = fl.tgt_rx.wait(max.saturating_sub(t0.elapsed()).max(Duration::from_millis(200)), |r| r.eof || r.err.is_some());
                if !(a.eof || a.err.is_some()) {
                    fails.push(soft("no-eof-at-app-after-a-process-died", format!("the {} process was killed with {} flows open; {:?} later an application has seen neither end-of-stream nor a reset", who, open.len(), t0.elapsed())));
                    break;
                }
                if !(t.eof || t.err.is_some()) {
                    fails.push(soft("no-eof-at-target-after-a-process-died", format!("the {} process was killed with {} flows open; {:?} later a target has seen neither end-of-stream nor a reset", who, open.len(), t0.elapsed())));
                    break;
                }
            }
            res.labels.push(format!("peer-death-noticed-after-s:{}", t0.elapsed().as_secs()));
            if fails.is_empty() {
                // the survivor lets go of the flows
                let (pid, base_n) = if who == "server" { (cl.client.pid, base.0) } else { (cl.server.pid, base.1) };
                let t1 = Instant::now();
                let mut now = procfs::fd_count(pid);
                while now > base_n && t1.elapsed() < Duration::from_secs(if rt::failed_already() { 6 } else { 20 }) {
                    std::thread::sleep(Duration::from_millis(50));
                    now = procfs::fd_count(pid);
                }
                if now > base_n {
                    fails.push(soft(
                        &format!("descriptors-not-released/{}-after-the-{}-died", if who == "server" { "client" } else { "server" }, who),
                        format!("the {} process was killed with {} flows open; the surviving process still holds {} descriptors (idle baseline {}, {} before the kill): {}", who, open.len(), now, base_n, held, fd_report(pid)),
                    ));
                }
            }
        }
        drop(open);
    }
    let mut fail = fails.iter().find(|f| !f.soft).cloned().or_else(|| fails.first().cloned());
    // every flow of the batch has ended: descriptors must return to the idle baseline
    if fail.is_none() && dead.is_none() {
        // (after a stall the server's pending connect completes with the kernel's next SYN retransmission: up to 16 s more)
        let max = Duration::from_secs(if long_settle { 45 } else if rt::failed_already() { 5 } else { 20 });
        let (a, b) = settle(&cl, base.0, base.1, max);
        drop(stalled_target.take());
        if a > base.0 || b > base.1 {
            let who = if b > base.1 { "server" } else { "client" };
            fail = Some(soft(
                &format!("descriptors-not-released/{}", who),
                format!(
                    "after a batch of {} ended flows ({lingering} lingering peer sockets still held open by the harness) the {} holds {} descriptors (idle baseline {}) and the {} {} (baseline {}), {:?} after the last flow ended; client: {}; server: {}",
                    c.flows.len(),
                    who,
                    if who == "server" { b } else { a },
                    if who == "server" { base.1 } else { base.0 },
                    if who == "server" { "client" } else { "server" },
                    if who == "server" { a } else { b },
                    if who == "server" { base.0 } else { base.1 },
                    max,
                    fd_report(cl.client.pid),
                    fd_report(cl.server.pid),
                    lingering = keep.lock().unwrap().len()
                ),
            ));
        }
    }
    if dead.is_none() {
        if let Err(h) = cl.health() {
            fail = Some(FlowFail { soft: false, sig: "process-or-task-died".into(), msg: h });
        }
    } else {
        let survivor = if dead == Some("server") { &mut cl.client } else { &mut cl.server };
        if let Some(p) = survivor.panicked() {
            fail = Some(FlowFail { soft: false, sig: "process-or-task-died".into(), msg: format!("the surviving process: task panicked: {}", p) });
        } else if let Some(st) = survivor.exited() {
            fail = Some(FlowFail { soft: false, sig: "process-or-task-died".into(), msg: format!("the surviving process exited ({})", st) });
        }
    }
    res.labels.push(format!("transport:{}", spec.transport.name()));
    res.labels.push(format!("proto:{}", spec.proto.protocol_name()));
    for f in &c.flows {
        res.labels.push(format!("end:{:?}", f.end));
    }
    res.labels.push(if c.concurrent { "batch:concurrent".into() } else { "batch:sequential".into() });
    res.nontrivial = moved;
    if let Some(f) = &mut fail {
        f.msg = format!("{} [{}; flows={:?}]\n{}", f.msg, spec.short(), c.flows.iter().map(|f| f.end).collect::<Vec<_>>(), crate::ev::truncate(&cl.logs(8), 1500));
    }
    res.fail = fail;
    res
}

pub fn exec_confirmed(c: &Case) -> (CaseResult, u32) {
    // A failure decided by a deadline is reported when it shows in at least two of three executions on fresh clusters
    // (the first one and one of two re-runs): a one-off deadline miss of the machine is not reported, a defect that
    // depends on the implementation's own randomness (one flow in twenty) still is.
    let r = exec_once(c);
    let Some(f) = &r.fail else { return (r, 0) };
    if !f.soft || rt::failed_already() {
        return (r, 0);
    }
    let mut last = exec_once(c);
    if last.fail.is_none() {
        last = exec_once(c);
    }
    if last.fail.is_none() {
        last.labels.push("deadline-miss-not-confirmed".into());
    }
    (last, 2)
}

fn flow_strategy() -> BoxedStrategy<FlowEnd> {
    let len = || crate::props::c01::len_strategy(150_000);
    (crate::props::c01::hs_strategy(), len(), len(), len(), prop_oneof![18 => proptest::sample::select(End::ALL.iter().copied().filter(|e| !End::EXPENSIVE.contains(e)).collect::<Vec<_>>()), 1 => proptest::sample::select(End::EXPENSIVE.to_vec()), 2 => proptest::sample::select(vec![End::AppClosesClean, End::TargetClosesClean, End::AppResets, End::TargetResets, End::ColdUploadThenClose, End::TargetRefused, End::TargetAnswersThenResets, End::AppSendsThenResets])]).prop_map(|(hs, first, up, down, end)| FlowEnd { hs, first, up, down, end }).boxed()
}

fn case_strategy(tier: Tier, combo: Option<(Proto, Transport)>) -> BoxedStrategy<Case> {
    let combo_s: BoxedStrategy<(Proto, Transport)> = match combo {
        Some(c) => Just(c).boxed(),
        None => proptest::sample::select(all_tcp_combos()).boxed(),
    };
    let n = if tier == Tier::Thorough { 32 } else { 10 };
    (combo_s, proptest::collection::vec(flow_strategy(), 1..=n), any::<bool>(), 2u8..=12, 1u64..1_000_000)
        .prop_map(|((proto, transport), flows, concurrent, workers, seed)| {
            let mut spec = Spec::new(proto, transport);
            spec.workers = workers;
            spec.seed = seed;
            Case { spec, flows, concurrent }
        })
        .boxed()
}

pub struct Teardown;

impl SubCheck for Teardown {
    type Case = Case;
    fn name(&self) -> &'static str {
        "teardown"
    }
    fn strategy(&self, tier: Tier) -> BoxedStrategy<Case> {
        case_strategy(tier, None)
    }
    fn exec(&self, c: &Case) -> Outcome {
        let (r, reruns) = exec_confirmed(c);
        let mut out = Outcome::new();
        out.weight = c.flows.len() as u64;
        for l in r.labels {
            out.label(l);
        }
        if r.nontrivial {
            out.nontrivial(format!("{}|{:?}|{}", c.spec.short(), c.flows.iter().map(|f| f.end).collect::<Vec<_>>(), c.concurrent));
        }
        if let Some(f) = r.fail {
            out.fail(format!("teardown/{}/{}", c.spec.transport.name(), f.sig), f.msg);
        }
        out
    }
    fn workers(&self) -> usize {
        // the cases spend their time waiting (grace periods, late peers, idle time-outs), not computing
        rt::threads().clamp(1, 14)
    }
    fn max_shrink_iters(&self) -> u32 {
        24
    }
    fn confirm_runs(&self) -> u32 {
        2
    }
}

pub fn subs() -> Vec<Box<dyn DynSub>> {
    vec![Box::new(Teardown)]
}

pub fn run(ctx: &mut PropCtx) {
    ctx.level = "fault_enumeration";
    ctx.rule = "a batch is non-trivial when at least one of its flows had moved bytes in both directions before its terminating event; distinct by (configuration, sequence of endings, concurrent or sequential)".into();
    ctx.assumptions = vec![
        "clean closes must deliver everything the closer wrote before closing (strict); abortive endings only require that the other side observes end-of-stream or a reset".into(),
        "'promptly' = within 12 s for an event that takes milliseconds, confirmed on two more fresh clusters".into(),
        "the idle baseline is the smallest descriptor count seen after a warm-up flow has ended; after the batch the counts are polled for up to 20 s".into(),
        "endings: application closes (clean / with data in flight towards it / while the target keeps its own socket open afterwards), target closes (same three), one-shot upload closed at once, application resets, target resets, link cut by the tap (stream transports), target refuses, target name does not resolve, one-shot upload towards a target that comes for it 12.5 s later, server process killed / client process killed with flows open (QUIC is given its 30 s idle timeout plus margin to notice)".into(),
    ];
    // every ending on every transport, one protocol rotating with the seed, sequentially: exhaustive over (transport x ending)
    let protos = [Proto::Trojan, Proto::Vmess(3), Proto::Ss22(crate::refimpl::ss2022::C22::Aes128), Proto::SsLegacy(crate::refimpl::ss::Legacy::ChaCha20), Proto::Vmess(4), Proto::Ss22(crate::refimpl::ss2022::C22::ChaCha20)];
    let mut cases = vec![];
    for (ti, t) in Transport::ALL.iter().enumerate() {
        for (ei, e) in End::ALL.iter().enumerate() {
            if *e == End::LinkCut && !t.stream_based() {
                continue;
            }
            let p = protos[(ti + ei + ctx.seed as usize) % protos.len()];
            let mut spec = Spec::new(p, *t);
            spec.seed = 900 + (ti * 16 + ei) as u64;
            spec.workers = 2 + ((ti + ei) % 5) as u8;
            let hs = Hs::ALL[(ti + ei) % 4];
            let flows: Vec<FlowEnd> = (0..3).map(|k| FlowEnd { hs, first: 100 + 4000 * k, up: 30_000 * k + 1, down: 20_000 * (2 - k) + 1, end: *e }).collect();
            cases.push(Case { spec, flows, concurrent: End::EXPENSIVE.contains(e) });
        }
    }
    rt::run_list(ctx, &Teardown, "each-ending-on-each-transport", cases);
    ctx.mark_exhaustive("each-ending-on-each-transport", "every ending of the catalogue on every transport (protocol rotates with the seed), three flows each, then the descriptor baseline");
    rt::run_sub(ctx, &Teardown, ctx.tier.pick(22, 600));
}
