//! C04 (and the Engine-A half of C02) – datagram-in-stream framings (VMess UDP command, Trojan UDP) under arbitrary
//! segmentation: the same datagram list (count, boundaries, bytes, addresses) must come out.
use crate::adapters::{run_framed, run_ws, Collected, WsRole};
use crate::drive::{cut, flow_of, Flow};
use crate::ev::{Outcome, Tier};
use crate::gen::{self, CredGen, Det, T0};
use crate::props::c03::family;
use crate::props::c04::{Adapter, CutSpec, Dir};
use crate::real::{self, to_address, Cred, InboundIn, Item, Proto, ServerCtx};
use crate::refimpl::{trojan, vmess, Addr};
use crate::refside::{self, ReqOpts, RespOpts};
use crate::rt::{self, SubCheck};
use bytes::BytesMut;
use proptest::prelude::*;
use proptest::strategy::BoxedStrategy;
use serde::{Deserialize, Serialize};
use tokio_util::codec::Encoder;

#[derive(Clone, Debug, Serialize, Deserialize)]
pub struct DgramCutCase {
    pub cred: Cred,
    pub addr: Addr,
    pub lens: Vec<u32>,
    pub seed: u64,
    pub vmess_mask: u8,
    pub dir: Dir,
    pub adapter: Adapter,
    pub cuts: CutSpec,
    pub deliver: u16,
}

pub fn strategy() -> BoxedStrategy<DgramCutCase> {
    let len = prop_oneof![5 => 1u32..80, 3 => 80u32..1500, 1 => proptest::sample::select(vec![1u32, 1400, 1472, 2047, 2048, 2049, 4096, 8192, 9000]), 1 => 1500u32..12000];
    let cuts = prop_oneof![
        3 => any::<u16>().prop_map(CutSpec::Single),
        3 => proptest::collection::vec(any::<u16>(), 2..8).prop_map(CutSpec::Multi),
        1 => (16u16..300).prop_map(CutSpec::Bytewise),
        4 => proptest::collection::vec((any::<u16>(), -2i8..=2), 1..4).prop_map(CutSpec::Boundary),
        2 => Just(CutSpec::None),
    ];
    (
        proptest::sample::select(vec![Proto::Vmess(3), Proto::Vmess(4), Proto::Trojan]).prop_flat_map(gen::cred_for),
        gen::addr_strategy(),
        proptest::collection::vec(len, 1..6),
        any::<u64>(),
        proptest::sample::select(vmess::valid_masks()),
        prop_oneof![Just(Dir::Request), Just(Dir::Response)],
        prop_oneof![3 => Just(Adapter::Framed), 2 => Just(Adapter::Ws)],
        cuts,
        prop_oneof![3 => Just(65535u16), 2 => any::<u16>()],
    )
        .prop_map(|(CredGen { cred, .. }, addr, lens, seed, vmess_mask, dir, adapter, cuts, deliver)| DgramCutCase { cred, addr, lens, seed, vmess_mask, dir, adapter, cuts, deliver })
        .boxed()
}

pub struct DgramCuts;

struct Stream {
    wire: Vec<u8>,
    /// end offset of each datagram unit
    ends: Vec<usize>,
    header_end: usize,
}

impl SubCheck for DgramCuts {
    type Case = DgramCutCase;
    fn name(&self) -> &'static str {
        "dgram-cuts"
    }
    fn strategy(&self, _tier: Tier) -> BoxedStrategy<DgramCutCase> {
        strategy()
    }
    fn exec(&self, c: &DgramCutCase) -> Outcome {
        let mut out = Outcome::new();
        let sub = "dgram-cuts";
        let fam = family(c.cred.proto);
        real::set_clock(Some(T0));
        out.label(format!("proto:{}", c.cred.proto.short()));
        out.label(format!("dir:{:?}", c.dir));
        out.label(format!("adapter:{:?}", c.adapter));
        let Some(address) = to_address(&c.addr) else {
            return out;
        };
        let payloads = gen::writes_from_lens(c.seed, &c.lens);
        let mut d = Det::new(c.seed, "c04d");
        let reply_src = Addr::V4([127, 0, 0, 1], 5353);
        // build the stream with the reference
        enum Dec {
            Server(real::ServerTcp),
            VmessClient(octo_squirrel_client::client::verif::vmess::ClientAEADCodec),
            TrojanClient(octo_squirrel_client::client::verif::trojan::UdpClientCodec),
        }
        let (stream, dec): (Stream, Dec) = match (c.dir, c.cred.proto) {
            (Dir::Request, Proto::Vmess(_)) => {
                let mut o = ReqOpts::new(T0);
                o.udp_cmd = true;
                o.vmess_opt = c.vmess_mask;
                let f = match refside::ref_client_request(&c.cred, &c.addr, &payloads, &o, &mut d) {
                    Ok(f) => f,
                    Err(e) => {
                        out.fail("dgram-cuts/harness/reference-encoder-failed", e);
                        return out;
                    }
                };
                let Ok(sctx) = ServerCtx::new(&c.cred) else { return out };
                (Stream { ends: f.frame_ends.iter().map(|(e, _)| *e).collect(), header_end: f.header_end, wire: f.wire }, Dec::Server(sctx.codec().unwrap()))
            }
            (Dir::Request, Proto::Trojan) => {
                let keys = refside::ref_keys(&c.cred).unwrap();
                let mut w = trojan::encode_request(&keys.trojan_client_pw, trojan::CMD_UDP, &c.addr, &[]);
                let header_end = w.len();
                let mut ends = vec![];
                for p in &payloads {
                    w.extend(trojan::encode_udp_unit(&c.addr, p));
                    ends.push(w.len());
                }
                let Ok(sctx) = ServerCtx::new(&c.cred) else { return out };
                (Stream { wire: w, ends, header_end }, Dec::Server(sctx.codec().unwrap()))
            }
            (Dir::Response, Proto::Vmess(_)) => {
                let Ok(mut codec) = real::vmess_udp_client(&c.cred, &address) else { return out };
                let mut first = BytesMut::new();
                if !matches!(rt::catch(|| codec.encode(BytesMut::from(&b"x"[..]), &mut first)), Ok(Ok(()))) {
                    return out;
                }
                let Ok(req) = refside::ref_server_decode(&c.cred, &first, T0) else { return out };
                let mut ro = RespOpts::new(T0);
                ro.udp_cmd = true;
                let f = match refside::ref_server_response(&c.cred, &req.session, &payloads, &ro, &mut d) {
                    Ok(f) => f,
                    Err(e) => {
                        out.fail("dgram-cuts/harness/reference-encoder-failed", e);
                        return out;
                    }
                };
                (Stream { ends: f.frame_ends.iter().map(|(e, _)| *e).collect(), header_end: f.header_end, wire: f.wire }, Dec::VmessClient(codec))
            }
            (Dir::Response, Proto::Trojan) => {
                let mut w = vec![];
                let mut ends = vec![];
                for p in &payloads {
                    w.extend(trojan::encode_udp_unit(&reply_src, p));
                    ends.push(w.len());
                }
                (Stream { wire: w, ends, header_end: 0 }, Dec::TrojanClient(real::trojan_udp_client(&c.cred, &address)))
            }
            _ => unreachable!(),
        };
        // segmentation
        let n = stream.wire.len();
        let mut bounds: Vec<usize> = stream.ends.clone();
        bounds.push(stream.header_end);
        bounds.sort();
        bounds.dedup();
        let mut cuts: Vec<usize> = match &c.cuts {
            CutSpec::Single(p) => vec![1 + rt::idx(*p, n.saturating_sub(1))],
            CutSpec::Multi(ps) => ps.iter().map(|p| 1 + rt::idx(*p, n.saturating_sub(1))).collect(),
            CutSpec::Bytewise(l) => (1..n.min(*l as usize)).collect(),
            CutSpec::Boundary(bs) => bs.iter().map(|(i, dl)| (bounds[rt::idx(*i, bounds.len())] as i64 + *dl as i64).max(0) as usize).collect(),
            CutSpec::At(v) => v.iter().map(|x| *x as usize).collect(),
            CutSpec::None => vec![],
        };
        cuts.retain(|x| *x >= 1 && *x < n);
        cuts.sort();
        cuts.dedup();
        let mut segs = cut(&stream.wire, &cuts);
        let nseg = segs.len();
        let keep = if c.deliver == 65535 { nseg } else { 1 + rt::idx(c.deliver, nseg) };
        segs.truncate(keep.min(nseg));
        let delivered: usize = segs.iter().map(|s| s.len()).sum();
        let inside = cuts.iter().any(|x| !bounds.contains(x));
        let multi = {
            let mut last = 0;
            let mut m = false;
            for s in &segs {
                let z = last + s.len();
                if stream.ends.iter().filter(|e| **e > last && **e <= z).count() >= 2 {
                    m = true;
                }
                last = z;
            }
            m
        };
        if inside {
            out.label("cut-inside-datagram");
        }
        if multi {
            out.label("several-datagrams-in-one-segment");
        }
        if inside || multi {
            out.nontrivial(format!("{}|{:?}|{:?}|{:#x}|{}|{}|{}|{}", c.cred.proto.short(), c.dir, c.adapter, c.vmess_mask, inside, multi, c.lens.len(), delivered < n));
        }
        let n_complete = stream.ends.iter().filter(|e| **e <= delivered).count();
        let ad = if c.adapter == Adapter::Framed { "framed" } else { "ws" };
        let who = if c.dir == Dir::Request { "server" } else { "client" };
        let report = |out: &mut Outcome, panic: &Option<String>, err: Option<&String>, got: Option<Vec<(Option<Addr>, Vec<u8>)>>, want_addr: Option<Addr>| {
            if let Some(p) = panic {
                out.fail(format!("{}/{}/{}/{}-decoder-panics-on-segmented-valid-datagrams", sub, fam, ad, who), p.clone());
                return;
            }
            if let Some(e) = err {
                out.fail(format!("{}/{}/{}/{}-decoder-rejects-valid-datagrams", sub, fam, ad, who), format!("after {} of {} bytes: {}", delivered, n, e));
                return;
            }
            let Some(got) = got else {
                out.fail(format!("{}/{}/{}/{}-flow-confused", sub, fam, ad, who), "items of the wrong kind");
                return;
            };
            let want: Vec<(Option<Addr>, Vec<u8>)> = payloads[..n_complete].iter().map(|p| (want_addr.clone(), p.clone())).collect();
            let got_cmp: Vec<(Option<Addr>, Vec<u8>)> = got.into_iter().map(|(a, p)| (if want_addr.is_some() { a } else { None }, p)).collect();
            if got_cmp != want {
                let what = if got_cmp.len() < want.len() && want.starts_with(&got_cmp) { "stall-complete-datagram-not-delivered" } else { "datagram-list-differs" };
                out.fail(
                    format!("{}/{}/{}/{}-{}", sub, fam, ad, who, what),
                    format!("{} of {} bytes delivered, {} datagrams complete (sizes {:?}); decoder released sizes {:?}", delivered, n, n_complete, c.lens, got_cmp.iter().map(|g| g.1.len()).collect::<Vec<_>>()),
                );
            }
        };
        match dec {
            Dec::Server(codec) => {
                let col: Collected<InboundIn> = match c.adapter {
                    Adapter::Framed => run_framed(codec, segs, false),
                    Adapter::Ws => run_ws(codec, segs, WsRole::Server, false),
                };
                let items: Vec<Item> = col.oks().map(|i| Item::from_inbound(i).0).collect();
                let got = match flow_of(&items) {
                    Flow::Idle => Some(vec![]),
                    Flow::Udp { datagrams } => Some(datagrams.into_iter().map(|(a, p)| (Some(a), p)).collect()),
                    _ => None,
                };
                report(&mut out, &col.panic, col.first_err(), got, Some(c.addr.clone()));
            }
            Dec::VmessClient(codec) => {
                let col: Collected<BytesMut> = match c.adapter {
                    Adapter::Framed => run_framed(codec, segs, false),
                    Adapter::Ws => run_ws(codec, segs, WsRole::Client, false),
                };
                let got = Some(col.oks().map(|b| (None, b.to_vec())).collect());
                report(&mut out, &col.panic, col.first_err(), got, None);
            }
            Dec::TrojanClient(codec) => {
                let col: Collected<(BytesMut, octo_squirrel::protocol::address::Address)> = match c.adapter {
                    Adapter::Framed => run_framed(codec, segs, false),
                    Adapter::Ws => run_ws(codec, segs, WsRole::Client, false),
                };
                let got = Some(col.oks().map(|(b, a)| (Some(real::from_address(a)), b.to_vec())).collect());
                report(&mut out, &col.panic, col.first_err(), got, Some(reply_src.clone()));
            }
        }
        out
    }
}
