//! C06 – No relaying without the configured credential; users stay separated.
use crate::drive::{encode_all, feed_server, flow_of, Flow};
use crate::ev::{Outcome, PropCtx, Tier};
use crate::gen::{self, CredGen, Det, T0};
use crate::props::c03::{brief_flow, family};
use crate::real::{self, Cred, Item, OutboundIn, Proto, ServerCtx};
use crate::refimpl::ss2022::{self, UdpClientPacket};
use crate::refimpl::{ss, vmess, Addr};
use crate::refside::{self, RefKeys, ReqOpts, SessionInfo};
use crate::rt::{self, DynSub, SubCheck};
use bytes::BytesMut;
use proptest::prelude::*;
use proptest::strategy::BoxedStrategy;
use serde::{Deserialize, Serialize};

#[derive(Clone, Debug, Serialize, Deserialize)]
pub enum Attack {
    /// random bytes
    Random(u16),
    /// a valid handshake made with an entirely different credential of the same protocol
    OtherCredential(u64),
    /// a valid handshake whose master key differs in one bit from the configured one
    OneBitKey(u16),
    /// a valid handshake of another protocol
    OtherProtocol(u8),
    /// valid handshake (right credential) cut before the credential is proven
    Truncated(u16),
    /// 2022 multi-user: identity header names a user that is not registered (right server key)
    UnknownUser,
    /// 2022 multi-user: right user key, wrong server key
    WrongServerKey,
    /// 2022 multi-user: right server key used as the only key, no identity header
    NoIdentityHeader,
    /// 2022 multi-user: identity header of user u, body sealed under user v's key
    CrossUser,
    /// 2022 single-key server: client sends an identity header anyway (under some other iPSK)
    UnexpectedIdentityHeader,
    /// 2022 multi-user: right server key on the outer layer, identity header naming no registered user (0: the server key's
    /// own hash, 1: an unregistered key), body sealed under the *server* key
    UnknownUserBodyUnderServerKey(u8),
    /// VMess: auth-id / header under an unregistered UUID
    VmessUnregistered(u64),
    /// VMess: auth-id under registered user u, header sealed under registered user v
    VmessCrossUser,
    /// Trojan: hash differs in one hex digit / is the hash of password+suffix
    TrojanNearMiss(u8),
}

#[derive(Clone, Debug, Serialize, Deserialize)]
pub struct AuthCase {
    pub cred: Cred,
    pub user: usize,
    pub addr: Addr,
    pub len: u32,
    pub seed: u64,
    pub attack: Attack,
    pub udp: bool,
    /// datagram attacks on a 2022 server: the attacked session id is first used honestly - by the configured client, and for
    /// the cross-user splice by the user whose key seals the forged body - so that whatever the server keeps per session
    /// (derived ciphers, users, filters) exists when the forged datagram arrives
    #[serde(default)]
    pub warm: bool,
}

fn attack_strategy() -> BoxedStrategy<Attack> {
    prop_oneof![
        3 => prop_oneof![0u16..128, 128u16..4096].prop_map(Attack::Random),
        3 => any::<u64>().prop_map(Attack::OtherCredential),
        3 => any::<u16>().prop_map(Attack::OneBitKey),
        2 => (0u8..10).prop_map(Attack::OtherProtocol),
        3 => any::<u16>().prop_map(Attack::Truncated),
        1 => Just(Attack::UnknownUser),
        1 => Just(Attack::WrongServerKey),
        1 => Just(Attack::NoIdentityHeader),
        1 => Just(Attack::CrossUser),
        1 => (0u8..2).prop_map(Attack::UnknownUserBodyUnderServerKey),
        1 => Just(Attack::UnexpectedIdentityHeader),
        1 => any::<u64>().prop_map(Attack::VmessUnregistered),
        1 => Just(Attack::VmessCrossUser),
        1 => (0u8..60).prop_map(Attack::TrojanNearMiss),
    ]
    .boxed()
}

pub fn auth_strategy() -> BoxedStrategy<AuthCase> {
    (gen::cred_strategy(), gen::addr_strategy(), 1u32..300, any::<u64>(), attack_strategy(), proptest::bool::weighted(0.3), proptest::bool::weighted(0.5))
        .prop_map(|(CredGen { cred, user }, addr, len, seed, attack, udp, warm)| {
            // protocol-specific attacks get a compatible configuration (constructed, not filtered)
            let aes = if seed % 2 == 0 { ss2022::C22::Aes128 } else { ss2022::C22::Aes256 };
            let (cred, user) = match &attack {
                Attack::UnknownUser | Attack::WrongServerKey | Attack::NoIdentityHeader | Attack::CrossUser | Attack::UnknownUserBodyUnderServerKey(_) => {
                    let n = 2 + (seed % 5) as usize;
                    (gen::make_cred(Proto::Ss22(aes), "", seed, n, user), user % n)
                }
                Attack::UnexpectedIdentityHeader => (gen::make_cred(Proto::Ss22(aes), "", seed, 0, 0), 0),
                Attack::VmessUnregistered(_) | Attack::VmessCrossUser => {
                    let n = 2 + (seed % 5) as usize;
                    (gen::make_cred(Proto::Vmess(if seed % 3 == 0 { 4 } else { 3 }), "", seed, n, user), user % n)
                }
                Attack::TrojanNearMiss(_) => (gen::make_cred(Proto::Trojan, &cred.password, seed, 0, 0), 0),
                _ => (cred, user),
            };
            let udp = udp && matches!(cred.proto, Proto::SsLegacy(_) | Proto::Ss22(_));
            AuthCase { cred, user, addr, len, seed, attack, udp, warm }
        })
        .boxed()
}

fn flip_bit(v: &mut [u8], i: u16) {
    if v.is_empty() {
        return;
    }
    let bit = rt::idx(i, v.len() * 8);
    v[bit / 8] ^= 1 << (bit % 8);
}

/// Build the attacker's bytes. Returns None when the attack does not apply to this configuration.
fn build_attack(c: &AuthCase, d: &mut Det) -> Option<(Vec<u8>, &'static str)> {
    let payload = vec![gen::keystream(c.seed, 0, c.len as usize)];
    let keys = refside::ref_keys(&c.cred).ok()?;
    let o = ReqOpts::new(T0);
    let with = |k: &RefKeys, d: &mut Det| refside::ref_client_request_with_keys(&c.cred, k, &c.addr, &payload, &o, d).ok().map(|f| f.wire);
    match &c.attack {
        Attack::Random(n) => Some((d.bytes(*n as usize), "random-bytes")),
        Attack::OtherCredential(s) => {
            let other = gen::make_cred(c.cred.proto, &format!("other-{}", s), *s, c.cred.users.len(), c.user);
            if other.password == c.cred.password {
                return None;
            }
            let k = refside::ref_keys(&other).ok()?;
            refside::ref_client_request_with_keys(&other, &k, &c.addr, &payload, &o, d).ok().map(|f| (f.wire, "other-credential"))
        }
        Attack::OneBitKey(i) => {
            let mut k = keys.clone();
            match c.cred.proto {
                Proto::SsLegacy(_) => flip_bit(&mut k.legacy_key, *i),
                Proto::Ss22(_) => {
                    if k.client_ipsks.is_empty() {
                        flip_bit(&mut k.client_upsk, *i)
                    } else if i % 2 == 0 {
                        flip_bit(&mut k.client_upsk, *i)
                    } else {
                        flip_bit(&mut k.client_ipsks[0], *i)
                    }
                }
                Proto::Vmess(_) => flip_bit(&mut k.client_cmd_key, *i),
                Proto::Trojan => {
                    // one bit of the password
                    flip_bit(&mut k.trojan_client_pw, *i);
                    if k.trojan_client_pw == keys.trojan_client_pw {
                        return None;
                    }
                }
            }
            with(&k, d).map(|w| (w, "one-bit-different-key"))
        }
        Attack::OtherProtocol(p) => {
            let all = Proto::all();
            let other = all[*p as usize % all.len()];
            if family(other) == family(c.cred.proto) && other == c.cred.proto {
                return None;
            }
            let oc = gen::make_cred(other, &c.cred.password, c.seed ^ 0x99, 0, 0);
            if other == c.cred.proto {
                return None;
            }
            refside::ref_client_request(&oc, &c.addr, &payload, &o, d).ok().map(|f| (f.wire, "other-protocol"))
        }
        Attack::Truncated(t) => {
            let f = refside::ref_client_request(&c.cred, &c.addr, &payload, &o, d).ok()?;
            // cut strictly before the credential is proven: before the first authenticated unit completes (Trojan: before
            // the end of the hash line)
            let proven = match c.cred.proto {
                Proto::Trojan => 56,
                Proto::SsLegacy(_) | Proto::Ss22(_) | Proto::Vmess(_) => f.units.first().map(|u| u.end).unwrap_or(f.header_end),
            };
            let cut = rt::idx(*t, proven);
            Some((f.wire[..cut].to_vec(), "truncated-before-proof"))
        }
        Attack::UnknownUser => {
            let Proto::Ss22(cc) = c.cred.proto else { return None };
            if c.cred.users.is_empty() || !cc.is_aes() {
                return None;
            }
            let mut k = keys.clone();
            k.client_upsk = d.bytes(cc.key_len());
            with(&k, d).map(|w| (w, "unregistered-user"))
        }
        Attack::WrongServerKey => {
            let Proto::Ss22(cc) = c.cred.proto else { return None };
            if c.cred.users.is_empty() || !cc.is_aes() {
                return None;
            }
            let mut k = keys.clone();
            k.client_ipsks = vec![d.bytes(cc.key_len())];
            with(&k, d).map(|w| (w, "right-user-wrong-server-key"))
        }
        Attack::NoIdentityHeader => {
            let Proto::Ss22(cc) = c.cred.proto else { return None };
            if c.cred.users.is_empty() || !cc.is_aes() {
                return None;
            }
            let mut k = keys.clone();
            k.client_upsk = k.server_psk.clone();
            k.client_ipsks = vec![];
            with(&k, d).map(|w| (w, "server-key-without-identity"))
        }
        Attack::CrossUser => {
            let Proto::Ss22(cc) = c.cred.proto else { return None };
            if c.cred.users.len() < 2 || !cc.is_aes() {
                return None;
            }
            // identity header names user u (built from u's key), body sealed under v's key
            let u = c.user % c.cred.users.len();
            let v = (u + 1) % c.cred.users.len();
            let req = ss2022::TcpRequest { salt: d.bytes(cc.key_len()), ts: T0, typ: 0, addr: c.addr.clone(), padding: d.bytes(3), first: payload[0].clone(), chunks: vec![] };
            // encode under v, then replace the identity header with the one naming u
            let mut wire = ss2022::encode_tcp_request(cc, &keys.user_psks[v], &[keys.server_psk.clone()], &req);
            let eih_u = ss2022::tcp_eih(&[keys.server_psk.clone()], &keys.user_psks[u], &req.salt, cc.key_len());
            wire[cc.key_len()..cc.key_len() + 16].copy_from_slice(&eih_u);
            Some((wire, "identity-of-u-body-under-v"))
        }
        Attack::UnknownUserBodyUnderServerKey(v) => {
            let Proto::Ss22(cc) = c.cred.proto else { return None };
            if c.cred.users.is_empty() || !cc.is_aes() {
                return None;
            }
            let named = if *v == 0 { keys.server_psk.clone() } else { d.bytes(cc.key_len()) };
            let req = ss2022::TcpRequest { salt: d.bytes(cc.key_len()), ts: T0, typ: 0, addr: c.addr.clone(), padding: d.bytes(3), first: payload[0].clone(), chunks: vec![] };
            let mut wire = ss2022::encode_tcp_request(cc, &keys.server_psk, &[keys.server_psk.clone()], &req);
            let eih = ss2022::tcp_eih(&[keys.server_psk.clone()], &named, &req.salt, cc.key_len());
            wire[cc.key_len()..cc.key_len() + 16].copy_from_slice(&eih);
            Some((wire, "unregistered-identity-body-under-server-key"))
        }
        Attack::UnexpectedIdentityHeader => {
            let Proto::Ss22(cc) = c.cred.proto else { return None };
            if !c.cred.users.is_empty() || !cc.is_aes() {
                return None;
            }
            let mut k = keys.clone();
            k.client_ipsks = vec![d.bytes(cc.key_len())];
            k.client_upsk = d.bytes(cc.key_len());
            with(&k, d).map(|w| (w, "unconfigured-identity-chain"))
        }
        Attack::VmessUnregistered(s) => {
            let Proto::Vmess(_) = c.cred.proto else { return None };
            let mut k = keys.clone();
            let id = uuid::Uuid::parse_str(&gen::uuid_string(*s)).ok()?;
            k.client_cmd_key = vmess::cmd_key(id.as_bytes());
            if keys.cmd_keys.contains(&k.client_cmd_key) {
                return None;
            }
            with(&k, d).map(|w| (w, "unregistered-uuid"))
        }
        Attack::VmessCrossUser => {
            let Proto::Vmess(sec) = c.cred.proto else { return None };
            if keys.cmd_keys.len() < 2 {
                return None;
            }
            let u = c.user % keys.cmd_keys.len();
            let v = (u + 1) % keys.cmd_keys.len();
            let hdr = vmess::ReqHeader { body_iv: d.arr(), body_key: d.arr(), v: d.u8(), opt: 0x1d, pad: vec![], sec, cmd: 1, addr: c.addr.clone() };
            // auth-id under u, sealed header under v
            let mut wire = vmess::seal_request_header(&keys.cmd_keys[v], T0 as i64, d.arr(), d.arr(), &hdr.plain());
            let aid = vmess::auth_id(&keys.cmd_keys[u], T0 as i64, d.arr());
            wire[..16].copy_from_slice(&aid);
            let body = vmess::Body::request(&hdr);
            wire.extend(body.encode(&payload, &mut || 0));
            Some((wire, "auth-id-of-u-header-under-v"))
        }
        Attack::TrojanNearMiss(i) => {
            let Proto::Trojan = c.cred.proto else { return None };
            let mut f = refside::ref_client_request(&c.cred, &c.addr, &payload, &o, d).ok()?.wire;
            let pos = *i as usize % 56;
            // another hex digit at one position
            f[pos] = if f[pos] == b'0' { b'1' } else { b'0' };
            Some((f, "hash-differs-in-one-digit"))
        }
    }
}

pub struct NoCredential;

impl SubCheck for NoCredential {
    type Case = AuthCase;
    fn name(&self) -> &'static str {
        "no-credential"
    }
    fn strategy(&self, _tier: Tier) -> BoxedStrategy<AuthCase> {
        auth_strategy()
    }
    fn exec(&self, c: &AuthCase) -> Outcome {
        let mut out = Outcome::new();
        real::set_clock(Some(T0));
        let fam = family(c.cred.proto);
        let mut d = Det::new(c.seed, "c06");
        if c.udp {
            return exec_udp(c, &mut d);
        }
        let Some((wire, kind)) = build_attack(c, &mut d) else {
            out.label("attack-not-applicable");
            return out;
        };
        out.label(format!("proto:{}", c.cred.proto.short()));
        out.label(format!("attack:{}", kind));
        if kind != "random-bytes" && kind != "truncated-before-proof" {
            out.nontrivial(format!("{}|{}|{}|{}", c.cred.proto.short(), kind, c.cred.users.len(), c.addr.kind()));
        }
        let Ok(sctx) = ServerCtx::new(&c.cred) else { return out };
        // whole, and split after the first 1..40 bytes
        let k = 1 + (c.seed % 40) as usize;
        let segsets: Vec<Vec<Vec<u8>>> = if wire.len() > k { vec![vec![wire.clone()], vec![wire[..k].to_vec(), wire[k..].to_vec()]] } else { vec![vec![wire.clone()]] };
        for segs in segsets {
            let mut codec = sctx.codec().expect("codec");
            let (items, _, fed) = feed_server(&mut codec, &segs);
            let _ = fed; // errors and panics are fine here (a panic is C07's finding): only a dial item matters
            if let Some(it) = items.iter().find(|i| i.is_dial()) {
                let what = match it {
                    Item::Connect(b, a) => format!("ConnectTcp({} bytes, {:?})", b.len(), a),
                    Item::Udp(b, a) => format!("RelayUdp({} bytes, {:?})", b.len(), a),
                    _ => unreachable!(),
                };
                out.fail(format!("no-credential/{}/server-dials-for-{}", fam, kind), format!("{} byte input not made with the configured credential produced {}", wire.len(), what));
                return out;
            }
        }
        out
    }
}

fn exec_udp(c: &AuthCase, d: &mut Det) -> Outcome {
    let mut out = Outcome::new();
    let fam = family(c.cred.proto);
    let Ok(keys) = refside::ref_keys(&c.cred) else { return out };
    let payload = gen::keystream(c.seed, 0, c.len as usize);
    let mut warm_up: Vec<Vec<u8>> = vec![];
    let (wire, kind): (Vec<u8>, &'static str) = match (c.cred.proto, &c.attack) {
        (Proto::SsLegacy(_) | Proto::Ss22(_), Attack::Random(n)) => (d.bytes(*n as usize), "random-bytes"),
        (Proto::SsLegacy(l), Attack::OneBitKey(i)) => {
            let mut k = keys.legacy_key.clone();
            flip_bit(&mut k, *i);
            (ss::encode_datagram(l, &k, &d.bytes(l.key_len()), &c.addr, &payload), "one-bit-different-key")
        }
        (Proto::SsLegacy(l), Attack::OtherCredential(s)) => (ss::encode_datagram(l, &ss::evp_bytes_to_key(format!("other-{}", s).as_bytes(), l.key_len()), &d.bytes(l.key_len()), &c.addr, &payload), "other-credential"),
        (Proto::Ss22(cc), atk) => {
            let mut upsk = keys.client_upsk.clone();
            let mut ipsks = if cc.is_aes() { keys.client_ipsks.clone() } else { vec![] };
            let mut splice_named: Option<Vec<u8>> = None;
            let kind = match atk {
                Attack::OneBitKey(i) => {
                    if !ipsks.is_empty() && i % 2 == 1 {
                        flip_bit(&mut ipsks[0], *i)
                    } else {
                        flip_bit(&mut upsk, *i)
                    }
                    "one-bit-different-key"
                }
                Attack::OtherCredential(_) => {
                    upsk = d.bytes(cc.key_len());
                    if !ipsks.is_empty() {
                        ipsks[0] = d.bytes(cc.key_len());
                    }
                    "other-credential"
                }
                Attack::UnknownUser if !ipsks.is_empty() => {
                    upsk = d.bytes(cc.key_len());
                    "unregistered-user"
                }
                Attack::WrongServerKey if !ipsks.is_empty() => {
                    ipsks[0] = d.bytes(cc.key_len());
                    "right-user-wrong-server-key"
                }
                Attack::NoIdentityHeader if !ipsks.is_empty() => {
                    upsk = keys.server_psk.clone();
                    ipsks.clear();
                    "server-key-without-identity"
                }
                Attack::CrossUser if !ipsks.is_empty() && keys.user_psks.len() >= 2 => {
                    // body under v's key; the identity header is replaced below by one naming u
                    let u = c.user % keys.user_psks.len();
                    let v = (u + 1) % keys.user_psks.len();
                    upsk = keys.user_psks[v].clone();
                    splice_named = Some(keys.user_psks[u].clone());
                    "identity-of-u-body-under-v"
                }
                Attack::UnknownUserBodyUnderServerKey(v) if !ipsks.is_empty() => {
                    upsk = keys.server_psk.clone();
                    splice_named = Some(if *v == 0 { keys.server_psk.clone() } else { d.bytes(cc.key_len()) });
                    "unregistered-identity-body-under-server-key"
                }
                _ => return out,
            };
            let sid = d.u64();
            if c.warm {
                // honest use of the same session id first (the server's one datagram codec and its process-wide cipher cache
                // are shared by every session, as in the running server)
                let honest_ipsks = if cc.is_aes() { keys.client_ipsks.clone() } else { vec![] };
                // (for the cross-user splice only the user whose key seals the forged body: a second honest user on the same
                // session id would itself be a clash of two users' sessions)
                let owners: Vec<Vec<u8>> = if matches!(atk, Attack::CrossUser) { vec![upsk.clone()] } else { vec![keys.client_upsk.clone()] };
                for (k, owner) in owners.iter().enumerate() {
                    let p0 = UdpClientPacket { sid, pid: k as u64, typ: 0, ts: T0, padding: vec![], addr: c.addr.clone(), payload: b"honest".to_vec(), xnonce: d.bytes(24) };
                    let w0 = ss2022::encode_udp_client(cc, owner, &honest_ipsks, &p0);
                    warm_up.push(w0);
                }
            }
            let pkt = UdpClientPacket { sid, pid: 7, typ: 0, ts: T0, padding: d.bytes(2), addr: c.addr.clone(), payload: payload.clone(), xnonce: d.bytes(24) };
            let mut w = ss2022::encode_udp_client(cc, &upsk, &ipsks, &pkt);
            if let Some(named) = splice_named {
                // identity header = AES-ECB_{iPSK}(BLAKE3(named key)[..16] xor (session id || packet id))
                let mut block = ss2022::psk_hash(&named);
                let mut header = [0u8; 16];
                header[..8].copy_from_slice(&pkt.sid.to_be_bytes());
                header[8..].copy_from_slice(&pkt.pid.to_be_bytes());
                for (b, h) in block.iter_mut().zip(header.iter()) {
                    *b ^= h;
                }
                crate::refimpl::aes_ecb_encrypt_block(&ipsks[0], &mut block);
                w[16..32].copy_from_slice(&block);
            }
            (w, kind)
        }
        _ => return out,
    };
    out.label(format!("proto:{}", c.cred.proto.short()));
    out.label(format!("attack:udp-{}", kind));
    if kind != "random-bytes" {
        out.nontrivial(format!("udp|{}|{}|{}", c.cred.proto.short(), kind, c.cred.users.len()));
    }
    let Ok(sudp) = real::server_udp(&c.cred) else { return out };
    if !warm_up.is_empty() {
        let ok = warm_up.iter().filter(|w0| matches!(rt::catch(|| sudp.decode(&mut BytesMut::from(&w0[..]))), Ok(Ok(Some(_))))).count();
        out.label(format!("warm-session:{}-of-{}-honest-datagrams-accepted", ok, warm_up.len()));
    }
    let mut src = BytesMut::from(&wire[..]);
    if let Ok(Ok(Some((content, a, s)))) = rt::catch(|| sudp.decode(&mut src)) {
        out.fail(format!("no-credential/{}/server-forwards-datagram-for-{}", fam, kind), format!("datagram not made with the configured credential decoded to {} bytes for {:?} (session {:?})", content.len(), a, s));
    }
    out
}

/// User separation: traffic authenticated as user u is attributed to u and answered under u's key only.
pub struct UserSeparation;

#[derive(Clone, Debug, Serialize, Deserialize)]
pub struct SepCase {
    pub cred: Cred,
    pub user: usize,
    pub addr: Addr,
    pub len: u32,
    pub seed: u64,
    pub udp: bool,
}

impl SubCheck for UserSeparation {
    type Case = SepCase;
    fn name(&self) -> &'static str {
        "user-separation"
    }
    fn strategy(&self, _tier: Tier) -> BoxedStrategy<SepCase> {
        let protos = vec![Proto::Ss22(ss2022::C22::Aes128), Proto::Ss22(ss2022::C22::Aes256)];
        (proptest::sample::select(protos), any::<u64>(), 2usize..8, 0usize..8, gen::addr_strategy(), 1u32..400, any::<bool>())
            .prop_map(|(proto, seed, n, user, addr, len, udp)| SepCase { cred: gen::make_cred(proto, "", seed, n, user), user: user % n, addr, len, seed, udp })
            .boxed()
    }
    fn exec(&self, c: &SepCase) -> Outcome {
        let mut out = Outcome::new();
        real::set_clock(Some(T0));
        let Proto::Ss22(cc) = c.cred.proto else { return out };
        let mut d = Det::new(c.seed, "sep");
        let keys = refside::ref_keys(&c.cred).unwrap();
        let n = c.cred.users.len();
        out.label(format!("users:{}", n));
        out.nontrivial(format!("{}|{}|{}|{}", c.cred.proto.short(), n, c.user, c.udp));
        let payload = gen::keystream(c.seed, 0, c.len as usize);
        let reply = gen::keystream(c.seed ^ 1, 0, c.len as usize);
        if !c.udp {
            let f = refside::ref_client_request(&c.cred, &c.addr, &[payload.clone()], &ReqOpts::new(T0), &mut d).unwrap();
            let sctx = ServerCtx::new(&c.cred).unwrap();
            let mut codec = sctx.codec().unwrap();
            let (items, _, fed) = feed_server(&mut codec, &[f.wire.clone()]);
            match flow_of(&items) {
                Flow::Tcp { addr, bytes } if addr == c.addr && bytes == payload && fed.clean() => {}
                other => {
                    out.fail("user-separation/ss-2022/registered-user-not-served", format!("user {} of {}: flow {} err={:?} panic={:?}", c.user, n, brief_flow(&other), fed.err, fed.panic));
                    return out;
                }
            }
            let Ok((wire_s, _)) = encode_all(&mut codec, vec![OutboundIn::Tcp(BytesMut::from(&reply[..]))]) else { return out };
            let SessionInfo::Ss22 { request_salt, .. } = &f.session else { unreachable!() };
            for (i, uk) in keys.user_psks.iter().enumerate() {
                let sess = SessionInfo::Ss22 { request_salt: request_salt.clone(), key: uk.clone() };
                let r = refside::ref_client_decode(&c.cred, &sess, &wire_s, T0);
                if i == c.user {
                    if r.as_ref().map(|r| r.payload != reply).unwrap_or(true) {
                        out.fail("user-separation/ss-2022/reply-not-under-the-users-key", format!("reply to user {} does not open under that user's key: {:?}", c.user, r.err()));
                        return out;
                    }
                } else if r.is_ok() {
                    out.fail("user-separation/ss-2022/reply-opens-under-another-users-key", format!("reply to user {} opens under user {}'s key", c.user, i));
                    return out;
                }
            }
            // nor under the server key
            if refside::ref_client_decode(&c.cred, &SessionInfo::Ss22 { request_salt: request_salt.clone(), key: keys.server_psk.clone() }, &wire_s, T0).is_ok() {
                out.fail("user-separation/ss-2022/reply-opens-under-the-server-key", format!("reply to user {} opens under the server key", c.user));
            }
        } else {
            let pkt = UdpClientPacket { sid: d.u64(), pid: 0, typ: 0, ts: T0, padding: d.bytes(1), addr: c.addr.clone(), payload: payload.clone(), xnonce: vec![] };
            let w = ss2022::encode_udp_client(cc, &keys.client_upsk, &keys.client_ipsks, &pkt);
            let sudp = real::server_udp(&c.cred).unwrap();
            let mut src = BytesMut::from(&w[..]);
            let sess = match rt::catch(|| sudp.decode(&mut src)) {
                Ok(Ok(Some((content, a, s)))) if content == payload && real::from_address(&a) == c.addr => s,
                other => {
                    out.fail("user-separation/ss-2022/registered-user-datagram-not-served", format!("{:?}", other.map(|o| o.map(|x| x.map(|(c, a, s)| (c.len(), a, s))))));
                    return out;
                }
            };
            if sess.user.as_deref() != Some(c.cred.users[c.user].0.as_str()) {
                out.fail("user-separation/ss-2022/datagram-attributed-to-another-user", format!("sent as {}, attributed to {:?}", c.cred.users[c.user].0, sess.user));
                return out;
            }
            let mut rs = sess.clone();
            rs.server_sid = d.u64();
            rs.pid = 1;
            let mut wire_r = BytesMut::new();
            let Some(reply_address) = real::to_address(&Addr::V4([127, 0, 0, 1], 53)) else { return out };
            if !matches!(rt::catch(|| sudp.encode(&reply, reply_address, &rs, &mut wire_r)), Ok(Ok(()))) {
                return out;
            }
            for (i, uk) in keys.user_psks.iter().enumerate() {
                let r = ss2022::decode_udp_server(cc, uk, &wire_r);
                if i == c.user {
                    if r.as_ref().map(|r| r.pkt.payload != reply).unwrap_or(true) {
                        out.fail("user-separation/ss-2022/datagram-reply-not-under-the-users-key", format!("{:?}", r.err()));
                        return out;
                    }
                } else if r.is_ok() {
                    out.fail("user-separation/ss-2022/datagram-reply-opens-under-another-users-key", format!("reply to user {} opens under user {}'s key", c.user, i));
                    return out;
                }
            }
            if ss2022::decode_udp_server(cc, &keys.server_psk, &wire_r).is_ok() {
                out.fail("user-separation/ss-2022/datagram-reply-opens-under-the-server-key", format!("reply to user {} opens under the server key", c.user));
            }
        }
        out
    }
}

// ------------------------------------------------------------------ several server entries in one process

/// The server's configuration is a list of entries served by one process. Entries of one protocol with different
/// credentials must stay apart whatever the process remembers: a peer that proves entry i's credential to entry j (i != j)
/// is a peer without the configured secret. The history runs in a *fresh child process* (a process-wide cache that is
/// filled on first use shows only there): codecs are created per connection, the way the accept loops create them.
#[derive(Clone, Debug, Serialize, Deserialize)]
pub struct EntriesCase {
    pub proto: Proto,
    pub seed: u64,
    pub entries: u8,
    /// (entry whose server codec receives the connection, entry whose credential the peer proves)
    pub steps: Vec<(u8, u8)>,
    pub udp: bool,
}

pub struct ServerEntries;

/// Runs in the child: one line of JSON with, per step, (to, with, dialled).
pub fn entries_child(case_json: &str) -> String {
    let c: EntriesCase = serde_json::from_str(case_json).expect("harness: case");
    real::set_clock(Some(T0));
    let n = c.entries.clamp(2, 4) as usize;
    let users = |p: Proto| if matches!(p, Proto::Ss22(cc) if cc.is_aes()) { (c.seed % 3) as usize } else { 0 };
    let creds: Vec<Cred> = (0..n).map(|i| gen::make_cred(c.proto, &format!("entry-{}-{}", i, c.seed), c.seed.wrapping_mul(31).wrapping_add(i as u64 * 7919 + 1), users(c.proto), 0)).collect();
    let udp = c.udp && matches!(c.proto, Proto::SsLegacy(_) | Proto::Ss22(_));
    let mut d = Det::new(c.seed, "entries");
    let addr = Addr::V4([10, 20, 30, 40], 443);
    let mut res = vec![];
    for (step, (to, with)) in c.steps.iter().enumerate() {
        let (to, with) = (*to as usize % n, *with as usize % n);
        let payload = vec![gen::keystream(c.seed ^ step as u64, 0, 40)];
        let dial = if udp {
            let keys = refside::ref_keys(&creds[with]).expect("harness: keys");
            let wire = match c.proto {
                Proto::SsLegacy(l) => ss::encode_datagram(l, &keys.legacy_key, &d.bytes(l.key_len()), &addr, &payload[0]),
                Proto::Ss22(cc) => {
                    let ipsks = if cc.is_aes() { keys.client_ipsks.clone() } else { vec![] };
                    ss2022::encode_udp_client(cc, &keys.client_upsk, &ipsks, &UdpClientPacket { sid: d.u64(), pid: step as u64, typ: 0, ts: T0, padding: vec![], addr: addr.clone(), payload: payload[0].clone(), xnonce: d.bytes(24) })
                }
                _ => unreachable!(),
            };
            let sudp = real::server_udp(&creds[to]).expect("harness: server udp");
            matches!(rt::catch(|| sudp.decode(&mut BytesMut::from(&wire[..]))), Ok(Ok(Some(_))))
        } else {
            let f = refside::ref_client_request(&creds[with], &addr, &payload, &refside::ReqOpts::new(T0), &mut d).expect("harness: request");
            let sctx = ServerCtx::new(&creds[to]).expect("harness: server ctx");
            let mut codec = sctx.codec().expect("harness: codec");
            let (items, _, _) = feed_server(&mut codec, &[f.wire.clone()]);
            items.iter().any(|i| i.is_dial())
        };
        res.push((to, with, dial));
    }
    serde_json::to_string(&res).unwrap()
}

impl SubCheck for ServerEntries {
    type Case = EntriesCase;
    fn name(&self) -> &'static str {
        "server-entries"
    }
    fn strategy(&self, _tier: Tier) -> BoxedStrategy<EntriesCase> {
        (gen::proto_strategy(), any::<u64>(), 2u8..=3, proptest::collection::vec((0u8..3, 0u8..3), 2..7), proptest::bool::weighted(0.3))
            .prop_map(|(proto, seed, entries, steps, udp)| EntriesCase { proto, seed, entries, steps, udp })
            .boxed()
    }
    fn workers(&self) -> usize {
        rt::threads().min(8)
    }
    fn exec(&self, c: &EntriesCase) -> Outcome {
        let mut out = Outcome::new();
        let exe = std::env::current_exe().expect("harness: current_exe");
        let o = std::process::Command::new(exe).arg("c06-entries").arg(serde_json::to_string(c).unwrap()).output().expect("harness: spawn child");
        let text = String::from_utf8_lossy(&o.stdout);
        let Some(line) = text.lines().rev().find(|l| l.starts_with('[')) else {
            if String::from_utf8_lossy(&o.stderr).contains("harness:") {
                panic!("harness: entries child failed: {}", String::from_utf8_lossy(&o.stderr));
            }
            out.fail("server-entries/child-died", format!("the child process that ran the history ended without a result (status {:?}): {}", o.status.code(), crate::ev::truncate(&String::from_utf8_lossy(&o.stderr), 600)));
            return out;
        };
        let res: Vec<(usize, usize, bool)> = serde_json::from_str(line).expect("harness: child result");
        let fam = family(c.proto);
        out.label(format!("proto:{}", c.proto.short()));
        out.label(if c.udp && matches!(c.proto, Proto::SsLegacy(_) | Proto::Ss22(_)) { "datagrams" } else { "streams" });
        out.weight = res.len() as u64;
        let own_ok = res.iter().filter(|(t, w, d)| t == w && *d).count();
        let cross = res.iter().filter(|(t, w, _)| t != w).count();
        if cross > 0 && own_ok > 0 {
            out.nontrivial(format!("{}|{}|{}|{}", c.proto.short(), c.udp, res.iter().map(|(t, w, _)| if t == w { 'o' } else { 'x' }).collect::<String>(), res.first().map(|(t, w, _)| t == w).unwrap_or(false)));
        }
        if let Some((k, (t, w, _))) = res.iter().enumerate().find(|(_, (t, w, d))| t != w && *d) {
            out.fail(
                format!("server-entries/{}/entry-serves-a-peer-that-proved-another-entrys-credential", fam),
                format!("step {} of {:?} (receiving entry, proven credential, dialled): entry {} dialled for a peer that holds only entry {}'s credential", k, res, t, w),
            );
        }
        out
    }
}

pub fn subs() -> Vec<Box<dyn DynSub>> {
    let mut v: Vec<Box<dyn DynSub>> = vec![Box::new(NoCredential), Box::new(UserSeparation), Box::new(ServerEntries)];
    v.extend(crate::props::c06_sys::subs());
    v
}

pub fn run(ctx: &mut PropCtx) {
    ctx.rule = "server decoders built from generated credentials / user tables are fed input that was not produced with the configured \
                credential: random bytes (0..4 KiB), reference-built valid handshakes under another credential, under a key that differs \
                in one bit, of another protocol, truncated before the credential is proven, 2022 identity-header near-misses (unregistered \
                user, wrong server key, server key without identity, identity of u with body under v, identity chain on a single-key \
                server), VMess auth-ids of unregistered UUIDs and auth-id-of-u/header-under-v, Trojan hashes differing in one digit; TCP \
                and Shadowsocks UDP. Oracle: no ConnectTcp / RelayUdp item, no decoded datagram. User separation: for every user u of a \
                generated table the request is served, attributed to u, and the reply opens under u's key and under no other user's key nor \
                the server key (reference decoder). Non-trivial = a full handshake that differs from an acceptable one in key material \
                only, or a user-pair check; distinct by (protocol, near-miss kind, table size, address kind)."
        .into();
    ctx.assumptions = vec!["a panic or error on such input is acceptable for this property (C07 reports panics)".into()];
    let t = ctx.tier;
    rt::run_sub(ctx, &NoCredential, t.pick(400_000, 4_000_000));
    rt::run_sub(ctx, &UserSeparation, t.pick(40_000, 400_000));
    rt::run_sub(ctx, &ServerEntries, t.pick(600, 6_000));
    crate::props::c06_sys::run(ctx);
}
