//! C16 – Configuration names select exactly the documented behaviour (Engine B: the real binaries' start-up code).
use crate::ev::{Outcome, PropCtx, Tier};
use crate::gen::make_cred;
use crate::real::{Cred, Proto};
use crate::refimpl::ss::Legacy;
use crate::refimpl::ss2022::C22;
use crate::refimpl::{b64, Addr};
use crate::rt::{self, DynSub, SubCheck};
use crate::sys::cluster::{client_doc, server_entry, RawProc, Spec, Transport};
use crate::sys::net::{self, Hs, UdpTarget};
use crate::sys::refpeer::{ref_tcp_roundtrip, ref_tcp_serve_once, RefUdpClient};
use crate::sys::free_port;
use proptest::prelude::*;
use proptest::strategy::BoxedStrategy;
use serde::{Deserialize, Serialize};
use serde_json::{json, Value};
use std::io::Write;
use std::net::{Ipv4Addr, SocketAddrV4, TcpListener};
use std::time::{Duration, Instant};

fn deadline() -> Duration {
    Duration::from_secs(if rt::failed_already() { 4 } else { 10 })
}

/// Poll until the process holds exactly the wanted sockets on `port` (or has exited); returns the last observation.
fn observe(p: &mut RawProc, port: u16, want: (bool, bool), max: Duration) -> ((bool, bool), Option<String>) {
    let t0 = Instant::now();
    let mut stable_since: Option<Instant> = None;
    loop {
        if let Some(st) = p.proc.exited() {
            return (p.sockets(port), Some(st));
        }
        let got = p.sockets(port);
        if got == want {
            // give a late extra listener a chance to show up
            let s = *stable_since.get_or_insert_with(Instant::now);
            if s.elapsed() > Duration::from_millis(350) {
                return (got, None);
            }
        } else {
            stable_since = None;
        }
        if t0.elapsed() > max {
            return (got, None);
        }
        std::thread::sleep(Duration::from_millis(20));
    }
}

// ------------------------------------------------------------------------------------------------ modes -> listeners

#[derive(Clone, Debug, Serialize, Deserialize)]
pub enum ModeCase {
    /// Shadowsocks server with the given mode (None = absent => tcp)
    SsServer { cipher_ix: u8, mode: Option<String> },
    /// VMess / Trojan server with or without a quic section
    StreamServer { vmess: bool, quic: bool, mode: Option<String> },
    /// client with the given mode
    Client { mode: Option<String>, proto_ix: u8 },
}

fn expected_server(mode: Option<&str>) -> (bool, bool) {
    match mode {
        None | Some("tcp") => (true, false),
        Some("udp") => (false, true),
        Some("tcp_and_udp") => (true, true),
        Some("quic") => (false, true),
        Some("tcp_and_quic") => (true, true),
        _ => (false, false),
    }
}

pub struct Listeners;

impl SubCheck for Listeners {
    type Case = ModeCase;
    fn name(&self) -> &'static str {
        "listeners"
    }
    fn strategy(&self, _tier: Tier) -> BoxedStrategy<ModeCase> {
        proptest::sample::select(all_mode_cases()).boxed()
    }
    fn exec(&self, c: &ModeCase) -> Outcome {
        let mut out = Outcome::new();
        out.nontrivial(format!("{:?}", c));
        let protos = Proto::all();
        match c {
            ModeCase::SsServer { cipher_ix, mode } => {
                let ss: Vec<Proto> = protos.into_iter().filter(|p| matches!(p, Proto::SsLegacy(_) | Proto::Ss22(_))).collect();
                let proto = ss[*cipher_ix as usize % ss.len()];
                let quic = matches!(mode.as_deref(), Some("quic") | Some("tcp_and_quic"));
                let mut spec = Spec::new(proto, if quic { Transport::Quic } else { Transport::Tcp });
                spec.seed = 40 + *cipher_ix as u64;
                let cred = spec.cred();
                let port = free_port();
                let mut e = server_entry(&spec, &cred, port);
                match mode {
                    Some(m) => e["mode"] = json!(m),
                    None => {
                        e.as_object_mut().unwrap().remove("mode");
                    }
                }
                out.label(format!("ss-server-mode:{}", mode.clone().unwrap_or("(absent)".into())));
                let want = expected_server(mode.as_deref());
                let Ok(mut p) = RawProc::start(true, &json!([e]), 2) else { return out };
                let (got, exited) = observe(&mut p, port, want, deadline());
                if got != want || exited.is_some() {
                    out.fail(
                        "listeners/ss-server/wrong-sockets-for-mode",
                        format!(
                            "shadowsocks server, cipher {}, mode {:?}: documented sockets (tcp, udp/quic) = {:?}, observed {:?}{}\n{}",
                            proto.cipher_name(),
                            mode,
                            want,
                            got,
                            exited.map(|s| format!(", process exited ({})", s)).unwrap_or_default(),
                            p.proc.log_tail(6)
                        ),
                    );
                    return out;
                }
                // the sockets serve: TCP and QUIC through a real client, UDP through the reference client
                if want.0 || quic {
                    let mut cs = spec.clone();
                    cs.transport = if want.0 { Transport::Tcp } else { Transport::Quic };
                    let lp = free_port();
                    let Ok(mut cp) = RawProc::start(false, &client_doc(&cs, &cred, lp, port), 2) else { return out };
                    let _ = observe(&mut cp, lp, (true, false), deadline());
                    if let Err(e) = crate::props::c08::canary_tcp(lp, deadline(), 7) {
                        out.fail("listeners/ss-server/listener-does-not-serve", format!("mode {:?}, cipher {}: {} over {}\n{}", mode, proto.cipher_name(), e, cs.transport.name(), p.proc.log_tail(6)));
                        return out;
                    }
                    if want.0 && quic {
                        // tcp_and_quic: the QUIC socket serves too
                        let mut cq = spec.clone();
                        cq.transport = Transport::Quic;
                        let lq = free_port();
                        let Ok(mut cpq) = RawProc::start(false, &client_doc(&cq, &cred, lq, port), 2) else { return out };
                        let _ = observe(&mut cpq, lq, (true, false), deadline());
                        if let Err(e) = crate::props::c08::canary_tcp(lq, deadline(), 9) {
                            out.fail("listeners/ss-server/listener-does-not-serve", format!("mode {:?}, cipher {}: {} over quic\n{}", mode, proto.cipher_name(), e, p.proc.log_tail(6)));
                            return out;
                        }
                    }
                }
                if matches!(mode.as_deref(), Some("udp") | Some("tcp_and_udp")) {
                    if let Err(e) = udp_probe(&cred, port) {
                        out.fail("listeners/ss-server/udp-socket-does-not-serve", format!("mode {:?}, cipher {}: {}\n{}", mode, proto.cipher_name(), e, p.proc.log_tail(6)));
                    }
                }
            }
            ModeCase::StreamServer { vmess, quic, mode } => {
                let proto = if *vmess { Proto::Vmess(3) } else { Proto::Trojan };
                let mut spec = Spec::new(proto, if *quic { Transport::Quic } else { Transport::Tcp });
                spec.seed = 60;
                let cred = spec.cred();
                let port = free_port();
                let mut e = server_entry(&spec, &cred, port);
                if let Some(m) = mode {
                    e["mode"] = json!(m);
                }
                out.label(format!("stream-server:{}:quic={}", proto.protocol_name(), quic));
                let want = (true, *quic);
                let Ok(mut p) = RawProc::start(true, &json!([e]), 2) else { return out };
                let (got, exited) = observe(&mut p, port, want, deadline());
                if got != want || exited.is_some() {
                    out.fail(
                        "listeners/stream-server/wrong-sockets",
                        format!("{} server {} a quic section (mode {:?}): documented sockets (tcp, quic) = {:?}, observed {:?}{}\n{}", proto.protocol_name(), if *quic { "with" } else { "without" }, mode, want, got, exited.map(|s| format!(", exited ({})", s)).unwrap_or_default(), p.proc.log_tail(6)),
                    );
                }
            }
            ModeCase::Client { mode, proto_ix } => {
                let proto = protos[*proto_ix as usize % protos.len()];
                let mut spec = Spec::new(proto, Transport::Tcp);
                spec.seed = 80;
                let cred = spec.cred();
                let lp = free_port();
                let mut d = client_doc(&spec, &cred, lp, free_port());
                match mode {
                    Some(m) => d["mode"] = json!(m),
                    None => {
                        d.as_object_mut().unwrap().remove("mode");
                    }
                }
                out.label(format!("client-mode:{}", mode.clone().unwrap_or("(absent)".into())));
                let want = match mode.as_deref() {
                    None | Some("tcp") => (true, false),
                    Some("udp") => (false, true),
                    Some("tcp_and_udp") => (true, true),
                    _ => (false, false),
                };
                let Ok(mut p) = RawProc::start(false, &d, 2) else { return out };
                let (got, exited) = observe(&mut p, lp, want, deadline());
                if got != want || exited.is_some() {
                    out.fail(
                        "listeners/client/wrong-sockets-for-mode",
                        format!("client ({}), mode {:?}: documented sockets (tcp, udp) = {:?}, observed {:?}{}\n{}", proto.short(), mode, want, got, exited.map(|s| format!(", process exited ({})", s)).unwrap_or_default(), p.proc.log_tail(6)),
                    );
                }
            }
        }
        out
    }
    fn workers(&self) -> usize {
        (rt::threads() / 2).clamp(1, 8)
    }
    fn max_shrink_iters(&self) -> u32 {
        0
    }
    fn confirm_runs(&self) -> u32 {
        2
    }
}

fn udp_probe(cred: &Cred, server_port: u16) -> Result<(), String> {
    let t = UdpTarget::spawn(3, true);
    let rc = RefUdpClient::new(cred, server_port, 0x16_0000 + server_port as u64)?;
    for pid in 1..=3u64 {
        let payload = format!("c16-udp-{}", pid).into_bytes();
        rc.send(pid, &Addr::V4([127, 0, 0, 1], t.port), &payload);
        for r in rc.recv_all(Duration::from_millis(if rt::failed_already() { 500 } else { 1500 })) {
            match r {
                Ok((_, _, body)) if body.len() >= 6 && body[6..] == payload[..] => return Ok(()),
                Ok(_) => {}
                Err(e) => return Err(format!("the reference cannot decode the server's reply: {}", e)),
            }
        }
    }
    Err(format!("three reference-built datagrams got no reply ({} reached the target)", t.received().len()))
}

pub fn all_mode_cases() -> Vec<ModeCase> {
    let mut v = vec![];
    for (i, m) in [None, Some("tcp"), Some("udp"), Some("tcp_and_udp"), Some("quic"), Some("tcp_and_quic")].iter().enumerate() {
        for k in 0..2u8 {
            // one legacy and one 2022 cipher per mode, rotating
            v.push(ModeCase::SsServer { cipher_ix: (i as u8 + 3 * k) % 7, mode: m.map(|s| s.to_string()) });
        }
    }
    for vmess in [true, false] {
        for quic in [false, true] {
            v.push(ModeCase::StreamServer { vmess, quic, mode: None });
            v.push(ModeCase::StreamServer { vmess, quic, mode: Some("tcp".into()) });
        }
    }
    for (i, m) in [None, Some("tcp"), Some("udp"), Some("tcp_and_udp")].iter().enumerate() {
        v.push(ModeCase::Client { mode: m.map(|s| s.to_string()), proto_ix: i as u8 });
        v.push(ModeCase::Client { mode: m.map(|s| s.to_string()), proto_ix: i as u8 + 5 });
    }
    v
}

// ------------------------------------------------------------------------------------------------ names -> algorithm and key

#[derive(Clone, Debug, Serialize, Deserialize)]
pub struct NameCase {
    /// the documented cipher name as written in the configuration
    pub name: String,
    pub vmess: bool,
    pub seed: u64,
    pub users: u8,
}

pub fn documented_names() -> Vec<(String, bool)> {
    let mut v: Vec<(String, bool)> = vec![];
    for n in ["aes-128-gcm", "aes-256-gcm", "chacha20-poly1305", "chacha20-ietf-poly1305", "2022-blake3-aes-128-gcm", "2022-blake3-aes-256-gcm", "2022-blake3-chacha8-poly1305", "2022-blake3-chacha20-poly1305"] {
        v.push((n.to_string(), false));
    }
    for n in ["aes-128-gcm", "chacha20-poly1305", "chacha20-ietf-poly1305"] {
        v.push((n.to_string(), true));
    }
    v
}

fn proto_for(name: &str, vmess: bool) -> Option<Proto> {
    Some(if vmess {
        match name {
            "aes-128-gcm" => Proto::Vmess(3),
            "chacha20-poly1305" | "chacha20-ietf-poly1305" => Proto::Vmess(4),
            _ => return None,
        }
    } else {
        match name {
            "aes-128-gcm" => Proto::SsLegacy(Legacy::Aes128Gcm),
            "aes-256-gcm" => Proto::SsLegacy(Legacy::Aes256Gcm),
            "chacha20-poly1305" | "chacha20-ietf-poly1305" => Proto::SsLegacy(Legacy::ChaCha20),
            "2022-blake3-aes-128-gcm" => Proto::Ss22(C22::Aes128),
            "2022-blake3-aes-256-gcm" => Proto::Ss22(C22::Aes256),
            "2022-blake3-chacha8-poly1305" => Proto::Ss22(C22::ChaCha8),
            "2022-blake3-chacha20-poly1305" => Proto::Ss22(C22::ChaCha20),
            _ => return None,
        }
    })
}

pub struct Names;

impl SubCheck for Names {
    type Case = NameCase;
    fn name(&self) -> &'static str {
        "names"
    }
    fn strategy(&self, _tier: Tier) -> BoxedStrategy<NameCase> {
        (proptest::sample::select(documented_names()), 1u64..1_000_000, 0u8..3).prop_map(|((name, vmess), seed, users)| NameCase { name, vmess, seed, users }).boxed()
    }
    fn exec(&self, c: &NameCase) -> Outcome {
        let mut out = Outcome::new();
        let Some(proto) = proto_for(&c.name, c.vmess) else { return out };
        out.nontrivial(format!("{}|{}|{}", c.name, c.vmess, c.users.min(1)));
        out.label(format!("name:{}{}", if c.vmess { "vmess/" } else { "ss/" }, c.name));
        let pw = format!("an ordinary password {:x}", c.seed);
        let users = if matches!(proto, Proto::Ss22(x) if x.is_aes()) { c.users as usize } else { 0 };
        let cred = make_cred(proto, &pw, c.seed, users, 1);
        let mut spec = Spec::new(proto, Transport::Tcp);
        spec.udp = !c.vmess;
        // ---- server side: reference client -> real server, TCP and (Shadowsocks) UDP
        let port = free_port();
        let mut e = server_entry(&spec, &cred, port);
        e["cipher"] = json!(c.name);
        let Ok(mut p) = RawProc::start(true, &json!([e]), 2) else { return out };
        let want = (true, spec.udp);
        let (got, exited) = observe(&mut p, port, want, deadline());
        if got != want || exited.is_some() {
            out.fail("names/server/documented-name-not-accepted", format!("server with cipher {:?} ({}): expected sockets {:?}, observed {:?}, exited {:?}\n{}", c.name, proto.protocol_name(), want, got, exited, p.proc.log_tail(6)));
            return out;
        }
        let up = crate::gen::keystream(c.seed, 0, 700);
        let down = crate::gen::keystream(c.seed + 1, 0, 900);
        if let Err(e) = ref_tcp_roundtrip(&cred, port, &up, &down, deadline()) {
            out.fail(
                "names/server/reference-client-not-served-over-tcp",
                format!("cipher name {:?} ({}), password {:?}: a reference client using the documented algorithm and key derivation is not served: {}\n{}", c.name, proto.protocol_name(), cred.password, e, p.proc.log_tail(6)),
            );
            return out;
        }
        if spec.udp {
            if let Err(e) = udp_probe(&cred, port) {
                out.fail(
                    "names/server/reference-client-not-served-over-udp",
                    format!("cipher name {:?}, password {:?}: a reference UDP client using the documented algorithm and key derivation is not served: {}\n{}", c.name, cred.password, e, p.proc.log_tail(6)),
                );
                return out;
            }
        }
        drop(p);
        // ---- client side: real client -> reference server
        let rl = TcpListener::bind(SocketAddrV4::new(Ipv4Addr::LOCALHOST, 0)).expect("harness: bind reference server");
        let rport = rl.local_addr().expect("harness: local_addr").port();
        let lp = free_port();
        let mut d = client_doc(&Spec::new(proto, Transport::Tcp), &cred, lp, rport);
        d["servers"][0]["cipher"] = json!(c.name);
        let Ok(mut cp) = RawProc::start(false, &d, 2) else { return out };
        let (got, exited) = observe(&mut cp, lp, (true, false), deadline());
        if got != (true, false) || exited.is_some() {
            out.fail("names/client/documented-name-not-accepted", format!("client with cipher {:?} ({}): no TCP listener (observed {:?}, exited {:?})\n{}", c.name, proto.protocol_name(), got, exited, cp.proc.log_tail(6)));
            return out;
        }
        let cred2 = cred.clone();
        let want_addr_port = 4242u16;
        let h = std::thread::spawn(move || ref_tcp_serve_once(&cred2, &rl, 500, b"reference-answer", deadline()));
        let app = net::app_connect(lp, Hs::Socks5V4, want_addr_port, deadline());
        let payload = crate::gen::keystream(c.seed + 2, 0, 500);
        if let Ok((mut s, _)) = app {
            let _ = s.write_all(&payload);
            let r = h.join().unwrap_or_else(|_| Err("harness: reference server thread".into()));
            match r {
                Ok((addr, got)) => {
                    if addr != Addr::V4([127, 0, 0, 1], want_addr_port) || got[..payload.len().min(got.len())] != payload[..payload.len().min(got.len())] || got.len() < payload.len() {
                        out.fail("names/client/reference-server-decodes-something-else", format!("cipher {:?}: the reference server decoded target {:?} and {} payload bytes; the application asked for 127.0.0.1:{} and wrote {} bytes", c.name, addr, got.len(), want_addr_port, payload.len()));
                    }
                }
                Err(e) => {
                    out.fail(
                        "names/client/reference-server-cannot-decode-client",
                        format!("cipher name {:?} ({}), password {:?}: what the client sends is not what the documented algorithm and key derivation produce: {}\n{}", c.name, proto.protocol_name(), cred.client_password.clone().unwrap_or(cred.password.clone()), e, cp.proc.log_tail(6)),
                    );
                }
            }
        } else {
            let _ = h.join();
            out.fail("names/client/local-handshake-failed", format!("cipher {:?}: {:?}", c.name, app.err()));
        }
        out
    }
    fn workers(&self) -> usize {
        (rt::threads() / 2).clamp(1, 8)
    }
    fn max_shrink_iters(&self) -> u32 {
        8
    }
    fn confirm_runs(&self) -> u32 {
        2
    }
}

// ------------------------------------------------------------------------------------------------ bad values are refused

#[derive(Clone, Debug, Serialize, Deserialize)]
pub enum Bad {
    /// an undocumented cipher string
    Cipher(String),
    Protocol(String),
    Mode(String),
    /// a 2022 key that decodes to `len` bytes instead of the cipher's key size; `place`: 0 server/client password,
    /// 1 identity key in front of a good user key, 2 user table entry
    KeyLen { cipher: C22, len: u8, place: u8 },
    /// Shadowsocks server mode quic / tcp_and_quic without a quic section
    QuicModeWithoutSection(bool),
    /// a quic (or ssl) section whose certificate file does not exist: that listener cannot start
    MissingCertificate { quic: bool },
    /// a shadowsocks entry without any `cipher` field (the protocol has no default cipher); `mode` 0..6 picks the server mode
    NoCipher(u8),
}

#[derive(Clone, Debug, Serialize, Deserialize)]
pub struct BadCase {
    pub bad: Bad,
    /// 0 shadowsocks, 1 vmess, 2 trojan
    pub proto: u8,
    pub server: bool,
    pub seed: u64,
}

fn near_miss_names() -> BoxedStrategy<String> {
    let docs: Vec<&'static str> = vec!["aes-128-gcm", "aes-256-gcm", "chacha20-poly1305", "chacha20-ietf-poly1305", "2022-blake3-aes-128-gcm", "2022-blake3-aes-256-gcm", "2022-blake3-chacha8-poly1305", "2022-blake3-chacha20-poly1305", "tcp", "udp", "tcp_and_udp", "quic", "tcp_and_quic", "shadowsocks", "vmess", "trojan"];
    let mutated = (proptest::sample::select(docs.clone()), 0u8..8, any::<u8>()).prop_map(|(n, k, x)| {
        let s = n.to_string();
        match k {
            0 => s.to_uppercase(),
            1 => s.replace('-', "_"),
            2 => s.replace('_', "-"),
            3 => s[..s.len() - 1].to_string(),
            4 => format!("{}{}", s, (b'a' + x % 26) as char),
            5 => format!(" {}", s),
            6 => s.replacen("128", "192", 1).replacen("chacha20", "chacha12", 1).replacen("and", "or", 1).replacen("vmess", "vless", 1).replacen("trojan", "trojan-go", 1).replacen("shadowsocks", "shadowsocksr", 1).replacen("quic", "kcp", 1).replacen("tcp", "tcp4", 1).replacen("udp", "udp4", 1),
            _ => {
                let mut c: Vec<char> = s.chars().collect();
                let i = x as usize % c.len();
                c[i] = if c[i] == 'x' { 'y' } else { 'x' };
                c.into_iter().collect()
            }
        }
    });
    prop_oneof![
        5 => mutated,
        2 => proptest::string::string_regex("[a-z0-9-]{0,24}").unwrap(),
        1 => proptest::sample::select(vec!["none", "plain", "auto", "aes-128-cfb", "rc4-md5", "xchacha20-ietf-poly1305", "2022-blake3-aes-192-gcm", "", "null"]).prop_map(|s| s.to_string()),
    ]
    .boxed()
}

fn is_documented(kind: &str, s: &str) -> bool {
    match kind {
        "cipher" => documented_names().iter().any(|(n, _)| n == s),
        "protocol" => matches!(s, "shadowsocks" | "vmess" | "trojan"),
        "server-mode" => matches!(s, "tcp" | "udp" | "tcp_and_udp" | "quic" | "tcp_and_quic"),
        "client-mode" => matches!(s, "tcp" | "udp" | "tcp_and_udp"),
        _ => false,
    }
}

pub struct Refusals;

impl SubCheck for Refusals {
    type Case = BadCase;
    fn name(&self) -> &'static str {
        "refusals"
    }
    fn strategy(&self, _tier: Tier) -> BoxedStrategy<BadCase> {
        let bad = prop_oneof![
            3 => near_miss_names().prop_map(Bad::Cipher),
            1 => near_miss_names().prop_map(Bad::Protocol),
            2 => near_miss_names().prop_map(Bad::Mode),
            4 => (proptest::sample::select(C22::ALL.to_vec()), 0u8..=64, 0u8..3).prop_map(|(cipher, len, place)| Bad::KeyLen { cipher, len, place }),
            1 => any::<bool>().prop_map(Bad::QuicModeWithoutSection),
            1 => any::<bool>().prop_map(|quic| Bad::MissingCertificate { quic }),
            1 => (0u8..6).prop_map(Bad::NoCipher),
        ];
        (bad, 0u8..3, any::<bool>(), 1u64..1_000_000).prop_map(|(bad, proto, server, seed)| BadCase { bad, proto, server, seed }).boxed()
    }
    fn exec(&self, c: &BadCase) -> Outcome {
        let mut out = Outcome::new();
        let base = match c.proto % 3 {
            0 => Proto::Ss22(C22::Aes128),
            1 => Proto::Vmess(3),
            _ => Proto::Trojan,
        };
        let mut spec = Spec::new(base, Transport::Tcp);
        spec.seed = c.seed;
        let mut cred = spec.cred();
        let port = free_port();
        let lp = free_port();
        let (mut sdoc, mut cdoc);
        let what;
        match &c.bad {
            Bad::Cipher(s) => {
                if is_documented("cipher", s) {
                    return out;
                }
                sdoc = server_entry(&spec, &cred, port);
                sdoc["cipher"] = json!(s);
                cdoc = client_doc(&spec, &cred, lp, port);
                cdoc["servers"][0]["cipher"] = json!(s);
                what = format!("cipher {:?} with protocol {}", s, base.protocol_name());
                out.label("bad:cipher-name");
            }
            Bad::Protocol(s) => {
                if is_documented("protocol", s) {
                    return out;
                }
                sdoc = server_entry(&spec, &cred, port);
                sdoc["protocol"] = json!(s);
                cdoc = client_doc(&spec, &cred, lp, port);
                cdoc["servers"][0]["protocol"] = json!(s);
                what = format!("protocol {:?}", s);
                out.label("bad:protocol-name");
            }
            Bad::Mode(s) => {
                if is_documented(if c.server { "server-mode" } else { "client-mode" }, s) {
                    return out;
                }
                // quic modes with a quic section are server modes; for the client they are not documented
                spec.proto = Proto::Ss22(C22::Aes256);
                cred = spec.cred();
                let mut sq = spec.clone();
                sq.transport = Transport::Quic;
                sdoc = server_entry(&sq, &cred, port);
                sdoc["mode"] = json!(s);
                cdoc = client_doc(&spec, &cred, lp, port);
                cdoc["mode"] = json!(s);
                what = format!("{} mode {:?}", if c.server { "shadowsocks server" } else { "client" }, s);
                out.label("bad:mode-name");
            }
            Bad::QuicModeWithoutSection(both) => {
                if !c.server {
                    return out;
                }
                spec.proto = Proto::Ss22(C22::Aes128);
                cred = spec.cred();
                sdoc = server_entry(&spec, &cred, port);
                sdoc["mode"] = json!(if *both { "tcp_and_quic" } else { "quic" });
                cdoc = json!(null);
                what = format!("shadowsocks server mode {} without a quic section", sdoc["mode"]);
                out.label("bad:quic-mode-without-quic-section");
            }
            Bad::MissingCertificate { quic } => {
                if !c.server {
                    return out;
                }
                let mut sq = spec.clone();
                sq.transport = if *quic { Transport::Quic } else { Transport::Tls };
                sdoc = server_entry(&sq, &cred, port);
                let sect = if *quic { "quic" } else { "ssl" };
                sdoc[sect]["certificateFile"] = json!("/nonexistent/certificate.pem");
                cdoc = json!(null);
                what = format!("{} server whose {} section names a certificate file that does not exist", base.protocol_name(), sect);
                out.label("bad:missing-certificate");
            }
            Bad::NoCipher(mode) => {
                spec.proto = Proto::Ss22(C22::Aes128);
                cred = spec.cred();
                let m = [None, Some("tcp"), Some("udp"), Some("tcp_and_udp"), Some("quic"), Some("tcp_and_quic")][*mode as usize % 6];
                let mut sq = spec.clone();
                if matches!(m, Some("quic") | Some("tcp_and_quic")) {
                    sq.transport = Transport::Quic;
                }
                sdoc = server_entry(&sq, &cred, port);
                sdoc.as_object_mut().unwrap().remove("cipher");
                match m {
                    Some(m) => sdoc["mode"] = json!(m),
                    None => {
                        sdoc.as_object_mut().unwrap().remove("mode");
                    }
                }
                cdoc = client_doc(&spec, &cred, lp, port);
                cdoc["servers"][0].as_object_mut().unwrap().remove("cipher");
                what = format!("shadowsocks {} entry without a cipher field (mode {:?})", if c.server { "server" } else { "client" }, m);
                out.label("bad:no-cipher-field");
            }
            Bad::KeyLen { cipher, len, place } => {
                if *len as usize == cipher.key_len() {
                    return out;
                }
                let place = if cipher.is_aes() { *place % 3 } else { 0 };
                spec.proto = Proto::Ss22(*cipher);
                spec.n_users = if place > 0 { 2 } else { 0 };
                cred = spec.cred();
                let badkey = b64(&crate::gen::keystream(c.seed, 0, *len as usize));
                sdoc = server_entry(&spec, &cred, port);
                cdoc = client_doc(&spec, &cred, lp, port);
                match place {
                    0 => {
                        sdoc["password"] = json!(badkey);
                        cdoc["servers"][0]["password"] = json!(badkey);
                    }
                    1 => {
                        // wrong-length identity (server) key; the user key stays good
                        sdoc["password"] = json!(badkey);
                        let upsk = cred.users[0].1.clone();
                        cdoc["servers"][0]["password"] = json!(format!("{}:{}", badkey, upsk));
                    }
                    _ => {
                        // wrong-length key in the user table / as the client's user key
                        sdoc["user"][1]["password"] = json!(badkey);
                        cdoc["servers"][0]["password"] = json!(format!("{}:{}", cred.password, badkey));
                    }
                }
                what = format!("{} key of {} bytes for {} (needs {}), place {}", if c.server { "server" } else { "client" }, len, cipher.name(), cipher.key_len(), place);
                out.label(format!("bad:key-length:{}", if (*len as usize) < cipher.key_len() { "short" } else { "long" }));
            }
        }
        out.nontrivial(format!("{:?}|{}|{}", c.bad, c.proto % 3, c.server));
        let doc: Value = if c.server { json!([sdoc]) } else { cdoc };
        let myport = if c.server { port } else { lp };
        let Ok(mut p) = RawProc::start(c.server, &doc, 2) else { return out };
        // refused = the process ends, or it stays without any socket on its port; both within the deadline
        let t0 = Instant::now();
        let max = Duration::from_millis(if rt::failed_already() { 2500 } else { 5000 });
        let mut quiet_since: Option<Instant> = None;
        let verdict = loop {
            if let Some(st) = p.proc.exited() {
                break Ok(format!("exited ({})", st));
            }
            let (tcp, udp) = p.sockets(myport);
            if !tcp && !udp {
                let q = *quiet_since.get_or_insert_with(Instant::now);
                if q.elapsed() > Duration::from_millis(1200) && t0.elapsed() > Duration::from_millis(1500) {
                    break Ok("running without any socket".to_string());
                }
            } else {
                quiet_since = None;
            }
            if t0.elapsed() > max {
                break Err((tcp, udp));
            }
            std::thread::sleep(Duration::from_millis(25));
        };
        if let Some(pn) = p.proc.panicked() {
            out.fail(format!("refusals/{}/panic-instead-of-error", if c.server { "server" } else { "client" }), format!("{}: {}", what, pn));
            return out;
        }
        match verdict {
            Err((tcp, udp)) => {
                out.fail(
                    format!("refusals/{}/bad-value-not-refused/{}", if c.server { "server" } else { "client" }, match &c.bad { Bad::Cipher(_) => "cipher", Bad::Protocol(_) => "protocol", Bad::Mode(_) => "mode", Bad::KeyLen { .. } => "key-length", Bad::QuicModeWithoutSection(_) => "quic-mode-without-section", Bad::MissingCertificate { .. } => "missing-certificate", Bad::NoCipher(_) => "no-cipher-field" }),
                    format!("{}: {:?} after start-up the process is still running and holds its port (tcp listener: {}, udp socket: {}) instead of having stopped with an error\n{}", what, max, tcp, udp, p.proc.log_tail(6)),
                );
            }
            Ok(how) => {
                out.label(format!("refused:{}", if how.starts_with("exited") { "exited" } else { "no-socket" }));
                // "with an error": something must have been said
                let log = p.proc.log();
                let said = log.contains("ERROR") || log.to_lowercase().contains("error") || log.contains("invalid") || log.contains("unknown") || log.contains("missing");
                if !said {
                    out.fail(format!("refusals/{}/refused-silently", if c.server { "server" } else { "client" }), format!("{}: the process {} without reporting any error\n{}", what, how, p.proc.log_tail(6)));
                }
            }
        }
        out
    }
    fn workers(&self) -> usize {
        (rt::threads() / 2).clamp(1, 8)
    }
    fn max_shrink_iters(&self) -> u32 {
        30
    }
    fn confirm_runs(&self) -> u32 {
        2
    }
}

pub fn subs() -> Vec<Box<dyn DynSub>> {
    vec![Box::new(Listeners), Box::new(Names), Box::new(Refusals)]
}

pub fn run(ctx: &mut PropCtx) {
    ctx.level = "exploration";
    ctx.rule = "listeners and names: every documented value is covered in every run (finite, exhaustive); refusals: a generated value is non-trivial when it differs from every documented name (near misses: case, '_' vs '-', truncation, one extra or changed character, related names; random strings) or is a key whose decoded length differs from the cipher's key size; distinct by (kind of value, value, protocol, client or server)".into();
    ctx.assumptions = vec![
        "mode applies to the Shadowsocks server and to the client (README); VMess and Trojan servers open QUIC exactly when a quic section is present".into(),
        "a refusal = the process ends or stays without any socket on its port within 5 s, and something containing 'error' / 'invalid' / 'unknown' was printed; exit status 0 after a logged error is accepted".into(),
        "VMess with a documented cipher name that the VMess column of the README does not list (aes-256-gcm, 2022-*) is not asserted either way".into(),
        "documented algorithm/key = what the independent reference implementation derives from the same configured name and password string".into(),
    ];
    rt::run_list(ctx, &Listeners, "listeners", all_mode_cases());
    ctx.mark_exhaustive("listeners", "every documented server mode (with one classic and one 2022 cipher), the absent mode, VMess/Trojan with and without a quic section, every client mode");
    let mut names = vec![];
    for (i, (n, v)) in documented_names().into_iter().enumerate() {
        for users in [0u8, 2] {
            names.push(NameCase { name: n.clone(), vmess: v, seed: ctx.seed * 131 + i as u64 + 1, users });
        }
    }
    rt::run_list(ctx, &Names, "names", names);
    ctx.mark_exhaustive("names", "every documented cipher name (7 + alias for Shadowsocks, 2 + alias for VMess): reference client served over TCP and UDP, real client decoded by the reference server");
    rt::run_sub(ctx, &Refusals, ctx.tier.pick(250, 3000));
}
