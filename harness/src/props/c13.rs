//! C13 – Local SOCKS5 and HTTP handshakes yield exactly the requested target.
use crate::ev::{Outcome, PropCtx, Tier};
use crate::local::{run_handshake, AppStep, HsOutcome};
use crate::real::from_address;
use crate::refimpl::http_uri::{extract, Target};
use crate::refimpl::{socks5, Addr};
use crate::rt::{self, catch, DynSub, SubCheck};
use octo_squirrel::protocol::address::Address;
use octo_squirrel_client::client::verif::{recognize_http, Proxy};
use proptest::prelude::*;
use proptest::strategy::BoxedStrategy;
use serde::{Deserialize, Serialize};

// ------------------------------------------------------------------------------------------ Level 1 (pure)

#[derive(Clone, Debug, Serialize, Deserialize)]
pub struct TargetCase {
    pub method: String,
    pub target: String,
}

fn host_strategy() -> BoxedStrategy<String> {
    prop_oneof![
        5 => proptest::string::string_regex("[a-z0-9]([a-z0-9.-]{0,24}[a-z0-9])?").unwrap(),
        2 => (any::<[u8; 4]>()).prop_map(|a| format!("{}.{}.{}.{}", a[0], a[1], a[2], a[3])),
        2 => proptest::string::string_regex("\\[[0-9a-f]{1,4}(:[0-9a-f]{0,4}){1,7}\\]").unwrap(),
        1 => Just("[::1]".to_string()),
        1 => Just(String::new()),
    ]
    .boxed()
}

fn port_strategy() -> BoxedStrategy<String> {
    prop_oneof![
        4 => Just(String::new()),
        5 => any::<u16>().prop_map(|p| format!(":{}", p)),
        1 => proptest::sample::select(vec![":0", ":80", ":443", ":65535", ":65536", ":99999", ":", ":8o", ":-1", ":080"]).prop_map(|s| s.to_string()),
    ]
    .boxed()
}

fn path_strategy() -> BoxedStrategy<String> {
    prop_oneof![
        3 => Just(String::new()),
        2 => Just("/".to_string()),
        5 => proptest::string::string_regex("/[a-zA-Z0-9._~!$&'()*+,;=:@/-]{0,20}").unwrap(),
        2 => proptest::string::string_regex("/[a-z]{0,5}(://|:|//|@)[a-z0-9:/.]{0,12}").unwrap(),
        1 => proptest::string::string_regex("/[a-z/]{0,8}/").unwrap(),
    ]
    .boxed()
}

fn query_strategy() -> BoxedStrategy<String> {
    prop_oneof![
        4 => Just(String::new()),
        4 => proptest::string::string_regex("\\?[a-z0-9=&]{0,12}").unwrap(),
        3 => proptest::string::string_regex("\\?[a-z0-9=&]{0,6}[?/:][a-z0-9=?/:]{0,10}").unwrap(),
        2 => proptest::string::string_regex("\\?u=http://[a-z.]{1,10}(:[0-9]{1,4})?/[a-z?]{0,6}").unwrap(),
    ]
    .boxed()
}

pub fn target_strategy() -> BoxedStrategy<TargetCase> {
    let method = prop_oneof![3 => Just("CONNECT".to_string()), 4 => proptest::sample::select(vec!["GET", "POST", "PUT", "HEAD", "OPTIONS", "DELETE"]).prop_map(|s| s.to_string()), 1 => proptest::string::string_regex("[A-Z]{1,8}").unwrap()];
    let scheme = prop_oneof![6 => Just("http://".to_string()), 2 => Just("https://".to_string()), 1 => Just("ftp://".to_string()), 1 => Just(String::new())];
    (method, scheme, host_strategy(), port_strategy(), path_strategy(), query_strategy())
        .prop_map(|(method, scheme, host, port, path, query)| {
            let target = if method == "CONNECT" {
                // authority-form (a CONNECT carrying a full URL is not generated: whether a lenient proxy may accept it is
                // not something the property decides)
                format!("{}{}", host, port)
            } else {
                format!("{}{}{}{}{}", scheme, host, port, path, query)
            };
            TargetCase { method, target }
        })
        .boxed()
}

pub struct HttpTarget;

fn proxy_desc(p: &Result<Proxy, anyhow::Error>) -> String {
    match p {
        Ok(Proxy::Http(a)) => format!("Http({})", a),
        Ok(Proxy::Https(a)) => format!("Https({})", a),
        Ok(Proxy::Socks5) => "Socks5".into(),
        Ok(Proxy::Unknown) => "Unknown".into(),
        Ok(Proxy::Error(e)) => format!("Error({})", e),
        Err(e) => format!("Err({})", e),
    }
}

impl SubCheck for HttpTarget {
    type Case = TargetCase;
    fn name(&self) -> &'static str {
        "http-target"
    }
    fn strategy(&self, _tier: Tier) -> BoxedStrategy<TargetCase> {
        target_strategy()
    }
    fn exec(&self, c: &TargetCase) -> Outcome {
        let mut out = Outcome::new();
        let want = extract(&c.method, &c.target);
        let got = match catch(|| recognize_http(&c.method, &c.target)) {
            Ok(g) => g,
            Err(p) => {
                out.fail("http-target/panic", format!("recognize_http({:?}, {:?}): {}", c.method, c.target, p));
                return out;
            }
        };
        let rest = c.target.splitn(2, "://").nth(1).unwrap_or(&c.target);
        let special = rest.matches(|ch| ch == ':' || ch == '/' || ch == '?').count();
        let has_port_colon = matches!(&want, Target::Connect(..)) || rest.split(|ch| ch == '/' || ch == '?').next().map(|a| a.rsplit(']').next().unwrap_or(a).contains(':')).unwrap_or(false);
        if special > has_port_colon as usize {
            let cls = format!("{}|{}|{}|{}", c.method == "CONNECT", rest.contains('?'), rest.contains("://"), matches!(want, Target::Invalid(_)));
            out.nontrivial(format!("{}|{}", cls, c.target.len().min(40)));
        }
        out.label(match &want {
            Target::Connect(..) => "ref:connect",
            Target::Absolute(..) => "ref:absolute",
            Target::Invalid(_) => "ref:invalid",
            Target::Unspecified => "ref:outside-grammar",
        });
        if want == Target::Unspecified {
            return out;
        }
        let got_addr = match &got {
            Ok(Proxy::Http(Address::Domain(h, p))) => Some((false, h.clone(), *p)),
            Ok(Proxy::Https(Address::Domain(h, p))) => Some((true, h.clone(), *p)),
            Ok(Proxy::Http(a)) | Ok(Proxy::Https(a)) => Some((false, a.to_string(), 0)),
            _ => None,
        };
        match (&want, &got_addr) {
            (Target::Connect(h, p), Some((true, gh, gp))) if gh == h && gp == p => {}
            (Target::Absolute(h, p), Some((false, gh, gp))) if gh == h && gp == p => {}
            (Target::Invalid(_), None) => {}
            (Target::Invalid(why), Some(_)) => {
                out.fail(
                    format!("http-target/malformed-target-yields-an-address/{}", why.replace(' ', "-")),
                    format!("{} {:?}: RFC 3986 reading: invalid ({}); implementation: {}", c.method, c.target, why, proxy_desc(&got)),
                );
            }
            (w, _) => {
                let kind = if got_addr.is_none() { "well-formed-target-refused" } else { "wrong-host-or-port" };
                out.fail(format!("http-target/{}", kind), format!("{} {:?}: RFC 3986 reading: {:?}; implementation: {}", c.method, c.target, w, proxy_desc(&got)));
            }
        }
        out
    }
}

// ------------------------------------------------------------------------------------------ Level 2 (socket)

#[derive(Clone, Debug, Serialize, Deserialize)]
pub enum Kind {
    Socks5(Addr),
    /// CONNECT host:port, with `extra` bytes of additional header lines
    Connect(String, u16, u16),
    /// METHOD absolute-URI, (method, host, port option, path+query, extra header bytes, body length)
    Http(String, String, Option<u16>, String, u16, u16),
    /// malformed / unsupported variants: 0 SOCKS4, 1 bad version, 2 BIND, 3 auth-only methods, 4 origin-form HTTP,
    /// 5 truncated CONNECT head then EOF, 6 truncated SOCKS5 request then EOF, 7 garbage
    Bad(u8),
}

#[derive(Clone, Debug, Serialize, Deserialize)]
pub struct HsCase {
    pub kind: Kind,
    /// cut positions inside the handshake messages (mapped monotonically), each followed by a pause
    pub cuts: Vec<u16>,
    pub pause_ms: u8,
    /// tunnel payload length; `early` = sent directly behind the final handshake byte, in the same write
    pub payload: u16,
    pub early: bool,
    pub seed: u64,
    /// the last `tail` bytes of the handshake head (the final CR LF CR LF region) are delivered one byte per segment
    #[serde(default)]
    pub tail: u8,
}

fn tail_cuts(cs: &mut Vec<usize>, hl: usize, tail: u8) {
    for j in 1..=(tail as usize) {
        if hl > j {
            cs.push(hl - j);
        }
    }
}

fn write_cut(steps: &mut Vec<AppStep>, msg: &[u8], cuts: &[u16], pause: u8) -> bool {
    let n = msg.len();
    let mut cs: Vec<usize> = cuts.iter().map(|p| 1 + rt::idx(*p, n.saturating_sub(1))).filter(|c| *c < n).collect();
    cs.sort();
    cs.dedup();
    let mut last = 0;
    for c in &cs {
        steps.push(AppStep::Write(msg[last..*c].to_vec()));
        steps.push(AppStep::PauseMs(pause.max(2) as u16));
        last = *c;
    }
    steps.push(AppStep::Write(msg[last..].to_vec()));
    !cs.is_empty()
}

fn extra_headers(n: u16, seed: u64) -> String {
    let mut s = String::new();
    let mut i = 0;
    while s.len() < n as usize {
        s.push_str(&format!("X-Pad-{}: {}\r\n", i, "abcdefghijklmnopqrstuvwxyz0123456789".repeat(1 + ((seed as usize + i) % 3))));
        i += 1;
    }
    s
}

pub fn hs_strategy() -> BoxedStrategy<HsCase> {
    let host = proptest::string::string_regex("[a-z0-9]([a-z0-9.-]{0,20}[a-z0-9])?").unwrap().boxed();
    let kind = prop_oneof![
        4 => crate::gen::addr_strategy().prop_map(Kind::Socks5),
        4 => (host.clone(), any::<u16>(), prop_oneof![3 => 0u16..200, 2 => 200u16..1100, 1 => 1100u16..5000]).prop_map(|(h, p, x)| Kind::Connect(h, p, x)),
        4 => (proptest::sample::select(vec!["GET", "POST", "PUT"]), host, proptest::option::of(any::<u16>()), proptest::string::string_regex("(/[a-z0-9/]{0,12})?(\\?[a-z0-9=&?/:]{0,12})?").unwrap(), prop_oneof![3 => 0u16..200, 2 => 200u16..1100, 1 => 1100u16..5000], 0u16..300)
            .prop_map(|(m, h, p, pq, x, b)| Kind::Http(m.to_string(), h, p, pq, x, b)),
        2 => prop_oneof![12 => proptest::sample::select(vec![0u8, 1, 2, 3, 4, 6, 7]), 1 => Just(5u8)].prop_map(Kind::Bad),
    ];
    (kind, proptest::collection::vec(any::<u16>(), 0..4), 2u8..6, prop_oneof![Just(0u16), 1u16..200, 200u16..3000], any::<bool>(), any::<u64>(), prop_oneof![3 => Just(0u8), 2 => 1u8..=6])
        .prop_map(|(kind, cuts, pause_ms, payload, early, seed, tail)| HsCase { kind, cuts, pause_ms, payload, early, seed, tail })
        .boxed()
}

pub struct Built {
    pub steps: Vec<AppStep>,
    /// what the tunnel must carry after the handshake
    pub forward: Vec<u8>,
    pub want: Option<Addr>,
    pub cut_inside: bool,
    pub desc: &'static str,
}

pub fn build_script(c: &HsCase) -> Built {
    let payload = crate::gen::keystream(c.seed, 0, c.payload as usize);
    let mut steps = vec![];
    let mut cut_inside = false;
    match &c.kind {
        Kind::Socks5(addr) => {
            let greeting = socks5::greeting(if c.seed % 3 == 0 { &[0, 2] } else { &[0] });
            cut_inside |= write_cut(&mut steps, &greeting, &c.cuts[..c.cuts.len().min(1)], c.pause_ms);
            steps.push(AppStep::ReadExact(2));
            let mut req = socks5::request(1, addr);
            let early = c.early && !payload.is_empty();
            let split = if early { req.len() } else { 0 };
            if early {
                req.extend_from_slice(&payload);
            }
            // cuts only inside the request proper
            let n = if early { split } else { req.len() };
            let mut cs: Vec<usize> = c.cuts.iter().skip(1).map(|p| 1 + rt::idx(*p, n.saturating_sub(1))).filter(|x| *x < n).collect();
            cs.sort();
            cs.dedup();
            let mut last = 0;
            for x in &cs {
                steps.push(AppStep::Write(req[last..*x].to_vec()));
                steps.push(AppStep::PauseMs(c.pause_ms.max(2) as u16));
                last = *x;
                cut_inside = true;
            }
            steps.push(AppStep::Write(req[last..].to_vec()));
            steps.push(AppStep::ReadSocksReply);
            if !early && !payload.is_empty() {
                steps.push(AppStep::Write(payload.clone()));
            }
            steps.push(AppStep::ShutdownWrite);
            Built { steps, forward: payload, want: Some(addr.clone()), cut_inside, desc: "socks5" }
        }
        Kind::Connect(host, port, extra) => {
            let mut head = format!("CONNECT {}:{} HTTP/1.1\r\nHost: {}:{}\r\n{}\r\n", host, port, host, port, extra_headers(*extra, c.seed)).into_bytes();
            let hl = head.len();
            let early = c.early && !payload.is_empty();
            if early {
                head.extend_from_slice(&payload);
            }
            let mut cs: Vec<usize> = c.cuts.iter().map(|p| 1 + rt::idx(*p, hl.saturating_sub(1))).filter(|x| *x < hl).collect();
            tail_cuts(&mut cs, hl, c.tail);
            cs.sort();
            cs.dedup();
            let mut last = 0;
            for x in &cs {
                steps.push(AppStep::Write(head[last..*x].to_vec()));
                steps.push(AppStep::PauseMs(c.pause_ms.max(2) as u16));
                last = *x;
                cut_inside = true;
            }
            steps.push(AppStep::Write(head[last..].to_vec()));
            steps.push(AppStep::ReadUntil(b"\r\n\r\n".to_vec()));
            if !early && !payload.is_empty() {
                steps.push(AppStep::Write(payload.clone()));
            }
            steps.push(AppStep::ShutdownWrite);
            Built { steps, forward: payload, want: Some(Addr::Name(host.as_bytes().to_vec(), *port)), cut_inside, desc: "connect" }
        }
        Kind::Http(method, host, port, pq, extra, body) => {
            let authority = match port {
                Some(p) => format!("{}:{}", host, p),
                None => host.clone(),
            };
            let b = crate::gen::keystream(c.seed ^ 9, 0, *body as usize);
            let mut req = format!("{} http://{}{} HTTP/1.1\r\nHost: {}\r\nContent-Length: {}\r\n{}\r\n", method, authority, pq, authority, b.len(), extra_headers(*extra, c.seed)).into_bytes();
            let hl = req.len();
            req.extend_from_slice(&b);
            let mut cs: Vec<usize> = c.cuts.iter().map(|p| 1 + rt::idx(*p, hl.saturating_sub(1))).filter(|x| *x < hl).collect();
            tail_cuts(&mut cs, hl, c.tail);
            cs.sort();
            cs.dedup();
            let mut last = 0;
            for x in &cs {
                steps.push(AppStep::Write(req[last..*x].to_vec()));
                steps.push(AppStep::PauseMs(c.pause_ms.max(2) as u16));
                last = *x;
                cut_inside = true;
            }
            steps.push(AppStep::Write(req[last..].to_vec()));
            steps.push(AppStep::PauseMs(5));
            steps.push(AppStep::ShutdownWrite);
            Built { steps, forward: req, want: Some(Addr::Name(host.as_bytes().to_vec(), port.unwrap_or(80))), cut_inside, desc: "http" }
        }
        Kind::Bad(k) => {
            let (msg, desc): (Vec<Vec<u8>>, &'static str) = match k % 8 {
                0 => (vec![vec![4, 1, 0, 80, 127, 0, 0, 1, 0]], "socks4"),
                1 => (vec![vec![6, 1, 0]], "bad-version"),
                2 => (vec![socks5::greeting(&[0]), socks5::request(2, &Addr::V4([127, 0, 0, 1], 80))], "socks5-bind"),
                3 => (vec![socks5::greeting(&[2])], "socks5-auth-only"),
                4 => (vec![b"GET /index.html HTTP/1.1\r\nHost: example.com\r\n\r\n".to_vec()], "http-origin-form"),
                5 => (vec![b"CONNECT example.com:44".to_vec()], "connect-truncated"),
                6 => (vec![socks5::greeting(&[0]), vec![5, 1, 0, 3, 11, b'e', b'x']], "socks5-truncated"),
                _ => (vec![crate::gen::keystream(c.seed, 7, 1 + (c.seed % 60) as usize).into_iter().map(|b| if b == 5 { 7 } else { b }).collect()], "garbage"),
            };
            let two_phase = matches!(k % 8, 2 | 6);
            for (i, m) in msg.iter().enumerate() {
                steps.push(AppStep::Write(m.clone()));
                if two_phase && i == 0 {
                    steps.push(AppStep::ReadExact(2));
                }
            }
            steps.push(AppStep::PauseMs(5));
            steps.push(AppStep::ShutdownWrite);
            Built { steps, forward: vec![], want: None, cut_inside: false, desc }
        }
    }
}

fn check_replies(b: &Built, o: &HsOutcome) -> Result<(), (String, String)> {
    match b.desc {
        "socks5" => {
            if o.replies.first().map(|r| socks5::parse_method_reply(r)) != Some(Some(0)) {
                return Err(("socks5-method-reply-is-not-no-authentication".into(), format!("{:?}", o.replies.first())));
            }
            match o.replies.get(1).and_then(|r| socks5::parse_reply(r).map(|x| (x, r.len()))) {
                Some(((0, _bound, used), len)) if used == len => {}
                other => return Err(("socks5-command-reply-malformed-or-not-success".into(), format!("{:?} from {:?}", other, o.replies.get(1)))),
            }
            if o.replies.get(2).map(|r| !r.is_empty()).unwrap_or(false) {
                return Err(("unexpected-bytes-after-the-handshake-reply".into(), format!("{:?}", o.replies.get(2))));
            }
        }
        "connect" => {
            let r = o.replies.first().cloned().unwrap_or_default();
            let s = String::from_utf8_lossy(&r).to_string();
            let line_ok = s.starts_with("HTTP/1.1 2") || s.starts_with("HTTP/1.0 2");
            let status_line_end = s.find("\r\n").unwrap_or(0);
            let header_block_empty = s.len() == status_line_end + 4;
            if !line_ok || !header_block_empty {
                return Err(("connect-reply-is-not-a-bare-2xx".into(), format!("{:?}", s)));
            }
            if o.replies.get(1).map(|r| !r.is_empty()).unwrap_or(false) {
                return Err(("unexpected-bytes-after-the-handshake-reply".into(), format!("{:?}", o.replies.get(1))));
            }
        }
        "http" => {
            if o.replies.iter().any(|r| !r.is_empty()) {
                return Err(("plain-http-request-answered-by-the-proxy".into(), format!("{:?}", o.replies)));
            }
        }
        _ => {}
    }
    Ok(())
}

pub fn exec_hs(sub: &str, c: &HsCase) -> Outcome {
    let mut out = Outcome::new();
    let b = build_script(c);
    out.label(format!("kind:{}", b.desc));
    let early = c.early && c.payload > 0 && matches!(c.kind, Kind::Socks5(_) | Kind::Connect(..));
    if b.cut_inside {
        out.label("cut-inside-handshake-message");
    }
    if early {
        out.label("early-payload");
    }
    if b.cut_inside || early {
        let big = match &c.kind {
            Kind::Connect(_, _, x) | Kind::Http(_, _, _, _, x, _) => *x > 900,
            _ => false,
        };
        out.nontrivial(format!("{}|{}|{}|{}|{}", b.desc, b.cut_inside, early, big, c.cuts.len()));
    }
    let mut o = run_handshake(b.steps.clone());
    let mut confirm = |o: &mut HsOutcome| {
        // deadline-based observations must reproduce in isolation before they are reported
        if o.stalled || o.app_read_timeout || o.result.is_none() {
            let again = run_handshake(b.steps.clone());
            if !(again.stalled || again.app_read_timeout || again.result.is_none()) {
                *o = again;
            }
        }
    };
    confirm(&mut o);
    if std::env::var("VERIF_DEBUG").is_ok() && o.elapsed_ms > 800 {
        eprintln!("[debug] slow handshake case {} ms: {:?} stalled={} app_to={} result={:?}", o.elapsed_ms, c.kind, o.stalled, o.app_read_timeout, o.result.as_ref().map(|r| r.is_ok()));
    }
    if let Some(p) = &o.panic {
        out.fail(format!("{}/{}/panic", sub, b.desc), p.clone());
        return out;
    }
    match (&b.want, &o.result) {
        (Some(want), Some(Ok(addr))) => {
            let got = from_address(addr);
            if got != *want {
                out.fail(format!("{}/{}/wrong-target", sub, b.desc), format!("requested {:?}, handshake returned {:?}", want, got));
                return out;
            }
            if let Err((k, m)) = check_replies(&b, &o) {
                out.fail(format!("{}/{}/{}", sub, b.desc, k), m);
                return out;
            }
            if o.leftover != b.forward {
                let what = if o.leftover.len() < b.forward.len() && b.forward.ends_with(&o.leftover) {
                    "handshake-consumed-tunnel-bytes"
                } else if o.leftover.len() > b.forward.len() && o.leftover.ends_with(&b.forward) {
                    "handshake-bytes-leak-into-the-tunnel"
                } else {
                    "forwarded-bytes-differ"
                };
                out.fail(
                    format!("{}/{}/{}", sub, b.desc, what),
                    format!("after the handshake {} bytes are readable for the tunnel, expected {} (early payload: {}, cut inside: {})", o.leftover.len(), b.forward.len(), early, b.cut_inside),
                );
            }
        }
        (Some(want), Some(Err(e))) => {
            out.fail(format!("{}/{}/well-formed-request-refused", sub, b.desc), format!("requested {:?} (cut inside a message: {}, early payload: {}): {}", want, b.cut_inside, early, e));
        }
        (Some(want), None) => {
            out.fail(format!("{}/{}/{}", sub, b.desc, if o.stalled { "handshake-stalls" } else { "handshake-does-not-complete" }), format!("requested {:?}; cut inside: {}; app read timeout: {}", want, b.cut_inside, o.app_read_timeout));
        }
        (None, Some(Ok(addr))) => {
            out.fail(format!("{}/{}/malformed-or-unsupported-request-accepted", sub, b.desc), format!("handshake returned target {}", addr));
        }
        (None, _) => {
            // refused (error, timeout of an incomplete message, or connection closed): fine. Nothing but a protocol-level
            // refusal may have been sent back.
        }
    }
    out
}

pub struct LocalHandshake;

impl SubCheck for LocalHandshake {
    type Case = HsCase;
    fn name(&self) -> &'static str {
        "local-handshake"
    }
    fn strategy(&self, _tier: Tier) -> BoxedStrategy<HsCase> {
        hs_strategy()
    }
    fn max_shrink_iters(&self) -> u32 {
        60
    }
    fn exec(&self, c: &HsCase) -> Outcome {
        exec_hs("local-handshake", c)
    }
}

pub fn subs() -> Vec<Box<dyn DynSub>> {
    vec![Box::new(HttpTarget), Box::new(LocalHandshake)]
}

pub fn run(ctx: &mut PropCtx) {
    ctx.rule = "Level 1: request targets from an RFC 3986 / RFC 9112 grammar (CONNECT authority-form; absolute-form with reg-name, IPv4 or \
                bracketed IPv6 hosts, optional/invalid ports, paths and queries containing ':', '/', '?', '@', '://') are given to the real \
                authority extraction and to an independent extractor; host, port (default 80), CONNECT-vs-plain and refusal of malformed \
                targets must agree. Level 2: the real get_request_addr runs on the accepted end of a real loopback connection while a \
                scripted application sends SOCKS5 greeting/request, CONNECT heads or absolute-URI requests (heads up to ~5 KiB) cut into \
                generated segments with pauses, optionally with tunnel payload directly behind the last handshake byte; oracle: returned \
                target == requested, replies parse as the protocol requires (method 'no authentication', success reply with well-formed \
                bound address, bare 2xx), bytes readable afterwards == exactly the tunnel payload (SOCKS5/CONNECT) or the whole request \
                (plain HTTP); SOCKS4, bad version, BIND, auth-only method lists, origin-form, truncated heads and garbage are refused. \
                Non-trivial: Level 1 = target contains ':', '/', '?' or '://' beyond scheme separator and port colon; Level 2 = a cut \
                inside a handshake message or early payload. Deadline-based observations are re-run once in isolation before being reported."
        .into();
    ctx.assumptions = vec![
        "the scripted SOCKS5 application follows RFC 1928's order (waits for the method reply before sending the request)".into(),
        "loopback writes separated by >= 2 ms pauses with TCP_NODELAY arrive as separate reads (best effort; the oracle does not depend on it)".into(),
        "SOCKS5 UDP ASSOCIATE over the TCP port is not exercised: the property does not say whether it is 'unsupported'".into(),
    ];
    let t = ctx.tier;
    rt::run_sub(ctx, &HttpTarget, t.pick(200_000, 6_000_000));
    rt::run_sub(ctx, &LocalHandshake, t.pick(12_000, 300_000));
}
