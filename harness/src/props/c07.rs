//! C07 – No input from the network can crash a task or the process.
use crate::drive::{cut, feed, Fed};
use crate::ev::{Outcome, PropCtx, Tier};
use crate::gen::{self, CredGen, Det, T0};
use crate::props::c03::family;
use crate::real::{self, address_is_valid_utf8, to_address, ClientCtx, Cred, InboundIn, Proto, ServerCtx};
use crate::refimpl::ss2022::{self, C22};
use crate::refimpl::{aes_ecb_encrypt_block, le_nonce, ss, trojan, vmess, Addr, AeadAlg};
use crate::refside::{self, ReqOpts, RespOpts};
use crate::rt::{self, catch, DynSub, SubCheck};
use bytes::BytesMut;
use octo_squirrel::protocol::socks5::codec as s5;
use proptest::prelude::*;
use proptest::strategy::BoxedStrategy;
use serde::{Deserialize, Serialize};
use tokio_util::codec::{Decoder, Encoder};

#[derive(Clone, Copy, Debug, PartialEq, Eq, Serialize, Deserialize)]
pub enum Tgt {
    ServerTcp,
    ClientTcp,
    ServerUdpSs,
    ClientUdpSs,
    ClientVmessUdp,
    ClientTrojanUdp,
    Socks5Init,
    Socks5Cmd,
    Socks5InitResp,
    Socks5CmdResp,
    Socks5Udp,
}

#[derive(Clone, Debug, Serialize, Deserialize)]
pub enum Shape {
    Raw(Vec<u8>),
    /// a valid reference-built stream for this decoder, cut to a prefix, followed by arbitrary bytes
    ValidThenRaw(Vec<u32>, u16, Vec<u8>),
    /// a valid stream with byte edits (position, xor value)
    Mutated(Vec<u32>, Vec<(u16, u8)>),
    /// a valid stream in which well-formed multi-byte UTF-8 sequences overwrite bytes (position, which sequence; every
    /// other position falls into the first 80 bytes, where the text-like fields are): text that is valid UTF-8 but not
    /// ASCII reaches code that slices strings by byte offsets
    Utf8Spliced(Vec<u32>, Vec<(u16, u8)>),
}

const UTF8_SEQS: [&str; 10] = ["\u{e9}", "\u{df}", "\u{7ff}", "\u{800}", "\u{20ac}", "\u{ffff}", "\u{10000}", "\u{1d11e}", "\u{10ffff}", "\u{e9}\u{20ac}"];

#[derive(Clone, Debug, Serialize, Deserialize)]
pub struct FuzzCase {
    pub cred: Cred,
    pub tgt: Tgt,
    pub shape: Shape,
    pub cuts: Vec<u16>,
    pub eof: bool,
    pub seed: u64,
}

fn raw_bytes() -> BoxedStrategy<Vec<u8>> {
    prop_oneof![
        3 => proptest::collection::vec(any::<u8>(), 0..80),
        2 => proptest::collection::vec(any::<u8>(), 80..400),
        1 => proptest::collection::vec(any::<u8>(), 400..5000),
        // structured-looking: low values, address type bytes, CRLFs, hex
        2 => proptest::collection::vec(prop_oneof![0u8..8, Just(0u8), Just(255u8), Just(b'\r'), Just(b'\n'), Just(b'a'), Just(b'0'), any::<u8>()], 0..200),
        1 => proptest::string::string_regex("[0-9a-f]{56}\r\n[\\x00-\\x05][\\x00-\\x05][\\x00-\\xff]{0,40}").unwrap().prop_map(|s| s.chars().map(|c| c as u32 as u8).collect()),
    ]
    .boxed()
}

fn shape_strategy() -> BoxedStrategy<Shape> {
    let frames = proptest::collection::vec(prop_oneof![1u32..60, 60u32..1200], 1..4);
    prop_oneof![
        3 => raw_bytes().prop_map(Shape::Raw),
        3 => (frames.clone(), any::<u16>(), raw_bytes()).prop_map(|(f, k, t)| Shape::ValidThenRaw(f, k, t)),
        3 => (frames.clone(), proptest::collection::vec((any::<u16>(), 1u8..=255), 1..6)).prop_map(|(f, e)| Shape::Mutated(f, e)),
        2 => (frames, proptest::collection::vec((any::<u16>(), any::<u8>()), 1..5)).prop_map(|(f, e)| Shape::Utf8Spliced(f, e)),
    ]
    .boxed()
}

pub fn fuzz_strategy() -> BoxedStrategy<FuzzCase> {
    let tgt = prop_oneof![
        6 => Just(Tgt::ServerTcp),
        5 => Just(Tgt::ClientTcp),
        3 => Just(Tgt::ServerUdpSs),
        3 => Just(Tgt::ClientUdpSs),
        2 => Just(Tgt::ClientVmessUdp),
        2 => Just(Tgt::ClientTrojanUdp),
        1 => Just(Tgt::Socks5Init),
        1 => Just(Tgt::Socks5Cmd),
        1 => Just(Tgt::Socks5InitResp),
        1 => Just(Tgt::Socks5CmdResp),
        2 => Just(Tgt::Socks5Udp),
    ];
    (gen::cred_strategy(), tgt, shape_strategy(), proptest::collection::vec(any::<u16>(), 0..4), any::<bool>(), any::<u64>())
        .prop_map(|(CredGen { cred, .. }, tgt, shape, cuts, eof, seed)| {
            // give protocol-specific targets a compatible credential (constructed, not filtered)
            let cred = match tgt {
                Tgt::ServerUdpSs | Tgt::ClientUdpSs if !matches!(cred.proto, Proto::SsLegacy(_) | Proto::Ss22(_)) => {
                    let all: Vec<Proto> = Proto::all().into_iter().filter(|p| matches!(p, Proto::SsLegacy(_) | Proto::Ss22(_))).collect();
                    gen::make_cred(all[(seed % all.len() as u64) as usize], "pw", seed, (seed % 3) as usize, 0)
                }
                Tgt::ClientVmessUdp => gen::make_cred(Proto::Vmess(if seed % 2 == 0 { 3 } else { 4 }), "", seed, 1, 0),
                Tgt::ClientTrojanUdp => gen::make_cred(Proto::Trojan, "pw", seed, 0, 0),
                _ => cred,
            };
            FuzzCase { cred, tgt, shape, cuts, eof, seed }
        })
        .boxed()
}

/// A valid byte stream / datagram for the target's decoder, built by the reference (None if not applicable).
fn valid_input(c: &FuzzCase, frames: &[u32], client: &mut Option<real::ClientTcp>) -> Option<Vec<u8>> {
    let mut d = Det::new(c.seed, "c07");
    let addr = Addr::Name(b"example.org".to_vec(), 443);
    let chunks = gen::writes_from_lens(c.seed, frames);
    match c.tgt {
        Tgt::ServerTcp => {
            let mut o = ReqOpts::new(T0);
            o.udp_cmd = c.seed % 4 == 0 && matches!(c.cred.proto, Proto::Vmess(_));
            if c.seed % 4 == 0 && matches!(c.cred.proto, Proto::Trojan) {
                let keys = refside::ref_keys(&c.cred).ok()?;
                let mut w = trojan::encode_request(&keys.trojan_client_pw, trojan::CMD_UDP, &addr, &[]);
                for p in &chunks {
                    w.extend(trojan::encode_udp_unit(&addr, p));
                }
                return Some(w);
            }
            refside::ref_client_request(&c.cred, &addr, &chunks, &o, &mut d).ok().map(|f| f.wire)
        }
        Tgt::ClientTcp => {
            let address = to_address(&addr)?;
            let cctx = ClientCtx::new(&c.cred).ok()?;
            let mut cc = cctx.codec(&address).ok()?;
            let mut first = BytesMut::new();
            if !matches!(catch(|| cc.encode(BytesMut::from(&b"x"[..]), &mut first)), Ok(Ok(()))) {
                return None;
            }
            let req = refside::ref_server_decode(&c.cred, &first, T0).ok()?;
            let f = refside::ref_server_response(&c.cred, &req.session, &chunks, &RespOpts::new(T0), &mut d).ok()?;
            *client = Some(cc);
            Some(f.wire)
        }
        Tgt::ServerUdpSs | Tgt::ClientUdpSs => {
            let keys = refside::ref_keys(&c.cred).ok()?;
            let payload = chunks.concat();
            match c.cred.proto {
                Proto::SsLegacy(l) => Some(ss::encode_datagram(l, &keys.legacy_key, &d.bytes(l.key_len()), &addr, &payload)),
                Proto::Ss22(cc) => {
                    if c.tgt == Tgt::ServerUdpSs {
                        let ipsks = if cc.is_aes() { keys.client_ipsks.clone() } else { vec![] };
                        Some(ss2022::encode_udp_client(cc, &keys.client_upsk, &ipsks, &ss2022::UdpClientPacket { sid: d.u64(), pid: 1, typ: 0, ts: T0, padding: d.bytes(3), addr, payload, xnonce: d.bytes(24) }))
                    } else {
                        Some(ss2022::encode_udp_server(cc, &keys.client_upsk, &ss2022::UdpServerPacket { ssid: d.u64(), pid: 1, typ: 1, ts: T0, client_sid: d.u64(), padding: d.bytes(3), addr, payload, xnonce: d.bytes(24) }))
                    }
                }
                _ => None,
            }
        }
        Tgt::ClientTrojanUdp => {
            let mut w = vec![];
            for p in &chunks {
                w.extend(trojan::encode_udp_unit(&addr, p));
            }
            Some(w)
        }
        Tgt::ClientVmessUdp => None, // built in run_target (needs the codec's session)
        Tgt::Socks5Init => Some(vec![5, 1, 0]),
        Tgt::Socks5Cmd => Some(crate::refimpl::socks5::request(1, &addr)),
        Tgt::Socks5InitResp => Some(vec![5, 0]),
        Tgt::Socks5CmdResp => {
            let mut v = vec![5, 0, 0];
            v.extend(addr.socks());
            Some(v)
        }
        Tgt::Socks5Udp => Some(crate::refimpl::socks5::udp_datagram(0, &addr, &chunks.concat())),
    }
}

pub struct RunInfo {
    /// the server decoder produced an item on which the server would dial / relay (ConnectTcp, RelayUdp, a UDP datagram)
    pub dial: bool,
    pub items: usize,
    pub err: bool,
    pub invalid_utf8: bool,
    pub progressed: bool,
}

fn info_of<T>(fed: &Fed<T>, total: usize, utf8_bad: bool) -> RunInfo {
    RunInfo { dial: false, items: fed.items.len(), err: fed.err.is_some(), invalid_utf8: utf8_bad, progressed: fed.items.len() > 0 || fed.leftover < total || fed.calls > 1 }
}

fn feed_eof<D: Decoder>(dec: &mut D, segs: &[Vec<u8>], eof: bool) -> Fed<D::Item>
where
    D::Error: std::fmt::Display,
{
    let mut fed = feed(dec, segs);
    if eof && fed.clean() {
        // FramedRead calls decode_eof (default: decode once more) on end of stream
        let rest: Vec<u8> = {
            let total: Vec<u8> = segs.concat();
            total[total.len() - fed.leftover..].to_vec()
        };
        let mut buf = BytesMut::from(&rest[..]);
        match catch(|| dec.decode_eof(&mut buf)) {
            Err(p) => fed.panic = Some(p),
            Ok(Err(e)) => fed.err = Some(e.to_string()),
            Ok(Ok(Some(it))) => fed.items.push(it),
            Ok(Ok(None)) => {}
        }
    }
    fed
}

/// Runs one target on the given segments. Err(panic message) on panic.
pub fn run_target(c: &FuzzCase, client: Option<real::ClientTcp>, segs: &[Vec<u8>]) -> Result<RunInfo, String> {
    let total: usize = segs.iter().map(|s| s.len()).sum();
    fn done<T>(fed: Fed<T>, total: usize, bad: bool) -> Result<RunInfo, String> {
        match &fed.panic {
            Some(p) => Err(p.clone()),
            None => Ok(info_of(&fed, total, bad)),
        }
    }
    match c.tgt {
        Tgt::ServerTcp => {
            let sctx = ServerCtx::new(&c.cred).map_err(|e| format!("harness: {}", e))?;
            let mut codec = sctx.codec().map_err(|e| format!("harness: {}", e))?;
            let fed = feed_eof(&mut codec, segs, c.eof);
            let bad = fed.items.iter().any(|i| match i {
                InboundIn::ConnectTcp(_, a) | InboundIn::RelayUdp(_, a) => !address_is_valid_utf8(a),
                _ => false,
            });
            let dial = fed.items.iter().any(|i| matches!(i, InboundIn::ConnectTcp(..) | InboundIn::RelayUdp(..)));
            done(fed, total, bad).map(|mut i| {
                i.dial = dial;
                i
            })
        }
        Tgt::ClientTcp => {
            let mut codec = match client {
                Some(c) => c,
                None => {
                    let address = to_address(&Addr::Name(b"example.org".to_vec(), 443)).unwrap();
                    let cctx = ClientCtx::new(&c.cred).map_err(|e| format!("harness: {}", e))?;
                    let mut cc = cctx.codec(&address).map_err(|e| format!("harness: {}", e))?;
                    let mut first = BytesMut::new();
                    let _ = catch(|| cc.encode(BytesMut::from(&b"x"[..]), &mut first));
                    cc
                }
            };
            done(feed_eof(&mut codec, segs, c.eof), total, false)
        }
        Tgt::ServerUdpSs => {
            let sudp = real::server_udp(&c.cred).map_err(|e| format!("harness: {}", e))?;
            let mut items = 0;
            let mut bad = false;
            let mut err = false;
            for s in segs {
                let mut src = BytesMut::from(&s[..]);
                match catch(|| sudp.decode(&mut src)) {
                    Err(p) => return Err(p),
                    Ok(Ok(Some((_, a, _)))) => {
                        items += 1;
                        bad |= !address_is_valid_utf8(&a);
                    }
                    Ok(Err(_)) => err = true,
                    Ok(Ok(None)) => {}
                }
            }
            Ok(RunInfo { dial: items > 0, items, err, invalid_utf8: bad, progressed: items > 0 || total >= 60 })
        }
        Tgt::ClientUdpSs => {
            let cctx = real::ClientUdpCtx::new(&c.cred).map_err(|e| format!("harness: {}", e))?;
            let mut cc = cctx.codec();
            let mut items = 0;
            let mut bad = false;
            let mut err = false;
            for s in segs {
                let mut src = BytesMut::from(&s[..]);
                match catch(|| cc.decode(&mut src)) {
                    Err(p) => return Err(p),
                    Ok(Ok(Some((_, a)))) => {
                        items += 1;
                        bad |= !address_is_valid_utf8(&a);
                    }
                    Ok(Err(_)) => err = true,
                    Ok(Ok(None)) => {}
                }
            }
            Ok(RunInfo { dial: false, items, err, invalid_utf8: bad, progressed: items > 0 || total >= 60 })
        }
        Tgt::ClientVmessUdp => {
            let address = to_address(&Addr::Name(b"example.org".to_vec(), 53)).unwrap();
            let mut codec = real::vmess_udp_client(&c.cred, &address).map_err(|e| format!("harness: {}", e))?;
            let mut first = BytesMut::new();
            let _ = catch(|| codec.encode(BytesMut::from(&b"x"[..]), &mut first));
            // a valid response for this session, if the shape asks for one, was spliced by the caller through `segs`
            done(feed_eof(&mut codec, segs, c.eof), total, false)
        }
        Tgt::ClientTrojanUdp => {
            let address = to_address(&Addr::Name(b"example.org".to_vec(), 53)).unwrap();
            let mut codec = real::trojan_udp_client(&c.cred, &address);
            let fed = feed_eof(&mut codec, segs, c.eof);
            let bad = fed.items.iter().any(|(_, a)| !address_is_valid_utf8(a));
            done(fed, total, bad)
        }
        Tgt::Socks5Init => done(feed_eof(&mut s5::Socks5InitialRequestDecoder, segs, c.eof), total, false),
        Tgt::Socks5Cmd => {
            let fed = feed_eof(&mut s5::Socks5CommandRequestDecoder, segs, c.eof);
            let bad = fed.items.iter().any(|r| !address_is_valid_utf8(&r.dst_addr));
            done(fed, total, bad)
        }
        Tgt::Socks5InitResp => done(feed_eof(&mut s5::Socks5InitialResponseDecoder, segs, c.eof), total, false),
        Tgt::Socks5CmdResp => {
            let fed = feed_eof(&mut s5::Socks5CommandResponseDecoder, segs, c.eof);
            let bad = fed.items.iter().any(|r| !address_is_valid_utf8(&r.bnd_addr));
            done(fed, total, bad)
        }
        Tgt::Socks5Udp => {
            // UdpFramed: one decode per datagram on a fresh buffer
            let mut items = 0;
            let mut bad = false;
            let mut err = false;
            for s in segs {
                let mut src = BytesMut::from(&s[..]);
                match catch(|| s5::Socks5UdpCodec.decode(&mut src)) {
                    Err(p) => return Err(p),
                    Ok(Ok(Some((_, a)))) => {
                        items += 1;
                        bad |= !address_is_valid_utf8(&a);
                    }
                    Ok(Err(_)) => err = true,
                    Ok(Ok(None)) => {}
                }
            }
            Ok(RunInfo { dial: false, items, err, invalid_utf8: bad, progressed: items > 0 || total >= 5 })
        }
    }
}

/// Where a panic came from, without line numbers (stable under refactoring).
pub fn panic_class(p: &str) -> String {
    let loc = p.rsplit(" at ").next().unwrap_or("");
    let file = loc.split(':').next().unwrap_or("");
    let comp = if let Some(i) = file.find("/repo/") {
        file[i + 6..].to_string()
    } else if let Some(i) = file.find("registry/src/") {
        let rest = &file[i + 13..];
        let krate = rest.split('/').nth(1).unwrap_or("dep");
        format!("dep:{}", krate.rsplitn(2, '-').last().unwrap_or(krate))
    } else {
        "other".to_string()
    };
    let kind = if p.contains("out of range") || p.contains("out of bounds") || p.contains("advance") || p.contains("split_to") || p.contains("remaining") {
        "bounds"
    } else if p.contains("overflow") || p.contains("underflow") || p.contains("subtract") {
        "arithmetic"
    } else if p.contains("unwrap") || p.contains("None") {
        "unwrap"
    } else {
        "other"
    };
    format!("{}:{}", comp, kind)
}

pub fn exec_fuzz(sub: &str, c: &FuzzCase) -> Outcome {
    let mut out = Outcome::new();
    real::set_clock(Some(T0));
    let fam = family(c.cred.proto);
    out.label(format!("tgt:{:?}", c.tgt));
    let mut client = None;
    let input: Vec<u8> = match &c.shape {
        Shape::Raw(b) => b.clone(),
        Shape::ValidThenRaw(frames, keep, tail) => {
            let mut v = valid_input(c, frames, &mut client).unwrap_or_default();
            let k = if *keep == 65535 { v.len() } else { rt::idx(*keep, v.len() + 1) };
            v.truncate(k);
            v.extend_from_slice(tail);
            v
        }
        Shape::Mutated(frames, edits) => {
            let mut v = valid_input(c, frames, &mut client).unwrap_or_default();
            for (p, x) in edits {
                if !v.is_empty() {
                    let i = rt::idx(*p, v.len());
                    v[i] ^= x;
                }
            }
            v
        }
        Shape::Utf8Spliced(frames, edits) => {
            let mut v = valid_input(c, frames, &mut client).unwrap_or_default();
            for (k, (p, w)) in edits.iter().enumerate() {
                let seq = UTF8_SEQS[*w as usize % UTF8_SEQS.len()].as_bytes();
                if v.len() > seq.len() {
                    let span = if k % 2 == 0 { (v.len() - seq.len()).min(80) } else { v.len() - seq.len() };
                    let i = rt::idx(*p, span + 1);
                    v[i..i + seq.len()].copy_from_slice(seq);
                }
            }
            v
        }
    };
    out.label(match &c.shape {
        Shape::Raw(_) => "shape:raw",
        Shape::ValidThenRaw(..) => "shape:valid-prefix-then-raw",
        Shape::Mutated(..) => "shape:mutated-valid",
        Shape::Utf8Spliced(..) => "shape:valid-with-utf8-sequences",
    });
    let n = input.len();
    let cuts: Vec<usize> = c.cuts.iter().map(|p| 1 + rt::idx(*p, n.saturating_sub(1))).collect();
    let datagram_tgt = matches!(c.tgt, Tgt::ServerUdpSs | Tgt::ClientUdpSs | Tgt::Socks5Udp);
    let segs = if datagram_tgt { vec![input.clone()] } else { cut(&input, &cuts) };
    match run_target(c, client, &segs) {
        Err(p) if p.starts_with("harness:") => {
            out.label("target-not-constructible");
        }
        Err(p) => {
            out.fail(format!("{}/{:?}/{}/panic/{}", sub, c.tgt, if datagram_tgt || matches!(c.tgt, Tgt::ServerTcp | Tgt::ClientTcp) { fam } else { "-" }, panic_class(&p)), format!("{} byte input in {} segment(s), eof={}: {}", n, segs.len(), c.eof, p));
        }
        Ok(info) => {
            if info.invalid_utf8 {
                out.fail(format!("{}/{:?}/{}/invalid-utf8-string-from-network-bytes", sub, c.tgt, fam), "a decoded Address::Domain holds bytes that are not valid UTF-8 (String built with from_utf8_unchecked)");
            }
            if info.progressed {
                out.nontrivial(format!("{:?}|{}|{}|{}|{}|{}", c.tgt, c.cred.proto.short(), info.items.min(3), info.err, segs.len().min(4), match &c.shape { Shape::Raw(_) => 0, Shape::ValidThenRaw(..) => 1, Shape::Mutated(..) => 2, Shape::Utf8Spliced(..) => 3 }));
            }
        }
    }
    out
}

pub struct RawBytes;

impl SubCheck for RawBytes {
    type Case = FuzzCase;
    fn name(&self) -> &'static str {
        "raw-bytes"
    }
    fn strategy(&self, _tier: Tier) -> BoxedStrategy<FuzzCase> {
        fuzz_strategy()
    }
    fn exec(&self, c: &FuzzCase) -> Outcome {
        exec_fuzz("raw-bytes", c)
    }
}

/// Exhaustive tiny inputs (all inputs of length <= 2) and all prefixes of one valid message, per decoder.
pub struct SmallInputs;

impl SubCheck for SmallInputs {
    type Case = FuzzCase;
    fn name(&self) -> &'static str {
        "small-inputs"
    }
    fn strategy(&self, _tier: Tier) -> BoxedStrategy<FuzzCase> {
        fuzz_strategy()
    }
    fn exec(&self, c: &FuzzCase) -> Outcome {
        exec_fuzz("small-inputs", c)
    }
}

fn small_cases(seed: u64) -> Vec<FuzzCase> {
    let mut v = vec![];
    let tgts = [Tgt::ServerTcp, Tgt::ClientTcp, Tgt::ServerUdpSs, Tgt::ClientUdpSs, Tgt::ClientVmessUdp, Tgt::ClientTrojanUdp, Tgt::Socks5Init, Tgt::Socks5Cmd, Tgt::Socks5InitResp, Tgt::Socks5CmdResp, Tgt::Socks5Udp];
    for tgt in tgts {
        let protos: Vec<Proto> = match tgt {
            Tgt::ServerTcp | Tgt::ClientTcp => Proto::all(),
            Tgt::ServerUdpSs | Tgt::ClientUdpSs => Proto::all().into_iter().filter(|p| matches!(p, Proto::SsLegacy(_) | Proto::Ss22(_))).collect(),
            Tgt::ClientVmessUdp => vec![Proto::Vmess(3)],
            _ => vec![Proto::Trojan],
        };
        for proto in protos {
            for users in [0usize, 2] {
                if users > 0 && !matches!(proto, Proto::Ss22(c) if c.is_aes()) {
                    continue;
                }
                let cred = gen::make_cred(proto, "pw", seed, users, 0);
                let base = FuzzCase { cred, tgt, shape: Shape::Raw(vec![]), cuts: vec![], eof: false, seed };
                // all inputs of length 0..=1 and a grid of length-2 inputs, with and without EOF
                let mut small: Vec<Vec<u8>> = vec![vec![]];
                for a in 0..=255u8 {
                    small.push(vec![a]);
                }
                for a in [0u8, 1, 2, 3, 4, 5, 6, 0x80, 0xff] {
                    for b in 0..=255u8 {
                        small.push(vec![a, b]);
                    }
                }
                for s in small {
                    for eof in [false, true] {
                        let mut c = base.clone();
                        c.shape = Shape::Raw(s.clone());
                        c.eof = eof;
                        v.push(c);
                    }
                }
                // every prefix of one valid message, quiet and EOF
                let mut tmp = None;
                if let Some(valid) = valid_input(&base, &[20, 30], &mut tmp) {
                    for k in 0..=valid.len().min(400) {
                        for eof in [false, true] {
                            let mut c = base.clone();
                            c.shape = Shape::ValidThenRaw(vec![20, 30], ((k * 65536) / (valid.len() + 1)) as u16, vec![]);
                            c.eof = eof;
                            v.push(c);
                        }
                    }
                }
            }
        }
    }
    v
}

// -------------------------------------------------------------------------- authenticated-malformed family

#[derive(Clone, Debug, Serialize, Deserialize)]
pub enum Sealed {
    /// legacy request: first chunk plaintext (address area) arbitrary
    LegacyRequestPlain(Vec<u8>),
    /// legacy datagram plaintext arbitrary
    LegacyDatagramPlain(Vec<u8>),
    /// 2022 request: variable header plaintext arbitrary (fixed header consistent)
    S22RequestVar(Vec<u8>),
    /// 2022 request: fixed header fields chosen (type, ts delta, declared length) + real var length
    S22RequestFixed(u8, i32, u16, u16),
    /// 2022 response fixed header: type, ts delta, declared first length; first payload size
    S22ResponseFixed(u8, i32, u16, u16),
    /// 2022 datagram body plaintext arbitrary after (type, ts)
    S22DatagramBody(bool, Vec<u8>),
    /// VMess request header plaintext arbitrary (fnv fixed up or not)
    VmessHeaderPlain(Vec<u8>, bool),
    /// VMess request header with chosen fields: (version, opt, padlen+sec byte, cmd, address bytes, drop_tail)
    VmessHeaderFields(u8, u8, u8, u8, Vec<u8>, u8),
    /// VMess request body: declared chunk size values (mask plain), payload bytes
    VmessBodySizes(u8, Vec<u16>),
    /// VMess response header plaintext arbitrary
    VmessResponseHeader(Vec<u8>),
    /// Trojan: correct hash, then arbitrary bytes
    TrojanAfterHash(Vec<u8>),
}

#[derive(Clone, Debug, Serialize, Deserialize)]
pub struct SealedCase {
    pub seed: u64,
    pub cipher: u8,
    pub users: u8,
    pub what: Sealed,
    pub cut: u16,
}

fn small_bytes() -> BoxedStrategy<Vec<u8>> {
    prop_oneof![
        3 => proptest::collection::vec(any::<u8>(), 0..12),
        3 => proptest::collection::vec(any::<u8>(), 12..80),
        2 => proptest::collection::vec(prop_oneof![0u8..6, Just(255u8), any::<u8>()], 0..40),
        1 => proptest::collection::vec(any::<u8>(), 80..600),
    ]
    .boxed()
}

pub fn sealed_strategy() -> BoxedStrategy<SealedCase> {
    let what = prop_oneof![
        2 => small_bytes().prop_map(Sealed::LegacyRequestPlain),
        2 => small_bytes().prop_map(Sealed::LegacyDatagramPlain),
        3 => small_bytes().prop_map(Sealed::S22RequestVar),
        2 => (0u8..3, -40i32..40, any::<u16>(), 0u16..100).prop_map(|(t, d, l, v)| Sealed::S22RequestFixed(t, d, l, v)),
        2 => (0u8..3, -40i32..40, any::<u16>(), 0u16..100).prop_map(|(t, d, l, v)| Sealed::S22ResponseFixed(t, d, l, v)),
        3 => (any::<bool>(), small_bytes()).prop_map(|(s, b)| Sealed::S22DatagramBody(s, b)),
        2 => (small_bytes(), any::<bool>()).prop_map(|(b, f)| Sealed::VmessHeaderPlain(b, f)),
        4 => (prop_oneof![Just(1u8), any::<u8>()], prop_oneof![Just(0u8), Just(1u8), Just(0x1du8), any::<u8>()], any::<u8>(), prop_oneof![Just(1u8), Just(2u8), any::<u8>()], small_bytes(), 0u8..8).prop_map(|(v, o, s, c, a, d)| Sealed::VmessHeaderFields(v, o, s, c, a, d)),
        3 => (proptest::sample::select(vmess::valid_masks()), proptest::collection::vec(prop_oneof![0u16..80, any::<u16>()], 1..4)).prop_map(|(m, s)| Sealed::VmessBodySizes(m, s)),
        2 => small_bytes().prop_map(Sealed::VmessResponseHeader),
        2 => small_bytes().prop_map(Sealed::TrojanAfterHash),
    ];
    (any::<u64>(), 0u8..8, 0u8..3, what, any::<u16>()).prop_map(|(seed, cipher, users, what, cut)| SealedCase { seed, cipher, users, what, cut }).boxed()
}

pub struct SealedMalformed;

impl SubCheck for SealedMalformed {
    type Case = SealedCase;
    fn name(&self) -> &'static str {
        "sealed-malformed"
    }
    fn strategy(&self, _tier: Tier) -> BoxedStrategy<SealedCase> {
        sealed_strategy()
    }
    fn exec(&self, c: &SealedCase) -> Outcome {
        let mut out = Outcome::new();
        real::set_clock(Some(T0));
        let mut d = Det::new(c.seed, "sealed");
        let legacy = ss::Legacy::ALL[c.cipher as usize % 3];
        let c22 = C22::ALL[c.cipher as usize % 4];
        let sec = if c.cipher % 2 == 0 { 3 } else { 4 };
        let n_users = if c22.is_aes() { c.users as usize } else { 0 };
        // (credential, target, wire)
        let (cred, tgt, wire, label): (Cred, Tgt, Vec<u8>, &str) = match &c.what {
            Sealed::LegacyRequestPlain(p) => {
                let cred = gen::make_cred(Proto::SsLegacy(legacy), "pw", c.seed, 0, 0);
                let k = refside::ref_keys(&cred).unwrap();
                if p.is_empty() {
                    return out;
                }
                (cred, Tgt::ServerTcp, ss::encode_stream(legacy, &k.legacy_key, &d.bytes(legacy.key_len()), &[p.clone()]), "legacy-request-plaintext")
            }
            Sealed::LegacyDatagramPlain(p) => {
                let cred = gen::make_cred(Proto::SsLegacy(legacy), "pw", c.seed, 0, 0);
                let k = refside::ref_keys(&cred).unwrap();
                let salt = d.bytes(legacy.key_len());
                let sk = ss::subkey(&k.legacy_key, &salt);
                let mut w = salt;
                w.extend(legacy.alg().seal(&sk, &le_nonce(0), &[], p));
                (cred, if c.seed % 2 == 0 { Tgt::ServerUdpSs } else { Tgt::ClientUdpSs }, w, "legacy-datagram-plaintext")
            }
            Sealed::S22RequestVar(_) | Sealed::S22RequestFixed(..) => {
                let cred = gen::make_cred(Proto::Ss22(c22), "", c.seed, n_users, 0);
                let k = refside::ref_keys(&cred).unwrap();
                let salt = d.bytes(c22.key_len());
                let sk = ss2022::session_subkey(&k.client_upsk, &salt, c22.key_len());
                let alg = c22.tcp_alg();
                let mut w = salt.clone();
                if c22.is_aes() {
                    w.extend(ss2022::tcp_eih(&k.client_ipsks, &k.client_upsk, &salt, c22.key_len()));
                }
                let (typ, ts, declared, var): (u8, u64, u16, Vec<u8>) = match &c.what {
                    Sealed::S22RequestVar(v) => (0, T0, v.len() as u16, v.clone()),
                    Sealed::S22RequestFixed(t, dl, l, vl) => (*t, (T0 as i64 + *dl as i64) as u64, *l, d.bytes(*vl as usize)),
                    _ => unreachable!(),
                };
                let mut fixed = vec![typ];
                fixed.extend_from_slice(&ts.to_be_bytes());
                fixed.extend_from_slice(&declared.to_be_bytes());
                w.extend(alg.seal(&sk, &le_nonce(0), &[], &fixed));
                w.extend(alg.seal(&sk, &le_nonce(1), &[], &var));
                (cred, Tgt::ServerTcp, w, "2022-request-headers")
            }
            Sealed::S22ResponseFixed(..) | Sealed::VmessResponseHeader(_) | Sealed::S22DatagramBody(..) | Sealed::VmessHeaderPlain(..) | Sealed::VmessHeaderFields(..) | Sealed::VmessBodySizes(..) | Sealed::TrojanAfterHash(_) => {
                return exec_sealed_rest(c, &mut d, c22, sec, n_users);
            }
        };
        finish_sealed(c, &cred, tgt, wire, label, None)
    }
}

fn finish_sealed(c: &SealedCase, cred: &Cred, tgt: Tgt, wire: Vec<u8>, label: &str, client: Option<real::ClientTcp>) -> Outcome {
    let mut out = Outcome::new();
    out.label(format!("sealed:{}", label));
    out.label(format!("tgt:{:?}", tgt));
    let fc = FuzzCase { cred: cred.clone(), tgt, shape: Shape::Raw(vec![]), cuts: vec![], eof: c.seed % 3 == 0, seed: c.seed };
    let datagram = matches!(tgt, Tgt::ServerUdpSs | Tgt::ClientUdpSs);
    let segs = if datagram || c.cut == 0 { vec![wire.clone()] } else { cut(&wire, &[1 + rt::idx(c.cut, wire.len().saturating_sub(1))]) };
    match run_target(&fc, client, &segs) {
        Err(p) if p.starts_with("harness:") => {}
        Err(p) => {
            out.fail(format!("sealed-malformed/{}/{:?}/panic/{}", label, tgt, panic_class(&p)), format!("authenticated but malformed content ({:?}): {}", c.what, p));
        }
        Ok(info) => {
            if info.invalid_utf8 {
                out.fail(format!("sealed-malformed/{}/{:?}/invalid-utf8-string-from-network-bytes", label, tgt), format!("{:?}", c.what));
            }
            out.nontrivial(format!("{}|{:?}|{}|{}|{}", label, tgt, cred.proto.short(), info.items.min(2), info.err));
        }
    }
    out
}

fn exec_sealed_rest(c: &SealedCase, d: &mut Det, c22: C22, sec: u8, n_users: usize) -> Outcome {
    let addr = Addr::Name(b"example.org".to_vec(), 443);
    match &c.what {
        Sealed::S22ResponseFixed(typ, dl, declared, flen) => {
            let cred = gen::make_cred(Proto::Ss22(c22), "", c.seed, n_users, 0);
            let k = refside::ref_keys(&cred).unwrap();
            let address = to_address(&addr).unwrap();
            let Ok(cctx) = ClientCtx::new(&cred) else { return Outcome::new() };
            let Ok(mut cc) = cctx.codec(&address) else { return Outcome::new() };
            let mut first = BytesMut::new();
            if !matches!(catch(|| cc.encode(BytesMut::from(&b"x"[..]), &mut first)), Ok(Ok(()))) {
                return Outcome::new();
            }
            let kl = c22.key_len();
            let req_salt = first[..kl].to_vec();
            let salt = d.bytes(kl);
            let sk = ss2022::session_subkey(&k.client_upsk, &salt, kl);
            let alg = c22.tcp_alg();
            let mut fixed = vec![*typ];
            fixed.extend_from_slice(&((T0 as i64 + *dl as i64) as u64).to_be_bytes());
            fixed.extend_from_slice(&req_salt);
            fixed.extend_from_slice(&declared.to_be_bytes());
            let mut w = salt;
            w.extend(alg.seal(&sk, &le_nonce(0), &[], &fixed));
            w.extend(alg.seal(&sk, &le_nonce(1), &[], &d.bytes(*flen as usize)));
            finish_sealed(c, &cred, Tgt::ClientTcp, w, "2022-response-header", Some(cc))
        }
        Sealed::S22DatagramBody(to_server, tail) => {
            let cred = gen::make_cred(Proto::Ss22(c22), "", c.seed, n_users, 0);
            let k = refside::ref_keys(&cred).unwrap();
            let mut body = vec![if *to_server { 0u8 } else { 1u8 }];
            body.extend_from_slice(&T0.to_be_bytes());
            body.extend_from_slice(tail);
            let sid = d.u64();
            let mut header = [0u8; 16];
            header[..8].copy_from_slice(&sid.to_be_bytes());
            header[8..].copy_from_slice(&7u64.to_be_bytes());
            let w = if c22.is_aes() {
                let sk = ss2022::session_subkey(&k.client_upsk, &sid.to_be_bytes(), c22.key_len());
                let mut eh = header;
                let hk: &[u8] = if *to_server && !k.client_ipsks.is_empty() { &k.client_ipsks[0] } else { &k.client_upsk };
                aes_ecb_encrypt_block(hk, &mut eh);
                let mut w = eh.to_vec();
                if *to_server && !k.client_ipsks.is_empty() {
                    let mut block = ss2022::psk_hash(&k.client_upsk);
                    for (b, h) in block.iter_mut().zip(header.iter()) {
                        *b ^= h;
                    }
                    aes_ecb_encrypt_block(&k.client_ipsks[0], &mut block);
                    w.extend_from_slice(&block);
                }
                w.extend(c22.udp_alg().seal(&sk, &header[4..16], &[], &body));
                w
            } else {
                let xn = d.bytes(24);
                let mut pt = header.to_vec();
                pt.extend(body);
                let mut w = xn.clone();
                w.extend(c22.udp_alg().seal(&k.client_upsk, &xn, &[], &pt));
                w
            };
            finish_sealed(c, &cred, if *to_server { Tgt::ServerUdpSs } else { Tgt::ClientUdpSs }, w, "2022-datagram-body", None)
        }
        Sealed::VmessHeaderPlain(..) | Sealed::VmessHeaderFields(..) | Sealed::VmessBodySizes(..) => {
            let cred = gen::make_cred(Proto::Vmess(sec), "", c.seed, 1 + n_users, 0);
            let k = refside::ref_keys(&cred).unwrap();
            let (plain, body): (Vec<u8>, Vec<u8>) = match &c.what {
                Sealed::VmessHeaderPlain(p, fix) => {
                    let mut p = p.clone();
                    if *fix {
                        let f = vmess::fnv1a32(&p);
                        p.extend_from_slice(&f.to_be_bytes());
                    }
                    (p, d.bytes(40))
                }
                Sealed::VmessHeaderFields(ver, opt, secbyte, cmd, addr_bytes, drop) => {
                    let mut h = vec![*ver];
                    h.extend_from_slice(&d.bytes(33));
                    h.push(*opt);
                    h.push(*secbyte);
                    h.push(0);
                    h.push(*cmd);
                    h.extend_from_slice(addr_bytes);
                    let f = vmess::fnv1a32(&h);
                    h.extend_from_slice(&f.to_be_bytes());
                    // optionally drop bytes before the checksum so that lengths are inconsistent (checksum recomputed)
                    if *drop > 0 && h.len() > 4 + *drop as usize {
                        let keep = h.len() - 4 - *drop as usize;
                        h.truncate(keep);
                        let f = vmess::fnv1a32(&h);
                        h.extend_from_slice(&f.to_be_bytes());
                    }
                    (h, d.bytes(60))
                }
                Sealed::VmessBodySizes(mask, sizes) => {
                    let hdr = vmess::ReqHeader { body_iv: d.arr(), body_key: d.arr(), v: 1, opt: *mask, pad: vec![], sec, cmd: if c.seed % 3 == 0 { 2 } else { 1 }, addr: addr.clone() };
                    // body with chosen (possibly inconsistent) size fields; plain / masked / authenticated as the mask says
                    let b = vmess::Body::request(&hdr);
                    let mut shake = vmess::Shake::new(&hdr.body_iv);
                    let mut body = vec![];
                    for (i, s) in sizes.iter().enumerate() {
                        if *mask & vmess::OPT_P != 0 {
                            let _ = shake.next16();
                        }
                        if *mask & vmess::OPT_A != 0 {
                            let ak = vmess::kdf16(&hdr.body_key, &[b"auth_len"]);
                            let key: Vec<u8> = if sec == 4 { vmess::chacha_key(&ak).to_vec() } else { ak.to_vec() };
                            let mut n = [0u8; 12];
                            n[..2].copy_from_slice(&(i as u16).to_be_bytes());
                            n[2..].copy_from_slice(&hdr.body_iv[2..12]);
                            let alg = if sec == 4 { AeadAlg::ChaCha20 } else { AeadAlg::Aes128Gcm };
                            body.extend(alg.seal(&key, &n, &[], &s.to_be_bytes()));
                        } else if *mask & vmess::OPT_M != 0 {
                            body.extend_from_slice(&(s ^ shake.next16()).to_be_bytes());
                        } else {
                            body.extend_from_slice(&s.to_be_bytes());
                        }
                        body.extend(d.bytes((*s as usize).min(200)));
                        let _ = &b;
                    }
                    (hdr.plain(), body)
                }
                _ => unreachable!(),
            };
            let mut w = vmess::seal_request_header(&k.client_cmd_key, T0 as i64, d.arr(), d.arr(), &plain);
            w.extend(body);
            let label = match &c.what {
                Sealed::VmessBodySizes(..) => "vmess-body-sizes",
                Sealed::VmessHeaderFields(..) => "vmess-header-fields",
                _ => "vmess-header-plaintext",
            };
            finish_sealed(c, &cred, Tgt::ServerTcp, w, label, None)
        }
        Sealed::VmessResponseHeader(p) => {
            let cred = gen::make_cred(Proto::Vmess(sec), "", c.seed, 1, 0);
            let address = to_address(&addr).unwrap();
            let Ok(cctx) = ClientCtx::new(&cred) else { return Outcome::new() };
            let Ok(mut cc) = cctx.codec(&address) else { return Outcome::new() };
            let mut first = BytesMut::new();
            if !matches!(catch(|| cc.encode(BytesMut::from(&b"x"[..]), &mut first)), Ok(Ok(()))) {
                return Outcome::new();
            }
            let Ok(req) = refside::ref_server_decode(&cred, &first, T0) else { return Outcome::new() };
            let refside::SessionInfo::Vmess(h) = &req.session else { return Outcome::new() };
            let (rk, ri) = vmess::response_keys(&h.body_key, &h.body_iv);
            let lk = vmess::kdf16(&rk, &[b"AEAD Resp Header Len Key"]);
            let li = vmess::kdf(&ri, &[b"AEAD Resp Header Len IV"]);
            let hk = vmess::kdf16(&rk, &[b"AEAD Resp Header Key"]);
            let hi = vmess::kdf(&ri, &[b"AEAD Resp Header IV"]);
            // first byte matching the expected V half of the time so that parsing goes on
            let mut p = p.clone();
            if c.seed % 2 == 0 && !p.is_empty() {
                p[0] = h.v;
            }
            let mut w = AeadAlg::Aes128Gcm.seal(&lk, &li[..12], &[], &(p.len() as u16).to_be_bytes());
            w.extend(AeadAlg::Aes128Gcm.seal(&hk, &hi[..12], &[], &p));
            w.extend(d.bytes(30));
            finish_sealed(c, &cred, Tgt::ClientTcp, w, "vmess-response-header", Some(cc))
        }
        Sealed::TrojanAfterHash(rest) => {
            let cred = gen::make_cred(Proto::Trojan, "pw", c.seed, 0, 0);
            let mut w = trojan::key_hex(b"pw").to_vec();
            w.extend_from_slice(rest);
            finish_sealed(c, &cred, Tgt::ServerTcp, w, "trojan-after-hash", None)
        }
        _ => Outcome::new(),
    }
}

/// recognize_http on arbitrary method / target strings.
pub struct HttpStrings;

#[derive(Clone, Debug, Serialize, Deserialize)]
pub struct HttpCase {
    pub method: String,
    pub target: String,
}

impl SubCheck for HttpStrings {
    type Case = HttpCase;
    fn name(&self) -> &'static str {
        "http-target-strings"
    }
    fn strategy(&self, _tier: Tier) -> BoxedStrategy<HttpCase> {
        let m = prop_oneof![Just("CONNECT".to_string()), Just("GET".to_string()), proptest::string::string_regex("[A-Z]{1,8}").unwrap(), proptest::string::string_regex("\\PC{0,6}").unwrap()];
        let t = prop_oneof![
            proptest::string::string_regex("[a-z:/?\\[\\]@.0-9]{0,30}").unwrap(),
            proptest::string::string_regex("(http|https|ftp)?(://)?[a-z0-9.\\[\\]:]{0,20}(:[0-9]{0,7})?(/[a-z/?:]{0,10})?").unwrap(),
            proptest::string::string_regex("\\PC{0,30}").unwrap(),
            // long host names that are valid UTF-8 but not ASCII, in every alignment of their multi-byte characters: names
            // around and above the 255-byte limit take the refusal paths (messages, truncation, length arithmetic)
            (0usize..9, 0usize..5, proptest::sample::select(vec![200usize, 250, 254, 255, 256, 257, 258, 260, 300, 420, 1000]), 0u8..4).prop_map(|(shift, unit, total, form)| {
                let units = ["\u{e9}", "\u{20ac}", "\u{1d11e}", "a\u{e9}", "\u{df}\u{20ac}b"];
                let mut host = "x".repeat(shift);
                while host.len() < total {
                    host.push_str(units[unit]);
                }
                match form {
                    0 => format!("{}:443", host),
                    1 => format!("http://{}/", host),
                    2 => format!("http://{}:8080/p?q", host),
                    _ => host,
                }
            }),
        ];
        (m, t).prop_map(|(method, target)| HttpCase { method, target }).boxed()
    }
    fn exec(&self, c: &HttpCase) -> Outcome {
        let mut out = Outcome::new();
        match catch(|| octo_squirrel_client::client::verif::recognize_http(&c.method, &c.target)) {
            Err(p) => {
                out.fail(format!("http-target-strings/panic/{}", panic_class(&p)), format!("recognize_http({:?}, {:?}): {}", c.method, c.target, p));
            }
            Ok(r) => {
                if c.target.contains(|ch| ch == ':' || ch == '/' || ch == '?' || ch == '[') {
                    out.nontrivial(format!("{}|{}|{}", c.method == "CONNECT", r.is_ok(), c.target.len().min(12)));
                }
            }
        }
        out
    }
}

pub fn subs() -> Vec<Box<dyn DynSub>> {
    vec![Box::new(RawBytes), Box::new(SmallInputs), Box::new(SealedMalformed), Box::new(HttpStrings)]
}

pub fn run(ctx: &mut PropCtx) {
    ctx.rule = "arbitrary bytes x segmentation x ending (quiet / EOF) are fed with FramedRead's calling convention to every network-facing \
                decoder: server inbound of each protocol (with and without user tables), client decoders of server replies (incl. VMess and \
                Trojan UDP framings), Shadowsocks UDP both sides, the local SOCKS5 request/response/UDP decoders and the HTTP target \
                recogniser. Inputs: raw bytes, a prefix of a valid reference-built stream followed by raw bytes (reaches post-handshake \
                states), a valid stream with byte edits. The sealed-malformed sub-check generates *plaintexts* (header fields, address \
                bytes, padding and chunk lengths, option mask, command, checksums) and seals them with the reference under the correct \
                key, reaching the parsing behind the tag check. Oracle: no panic (captured with the component it came from), every \
                decoded domain name is valid UTF-8, decoding ends in Err / Ok(None) / an item. Non-trivial = the input got beyond the \
                decoder's first length check (bytes consumed, an item, or a second decode call); distinct by (decoder, protocol, items, \
                error, segments, shape). small-inputs enumerates all inputs of length <= 1, a 9x256 grid of length-2 inputs and every \
                prefix of one valid message per decoder, each quiet and with EOF."
        .into();
    ctx.assumptions = vec!["release profile without overflow checks for this tier; the libFuzzer tier (debug assertions + ASan) is the thorough complement".into()];
    let t = ctx.tier;
    rt::run_sub(ctx, &RawBytes, t.pick(150_000, 4_000_000));
    let cases = small_cases(ctx.seed);
    rt::run_list(ctx, &SmallInputs, "small-inputs", cases);
    ctx.mark_exhaustive("small-inputs", "all inputs of length <= 1, 9x256 grid of length 2, every prefix of one valid message, per decoder, quiet and EOF");
    rt::run_sub(ctx, &SealedMalformed, t.pick(120_000, 3_000_000));
    rt::run_sub(ctx, &HttpStrings, t.pick(60_000, 2_000_000));
}

// -------------------------------------------------------------------------- coverage-guided raw target (fuzz/fz_raw)

struct RawFuzzStats {
    execs: u64,
    nontrivial: std::collections::HashSet<String>,
    labels: std::collections::BTreeMap<String, u64>,
}

static RAW_STATS: std::sync::Mutex<Option<RawFuzzStats>> = std::sync::Mutex::new(None);

pub fn raw_fuzz_write_stats() {
    let Ok(dir) = std::env::var("OVF_FUZZ_STATS") else { return };
    let Ok(g) = RAW_STATS.lock() else { return };
    let Some(s) = g.as_ref() else { return };
    let _ = std::fs::create_dir_all(&dir);
    let mut nt: Vec<&String> = s.nontrivial.iter().collect();
    nt.sort();
    let v = serde_json::json!({"execs": s.execs, "decoded": s.execs, "nontrivial": nt, "labels": s.labels, "samples": [], "fail": null});
    let _ = std::fs::write(format!("{}/{}.json", dir, std::process::id()), v.to_string());
}

/// Layout of a raw fuzz input: [decoder, credential, flags, cut0 (u16 le), cut1 (u16 le)] ++ network bytes.
/// flags: bit0 EOF, bit1-2 number of users (2022 AES / VMess), bit3-5 mode: 0 = the bytes are the wire input; 1.. = the bytes
/// are a *plaintext* that is sealed with the reference under the correct key (the sealed-malformed family), so that byte-level
/// mutation and compare tracing act on the parsers behind the tag check.
pub fn raw_fuzz_case(data: &[u8]) -> Option<Result<FuzzCase, SealedCase>> {
    if data.len() < 7 {
        return None;
    }
    let tgts = [Tgt::ServerTcp, Tgt::ClientTcp, Tgt::ServerUdpSs, Tgt::ClientUdpSs, Tgt::ClientVmessUdp, Tgt::ClientTrojanUdp, Tgt::Socks5Init, Tgt::Socks5Cmd, Tgt::Socks5InitResp, Tgt::Socks5CmdResp, Tgt::Socks5Udp];
    let tgt = tgts[data[0] as usize % tgts.len()];
    let flags = data[2];
    let users = ((flags >> 1) & 3) as usize;
    let mode = (flags >> 3) & 7;
    let body = data[7..].to_vec();
    if mode != 0 {
        let what = match (mode, data[0] % 7) {
            (1, 0) => Sealed::LegacyRequestPlain(body),
            (1, 1) => Sealed::LegacyDatagramPlain(body),
            (1, 2) => Sealed::S22RequestVar(body),
            (1, 3) => Sealed::S22DatagramBody(flags & 1 == 1, body),
            (1, 4) => Sealed::VmessHeaderPlain(body, flags & 1 == 1),
            (1, 5) => Sealed::VmessResponseHeader(body),
            (1, _) => Sealed::TrojanAfterHash(body),
            (2, _) if body.len() >= 5 => Sealed::VmessHeaderFields(body[0], body[1], body[2], body[3], body[5..].to_vec(), body[4] % 8),
            _ => return None,
        };
        return Some(Err(SealedCase { seed: data[1] as u64, cipher: data[1] % 8, users: users as u8 % 3, what, cut: u16::from_le_bytes([data[3], data[4]]) }));
    }
    let protos: Vec<Proto> = match tgt {
        Tgt::ServerTcp | Tgt::ClientTcp => Proto::all(),
        Tgt::ServerUdpSs | Tgt::ClientUdpSs => Proto::all().into_iter().filter(|p| matches!(p, Proto::SsLegacy(_) | Proto::Ss22(_))).collect(),
        Tgt::ClientVmessUdp => vec![Proto::Vmess(3), Proto::Vmess(4)],
        _ => vec![Proto::Trojan],
    };
    let proto = protos[data[1] as usize % protos.len()];
    let n_users = match proto {
        Proto::Ss22(c) if c.is_aes() => users,
        Proto::Vmess(_) => users.max(1),
        _ => 0,
    };
    let cred = gen::make_cred(proto, "pw", 7, n_users, 0);
    let cuts = vec![u16::from_le_bytes([data[3], data[4]]), u16::from_le_bytes([data[5], data[6]])];
    Some(Ok(FuzzCase { cred, tgt, shape: Shape::Raw(body), cuts, eof: flags & 1 == 1, seed: 7 }))
}

/// One execution of the raw target: Some(failure) if an oracle is violated.
pub fn raw_fuzz_entry(data: &[u8]) -> Option<crate::ev::Fail> {
    let case = raw_fuzz_case(data)?;
    let out = match &case {
        Ok(c) => {
            let mut out = exec_fuzz("raw-bytes", c);
            // C06: bytes that were made without the credential never make the server dial. (A coverage-guided fuzzer reads the
            // process's memory through compare tracing, so an input that *contains* the Trojan hash is not "without credential".)
            if out.fail.is_none() && matches!(c.tgt, Tgt::ServerTcp | Tgt::ServerUdpSs) {
                if let Shape::Raw(b) = &c.shape {
                    let has_cred = match c.cred.proto {
                        Proto::Trojan => {
                            let h = refside::ref_keys(&c.cred).map(|k| k.trojan_client_pw.clone()).unwrap_or_default();
                            // "knows the hash": the first 56 bytes name, pair by pair, the 28 bytes of SHA-224(password) in any
                            // spelling an integer parser takes (upper case, a sign in front of one digit)
                            let hex = trojan::key_hex(&h);
                            let pairs = |x: &[u8]| -> Option<Vec<u8>> { x.chunks(2).map(|p| std::str::from_utf8(p).ok().and_then(|t| u8::from_str_radix(t, 16).ok())).collect() };
                            b.len() >= 56 && pairs(&b[..56]).is_some() && pairs(&b[..56]) == pairs(&hex[..])
                        }
                        _ => false,
                    };
                    if !has_cred {
                        real::set_clock(Some(T0));
                        let n = b.len();
                        let cuts: Vec<usize> = c.cuts.iter().map(|p| 1 + rt::idx(*p, n.saturating_sub(1))).collect();
                        let segs = if c.tgt == Tgt::ServerUdpSs { vec![b.clone()] } else { cut(b, &cuts) };
                        if let Ok(info) = run_target(c, None, &segs) {
                            if info.dial {
                                out.fail(format!("raw-bytes/{:?}/{}/dial-item-from-bytes-made-without-the-credential", c.tgt, family(c.cred.proto)), format!("{} raw bytes that were not produced with the credential made the server decoder yield a dial / relay item", n));
                            }
                        }
                    }
                }
            }
            out
        }
        Err(sc) => SealedMalformed.exec(sc),
    };
    // OVF_FUZZ_RAW_ORACLE=c06: only the no-credential oracle counts (a panic is C07's finding); =c07: only C07's
    let only = std::env::var("OVF_FUZZ_RAW_ORACLE").unwrap_or_default();
    let mut out = out;
    if let Some(f) = &out.fail {
        let is_c06 = f.sig.contains("without-the-credential");
        if (only == "c06" && !is_c06) || (only == "c07" && is_c06) {
            out.fail = None;
        }
    }
    let mut g = RAW_STATS.lock().unwrap();
    let st = g.get_or_insert_with(|| RawFuzzStats { execs: 0, nontrivial: Default::default(), labels: Default::default() });
    st.execs += 1;
    for l in &out.labels {
        *st.labels.entry(l.clone()).or_default() += 1;
    }
    if let Some(fp) = &out.nontrivial {
        if st.nontrivial.len() < 200_000 {
            st.nontrivial.insert(fp.clone());
        }
    }
    out.fail
}
