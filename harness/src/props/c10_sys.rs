//! C10 system half (Engine B): replays against the *running* server, across its listeners.
//! A Shadowsocks 2022 server entry in mode `tcp_and_quic` has two listeners for the same key. A generated history
//! presents a few reference-built valid requests, each possibly several times, on either listener (raw TCP connection /
//! raw QUIC stream). Each request names its own scripted target: the target of a request must be dialled for the first
//! presentation and never again - "its salt has not been accepted before", whichever listener saw it first.
use crate::ev::{Outcome, PropCtx, Tier};
use crate::gen::Det;
use crate::real::Proto;
use crate::refimpl::ss2022::C22;
use crate::refimpl::Addr;
use crate::refside::{self, ReqOpts};
use crate::rt::{self, DynSub, SubCheck};
use crate::sys::cluster::{server_entry, RawProc, Spec, Transport};
use crate::sys::free_port;
use crate::sys::refpeer::{now_secs, quic_present};
use proptest::prelude::*;
use proptest::strategy::BoxedStrategy;
use serde::{Deserialize, Serialize};
use serde_json::json;
use std::io::Write;
use std::net::{Ipv4Addr, SocketAddr, SocketAddrV4, TcpListener, TcpStream};
use std::time::{Duration, Instant};

#[derive(Clone, Debug, Serialize, Deserialize)]
pub struct ReplayCase {
    pub cipher: C22,
    pub n_users: u8,
    pub seed: u64,
    /// (request 0..3, over QUIC instead of TCP)
    pub steps: Vec<(u8, bool)>,
}

pub struct CrossListenerReplay;

fn count_accepts(l: &TcpListener, seen: &mut usize) -> usize {
    while let Ok((s, _)) = l.accept() {
        *seen += 1;
        // keep the flow alive for the rest of the case: the verdict is about dialling
        std::mem::forget(s);
    }
    *seen
}

impl SubCheck for CrossListenerReplay {
    type Case = ReplayCase;
    fn name(&self) -> &'static str {
        "cross-listener-replay"
    }
    fn strategy(&self, _tier: Tier) -> BoxedStrategy<ReplayCase> {
        (proptest::sample::select(C22::ALL.to_vec()), 0u8..3, 1u64..1_000_000, proptest::collection::vec((0u8..3, any::<bool>()), 2..7))
            .prop_map(|(cipher, n_users, seed, steps)| ReplayCase { cipher, n_users, seed, steps })
            .boxed()
    }
    fn workers(&self) -> usize {
        (rt::threads() / 2).clamp(1, 8)
    }
    fn max_shrink_iters(&self) -> u32 {
        16
    }
    fn confirm_runs(&self) -> u32 {
        2
    }
    fn exec(&self, c: &ReplayCase) -> Outcome {
        let mut out = Outcome::new();
        let mut spec = Spec::new(Proto::Ss22(c.cipher), Transport::Quic);
        spec.n_users = if c.cipher.is_aes() { c.n_users } else { 0 };
        spec.user = (c.seed % 3) as u8;
        spec.seed = c.seed;
        let cred = spec.cred();
        let port = free_port();
        let mut e = server_entry(&spec, &cred, port);
        e["mode"] = json!("tcp_and_quic");
        let Ok(mut p) = RawProc::start(true, &json!([e]), 2 + (c.seed % 3) as u8) else { return out };
        // both listeners up?
        let t0 = Instant::now();
        while p.sockets(port) != (true, true) {
            if p.proc.exited().is_some() || t0.elapsed() > Duration::from_secs(10) {
                return out; // C16's business
            }
            std::thread::sleep(Duration::from_millis(20));
        }
        out.label(format!("proto:ss/{}", c.cipher.name()));
        let deadline = Duration::from_secs(if rt::failed_already() { 3 } else { 8 });
        let mut d = Det::new(c.seed, "c10-sys");
        // up to three distinct requests, each with its own target
        let mut targets: Vec<(TcpListener, usize)> = vec![];
        let mut wires: Vec<Vec<u8>> = vec![];
        for r in 0..3usize {
            let l = TcpListener::bind(SocketAddrV4::new(Ipv4Addr::LOCALHOST, 0)).expect("harness: bind");
            l.set_nonblocking(true).ok();
            let tport = l.local_addr().expect("harness: addr").port();
            let Ok(f) = refside::ref_client_request(&cred, &Addr::V4([127, 0, 0, 1], tport), &[format!("request {}", r).into_bytes()], &ReqOpts::new(now_secs()), &mut d) else { return out };
            wires.push(f.wire);
            targets.push((l, 0));
        }
        let mut presented = [0usize; 3];
        let mut history = vec![];
        let mut held: Vec<TcpStream> = vec![];
        for (r, quic) in &c.steps {
            let r = *r as usize % 3;
            let first = presented[r] == 0;
            presented[r] += 1;
            history.push(format!("{}{}", if *quic { "quic:" } else { "tcp:" }, r));
            let before = targets[r].1;
            if *quic {
                let _ = quic_present(port, &wires[r], Duration::from_millis(if first { 150 } else { 350 }));
            } else if let Ok(mut s) = TcpStream::connect_timeout(&SocketAddr::V4(SocketAddrV4::new(Ipv4Addr::LOCALHOST, port)), deadline) {
                let _ = s.write_all(&wires[r]);
                held.push(s);
            }
            // a first presentation must be served; a repeat gets the time a dial takes, many times over
            let t1 = Instant::now();
            let wait = if first { deadline } else { Duration::from_millis(400) };
            loop {
                let (l, seen) = &mut targets[r];
                let now = count_accepts(l, seen);
                if (first && now > before) || t1.elapsed() > wait {
                    break;
                }
                std::thread::sleep(Duration::from_millis(5));
            }
            let after = targets[r].1;
            if first && after == before {
                // whether a fresh valid request is served at all is C03's / C16's business
                out.label("first-presentation-not-served");
                return out;
            }
            if !first && after > before {
                out.fail(
                    "cross-listener-replay/ss-2022/replayed-request-dialled-again",
                    format!(
                        "{} server in mode tcp_and_quic, history of presentations {:?}: request {} (same bytes, same salt) had been accepted before and was accepted again - its target was dialled {} times\n{}",
                        c.cipher.name(),
                        history,
                        r,
                        after,
                        crate::ev::truncate(&p.proc.log_tail(6), 900)
                    ),
                );
                return out;
            }
        }
        out.weight = c.steps.len() as u64;
        let repeats = presented.iter().filter(|n| **n >= 2).count();
        let both = c.steps.iter().any(|(_, q)| *q) && c.steps.iter().any(|(_, q)| !*q);
        if repeats > 0 {
            out.label("has-replay");
        }
        if repeats > 0 && both {
            out.label("replay-history-uses-both-listeners");
            out.nontrivial(format!("{}|{}|{:?}", c.cipher.name(), spec.n_users, history));
        }
        drop(held);
        out
    }
}

pub fn subs() -> Vec<Box<dyn DynSub>> {
    vec![Box::new(CrossListenerReplay)]
}

pub fn run(ctx: &mut PropCtx) {
    let t = ctx.tier;
    rt::run_sub(ctx, &CrossListenerReplay, t.pick(32, 600));
}
