//! C12 – No key ever encrypts two messages with the same nonce.
use crate::drive::{encode_all, feed_server, flow_of, Flow};
use crate::ev::{hex, Outcome, PropCtx, Tier};
use crate::gen::{self, CredGen, T0};
use crate::props::c03::family;
use crate::real::{self, to_address, ClientCtx, Cred, OutboundIn, Proto, ServerCtx};
use crate::refimpl::ss2022;
use crate::refimpl::{ss, Addr, Unit};
use crate::refside;
use crate::rt::{self, DynSub, SubCheck};
use bytes::BytesMut;
use proptest::prelude::*;
use proptest::strategy::BoxedStrategy;
use serde::{Deserialize, Serialize};
use std::collections::HashMap;

#[derive(Clone, Debug, Serialize, Deserialize)]
pub struct HistoryCase {
    pub cred: Cred,
    pub addr: Addr,
    /// per session: (client->server write lengths, server->client write lengths)
    pub sessions: Vec<(Vec<u32>, Vec<u32>)>,
    pub seed: u64,
}

fn lens() -> BoxedStrategy<Vec<u32>> {
    let one = prop_oneof![
        6 => 1u32..200,
        3 => 200u32..5000,
        1 => 5000u32..70000,
    ];
    proptest::collection::vec(one, 1..5).boxed()
}

pub fn history_strategy(big: bool) -> BoxedStrategy<HistoryCase> {
    let max_s = if big { 40 } else { 12 };
    (gen::cred_strategy(), gen::addr_strategy(), proptest::collection::vec((lens(), lens()), 1..max_s), any::<u64>(), proptest::bool::weighted(0.02))
        .prop_map(|(CredGen { cred, .. }, addr, mut sessions, seed, huge)| {
            if huge {
                // > 256 chunks in one direction so that the second counter byte moves
                let n = match cred.proto {
                    Proto::Vmess(_) => 600_000,
                    Proto::SsLegacy(_) => 2_300_000,
                    _ => 9_000_000,
                };
                sessions.truncate(2);
                sessions[0].0 = vec![n];
                sessions[0].1 = vec![n / 2];
            }
            HistoryCase { cred, addr, sessions, seed }
        })
        .boxed()
}

struct Seen {
    /// (key, nonce) -> where first seen
    map: HashMap<(Vec<u8>, Vec<u8>), String>,
}

impl Seen {
    fn add(&mut self, units: &[Unit], label: &str, tag_dir: bool, dir: &str) -> Option<String> {
        for (i, u) in units.iter().enumerate() {
            let mut key = u.key.clone();
            if u.kind == "authlen" && tag_dir {
                // VMess derives the authenticated-length cipher from the *request* key/IV in both directions: the
                // protocol itself makes the two directions share (key, nonce); the property exempts what the protocol defines
                key.extend_from_slice(dir.as_bytes());
            }
            let here = format!("{} unit {} ({})", label, i, u.kind);
            if let Some(prev) = self.map.insert((key, u.nonce.clone()), here.clone()) {
                return Some(format!("(key {}.., nonce {}) used by {} and again by {}", hex(&u.key[..4.min(u.key.len())]), hex(&u.nonce), prev, here));
            }
        }
        None
    }
}

pub struct TcpHistory;

fn check_counters(units: &[Unit]) -> Option<String> {
    // within one direction, per key, nonces must strictly advance as counters (one step per unit)
    let mut last: HashMap<Vec<u8>, Vec<u8>> = HashMap::new();
    for u in units {
        if u.kind == "hdr" || u.kind == "hdr-len" {
            continue;
        }
        if let Some(prev) = last.get(&u.key) {
            if u.nonce <= *prev && !(u.nonce.len() == 12 && u.nonce[..2] != prev[..2] && prev[..2] == [0xff, 0xff]) {
                // little-endian counters compare differently: fall back to inequality for them
                if u.nonce == *prev {
                    return Some(format!("nonce {} repeated under one key", hex(&u.nonce)));
                }
            }
        }
        last.insert(u.key.clone(), u.nonce.clone());
    }
    None
}

impl SubCheck for TcpHistory {
    type Case = HistoryCase;
    fn name(&self) -> &'static str {
        "tcp-history"
    }
    fn strategy(&self, tier: Tier) -> BoxedStrategy<HistoryCase> {
        history_strategy(tier == Tier::Thorough)
    }
    fn exec(&self, c: &HistoryCase) -> Outcome {
        let mut out = Outcome::new();
        real::set_clock(Some(T0));
        let fam = family(c.cred.proto);
        out.label(format!("proto:{}", c.cred.proto.short()));
        if !c.cred.proto.encrypted() {
            out.label("not-an-encrypted-protocol");
            return out;
        }
        let Some(address) = to_address(&c.addr) else { return out };
        let Ok(cctx) = ClientCtx::new(&c.cred) else { return out };
        let Ok(sctx) = ServerCtx::new(&c.cred) else { return out };
        let mut seen = Seen { map: HashMap::new() };
        let mut salts: HashMap<Vec<u8>, usize> = HashMap::new();
        let mut max_units = 0usize;
        for (si, (c2s, s2c)) in c.sessions.iter().enumerate() {
            let Ok(mut cc) = cctx.codec(&address) else { return out };
            let writes = gen::writes_from_lens(c.seed ^ si as u64, c2s);
            let Ok((wire_c, _)) = encode_all(&mut cc, writes.iter().map(|w| BytesMut::from(&w[..])).collect::<Vec<_>>()) else { return out };
            let dec = match refside::ref_server_decode(&c.cred, &wire_c, T0) {
                Ok(d) => d,
                Err(e) => {
                    // a unit only opens if the implementation used exactly the (key, nonce) the reference computes
                    out.fail(format!("tcp-history/{}/request-units-do-not-open-with-the-expected-key-nonce-sequence", fam), format!("session {}: {}", si, e));
                    return out;
                }
            };
            // per-session identifiers must be fresh
            let id: Vec<u8> = match c.cred.proto {
                Proto::SsLegacy(_) | Proto::Ss22(_) => wire_c[..c.cred.proto.key_len()].to_vec(),
                Proto::Vmess(_) => {
                    let mut v = wire_c[..16].to_vec();
                    v.extend_from_slice(&wire_c[34..42]);
                    v
                }
                Proto::Trojan => vec![],
            };
            if let Some(prev) = salts.insert(id.clone(), si) {
                out.fail(format!("tcp-history/{}/session-randomness-repeated", fam), format!("sessions {} and {} start with the same salt / auth-id+nonce {}", prev, si, hex(&id)));
                return out;
            }
            if let refside::SessionInfo::Vmess(h) = &dec.session {
                // each of these carries >= 64 random bits: a repeat within one history cannot happen by chance
                let mut k = b"vmess-body-key:".to_vec();
                k.extend_from_slice(&h.body_key);
                let mut iv = b"vmess-body-iv:".to_vec();
                iv.extend_from_slice(&h.body_iv);
                let mut cn = b"vmess-connection-nonce:".to_vec();
                cn.extend_from_slice(&wire_c[34..42]);
                for (what, v) in [("body key", k), ("body IV", iv), ("connection nonce", cn)] {
                    if let Some(prev) = salts.insert(v, si) {
                        out.fail(format!("tcp-history/{}/session-randomness-repeated", fam), format!("sessions {} and {} use the same VMess {}", prev, si, what));
                        return out;
                    }
                }
            }
            if let Some(e) = seen.add(&dec.units, &format!("session {} request", si), true, "c2s").or_else(|| check_counters(&dec.units)) {
                out.fail(format!("tcp-history/{}/key-nonce-pair-reused", fam), e);
                return out;
            }
            max_units = max_units.max(dec.units.len());
            // response direction
            let mut sc = sctx.codec().unwrap();
            let (items, _, fed) = feed_server(&mut sc, &[wire_c.clone()]);
            if !fed.clean() || !matches!(flow_of(&items), Flow::Tcp { .. }) {
                return out; // C03's business
            }
            let rwrites = gen::writes_from_lens(c.seed ^ 0xabc ^ si as u64, s2c);
            let Ok((wire_s, _)) = encode_all(&mut sc, rwrites.iter().map(|w| OutboundIn::Tcp(BytesMut::from(&w[..]))).collect::<Vec<_>>()) else { return out };
            let rdec = match refside::ref_client_decode(&c.cred, &dec.session, &wire_s, T0) {
                Ok(d) => d,
                Err(e) => {
                    out.fail(format!("tcp-history/{}/response-units-do-not-open-with-the-expected-key-nonce-sequence", fam), format!("session {}: {}", si, e));
                    return out;
                }
            };
            if matches!(c.cred.proto, Proto::SsLegacy(_) | Proto::Ss22(_)) {
                let id = wire_s[..c.cred.proto.key_len()].to_vec();
                if let Some(prev) = salts.insert(id.clone(), si) {
                    out.fail(format!("tcp-history/{}/session-randomness-repeated", fam), format!("response salt of session {} equals a salt of session {}: {}", si, prev, hex(&id)));
                    return out;
                }
            }
            if let Some(e) = seen.add(&rdec.units, &format!("session {} response", si), true, "s2c").or_else(|| check_counters(&rdec.units)) {
                out.fail(format!("tcp-history/{}/key-nonce-pair-reused", fam), e);
                return out;
            }
            max_units = max_units.max(rdec.units.len());
        }
        out.weight = seen.map.len() as u64;
        if max_units > 512 {
            out.label("more-than-256-chunks-in-one-direction");
        }
        if c.sessions.len() >= 2 && max_units >= 4 {
            let cls = if max_units > 512 { ">512" } else if max_units > 32 { "33-512" } else { "<=32" };
            out.nontrivial(format!("{}|{}|{}", c.cred.proto.short(), c.sessions.len().min(20), cls));
        }
        out
    }
}

// ---------------------------------------------------------------------------------------------- UDP

#[derive(Clone, Debug, Serialize, Deserialize)]
pub struct UdpHistoryCase {
    pub cred: Cred,
    pub sessions: Vec<u8>,
    pub seed: u64,
    /// start the first session this many ids below u64::MAX (0 = normal start)
    pub near_max: u8,
    /// after every `reply_every`-th datagram the client codec decodes a (reference-built) server reply, whose packet
    /// ids count from 1 on the server's own counter (0 = the client only sends)
    #[serde(default)]
    pub reply_every: u8,
    /// after every so many replies the server "restarts": the following replies come from a new server session id and
    /// count their packet ids from 1 again (0 = one server session throughout)
    #[serde(default)]
    pub server_restart_every: u8,
}

pub struct UdpHistory;

impl SubCheck for UdpHistory {
    type Case = UdpHistoryCase;
    fn name(&self) -> &'static str {
        "udp-history"
    }
    fn strategy(&self, _tier: Tier) -> BoxedStrategy<UdpHistoryCase> {
        let protos: Vec<Proto> = Proto::all().into_iter().filter(|p| matches!(p, Proto::SsLegacy(_) | Proto::Ss22(_))).collect();
        (proptest::sample::select(protos).prop_flat_map(gen::cred_for), proptest::collection::vec(1u8..30, 1..10), any::<u64>(), prop_oneof![3 => Just(0u8), 1 => 1u8..6], prop_oneof![1 => Just(0u8), 2 => 1u8..5], prop_oneof![2 => Just(0u8), 1 => 1u8..4])
            .prop_map(|(CredGen { cred, .. }, sessions, seed, near_max, reply_every, server_restart_every)| UdpHistoryCase { cred, sessions, seed, near_max, reply_every, server_restart_every })
            .boxed()
    }
    fn exec(&self, c: &UdpHistoryCase) -> Outcome {
        let mut out = Outcome::new();
        real::set_clock(Some(T0));
        let fam = family(c.cred.proto);
        out.label(format!("proto:{}", c.cred.proto.short()));
        let Ok(keys) = refside::ref_keys(&c.cred) else { return out };
        let Ok(cctx) = real::ClientUdpCtx::new(&c.cred) else { return out };
        let address = to_address(&Addr::V4([8, 8, 8, 8], 53)).unwrap();
        let mut seen = Seen { map: HashMap::new() };
        let mut sids: HashMap<u64, usize> = HashMap::new();
        for (si, n) in c.sessions.iter().enumerate() {
            let mut cc = cctx.codec();
            let near = si == 0 && c.near_max > 0 && matches!(c.cred.proto, Proto::Ss22(_));
            if near {
                cc.set_packet_id(u64::MAX - c.near_max as u64);
                out.label("session-started-near-u64-max");
            }
            let mut last_pid: Option<u64> = None;
            let mut units = vec![];
            let mut replies_fed = 0u64;
            for k in 0..*n {
                let payload = gen::keystream(c.seed, k as usize, 10 + k as usize);
                let mut wire = BytesMut::new();
                let r = rt::catch(|| cc.encode(&payload, address.clone(), &mut wire));
                let ok = matches!(r, Ok(Ok(())));
                if !ok {
                    if near {
                        // ending the session with an error instead of reusing an id is what the property asks for
                        out.label("encoder-stops-at-id-exhaustion");
                        break;
                    }
                    return out; // C03/C07's business
                }
                match c.cred.proto {
                    Proto::SsLegacy(l) => match ss::decode_datagram(l, &keys.legacy_key, &wire) {
                        Ok((_, _, u)) => units.push(u),
                        Err(_) => return out,
                    },
                    Proto::Ss22(cc22) => {
                        let users = if cc22.is_aes() { keys.user_psks.clone() } else { vec![] };
                        match ss2022::decode_udp_client(cc22, &keys.server_psk, &users, &wire) {
                            Ok(d) => {
                                if let Some(lp) = last_pid {
                                    if d.pkt.pid <= lp {
                                        out.fail(
                                            format!("udp-history/{}/packet-id-not-strictly-increasing", fam),
                                            format!("session {}: packet id {} follows {} (datagram {} of the session{})", si, d.pkt.pid, lp, k, if near { ", started near u64::MAX" } else { "" }),
                                        );
                                        return out;
                                    }
                                }
                                last_pid = Some(d.pkt.pid);
                                // asymmetric traffic: now and then a server reply arrives between two sends
                                if c.reply_every > 0 && (k + 1) % c.reply_every == 0 && !near {
                                    replies_fed += 1;
                                    let (epoch, pid_in_epoch) = match c.server_restart_every as u64 {
                                        0 => (0, replies_fed),
                                        e => ((replies_fed - 1) / e, (replies_fed - 1) % e + 1),
                                    };
                                    if epoch > 0 {
                                        out.label("replies-from-a-restarted-server-session");
                                    }
                                    let rp = ss2022::UdpServerPacket {
                                        ssid: 0x5e55_1000_0000_0000 | si as u64 | (epoch << 20),
                                        pid: pid_in_epoch,
                                        typ: 1,
                                        ts: T0,
                                        client_sid: d.pkt.sid,
                                        padding: vec![],
                                        addr: Addr::V4([8, 8, 8, 8], 53),
                                        payload: vec![b'r'; 5],
                                        xnonce: if cc22.is_aes() { vec![] } else { gen::keystream(c.seed ^ 0x77, (si * 1000 + k as usize) * 24, 24) },
                                    };
                                    let mut w = BytesMut::from(&ss2022::encode_udp_server(cc22, &keys.client_upsk, &rp)[..]);
                                    match rt::catch(|| cc.decode(&mut w)) {
                                        Ok(Ok(Some(_))) => {
                                            out.label("reply-decoded-between-sends");
                                        }
                                        other => {
                                            out.label(format!("reply-not-accepted:{}", match other { Ok(Ok(None)) => "none", Ok(Err(_)) => "err", _ => "panic" }));
                                        }
                                    }
                                }
                                if k == 0 {
                                    if let Some(prev) = sids.insert(d.pkt.sid, si) {
                                        out.fail(format!("udp-history/{}/session-id-repeated", fam), format!("sessions {} and {} share client session id {:#x}", prev, si, d.pkt.sid));
                                        return out;
                                    }
                                }
                                units.push(d.unit);
                            }
                            Err(_) => return out,
                        }
                    }
                    _ => unreachable!(),
                }
            }
            if let Some(e) = seen.add(&units, &format!("udp session {}", si), false, "") {
                out.fail(format!("udp-history/{}/key-nonce-pair-reused", fam), e);
                return out;
            }
        }
        out.weight = seen.map.len() as u64;
        if c.sessions.len() >= 2 {
            out.nontrivial(format!("{}|{}|{}", c.cred.proto.short(), c.sessions.len(), c.near_max > 0));
        }
        out
    }
}


// ---------------------------------------------------------------------------------------------- the running server's UDP sessions

/// The server's side of a UDP session (server session id, reply packet ids) lives inside the running server and is
/// reachable only through its socket: a reference client talks to the real server and the reference decoder reads
/// (session id, packet id) of both directions off the wire.
#[derive(Clone, Debug, Serialize, Deserialize)]
pub struct ServerUdpCase {
    pub cipher: ss2022::C22,
    pub n_users: u8,
    pub seed: u64,
    /// datagrams per client session
    pub sessions: Vec<u8>,
}

pub struct ServerUdpSessions;

impl SubCheck for ServerUdpSessions {
    type Case = ServerUdpCase;
    fn name(&self) -> &'static str {
        "server-udp-sessions"
    }
    fn strategy(&self, _tier: Tier) -> BoxedStrategy<ServerUdpCase> {
        (proptest::sample::select(ss2022::C22::ALL.to_vec()), 0u8..3, 1u64..1_000_000, proptest::collection::vec(1u8..6, 1..5))
            .prop_map(|(cipher, n_users, seed, sessions)| ServerUdpCase { cipher, n_users, seed, sessions })
            .boxed()
    }
    fn exec(&self, c: &ServerUdpCase) -> Outcome {
        use crate::sys::cluster::{Cluster, Spec, Transport};
        use crate::sys::net::UdpTarget;
        use crate::sys::refpeer::RefUdpClient;
        let mut out = Outcome::new();
        let mut spec = Spec::new(Proto::Ss22(c.cipher), Transport::Tcp);
        spec.udp = true;
        spec.n_users = if c.cipher.is_aes() { c.n_users } else { 0 };
        spec.seed = c.seed;
        let mut cl = match Cluster::start(&spec) {
            Ok(cl) => cl,
            Err(_) => return out, // start-up trouble is C01/C16's business
        };
        let target = UdpTarget::spawn(0, true);
        let taddr = Addr::V4([127, 0, 0, 1], target.port);
        // every sealed datagram of either direction: (session id that keys it, packet id)
        let mut pairs: HashMap<(u64, u64), String> = HashMap::new();
        let mut ssids: HashMap<u64, usize> = HashMap::new();
        let mut replies_total = 0;
        for (si, n) in c.sessions.iter().enumerate() {
            let sid = 0xc12c_0000_0000_0000u64 ^ (c.seed << 8) ^ si as u64;
            let Ok(rc) = RefUdpClient::new(&cl.cred, cl.server_port, sid) else { return out };
            for k in 1..=*n as u64 {
                rc.send(k, &taddr, format!("c12-{}-{}", si, k).as_bytes());
                if let Some(prev) = pairs.insert((sid, k), format!("client session {} datagram {}", si, k)) {
                    out.fail("server-udp-sessions/harness", format!("harness reused {:?}: {}", (sid, k), prev));
                    return out;
                }
                std::thread::sleep(std::time::Duration::from_millis(3));
            }
            let raws = rc.recv_raw(std::time::Duration::from_millis(if rt::failed_already() { 400 } else { 1200 }), *n as usize);
            let mut last: Option<u64> = None;
            for (j, w) in raws.iter().enumerate() {
                let Ok(d) = ss2022::decode_udp_server(c.cipher, &rc.keys.client_upsk, w) else { continue }; // C03's business
                replies_total += 1;
                if d.pkt.ssid == sid {
                    out.fail(
                        "server-udp-sessions/server-session-id-equals-client-session-id",
                        format!("session {}: the server's session id {:#x} is the client's session id; with the AES ciphers both directions then share the session sub-key, and equal packet ids share the nonce", si, sid),
                    );
                    return out;
                }
                if j == 0 {
                    if let Some(prev) = ssids.insert(d.pkt.ssid, si) {
                        if prev != si {
                            out.fail("server-udp-sessions/server-session-id-repeated", format!("client sessions {} and {} were answered under the same server session id {:#x}", prev, si, d.pkt.ssid));
                            return out;
                        }
                    }
                }
                if let Some(l) = last {
                    if d.pkt.pid <= l {
                        out.fail("server-udp-sessions/reply-packet-id-not-strictly-increasing", format!("session {}: reply packet id {} follows {}", si, d.pkt.pid, l));
                        return out;
                    }
                }
                last = Some(d.pkt.pid);
                if let Some(prev) = pairs.insert((d.pkt.ssid, d.pkt.pid), format!("server reply {} of session {}", j, si)) {
                    out.fail("server-udp-sessions/key-nonce-pair-reused", format!("(session id {:#x}, packet id {}) seals both '{}' and 'server reply {} of session {}'", d.pkt.ssid, d.pkt.pid, prev, j, si));
                    return out;
                }
            }
        }
        if cl.health().is_err() {
            return out; // C07/C08's business
        }
        out.weight = pairs.len() as u64;
        out.label(format!("proto:ss/{}", c.cipher.name()));
        if c.sessions.len() >= 2 && replies_total >= 2 {
            out.nontrivial(format!("{}|{:?}", c.cipher.name(), c.sessions));
        }
        out
    }
    fn workers(&self) -> usize {
        (rt::threads() / 2).clamp(1, 8)
    }
    fn max_shrink_iters(&self) -> u32 {
        20
    }
    fn confirm_runs(&self) -> u32 {
        2
    }
}

// ---------------------------------------------------------------------------------------------- freshness across processes, bias screen

/// What `ovf emit-randomness` prints: per protocol, the per-session random material of a few fresh sessions.
pub fn emit_randomness() -> Vec<String> {
    real::set_clock(Some(T0));
    let mut v = vec![];
    let address = to_address(&Addr::V4([1, 1, 1, 1], 80)).unwrap();
    for proto in Proto::all() {
        if !proto.encrypted() {
            continue;
        }
        let cred = gen::make_cred(proto, "freshness", 7, 0, 0);
        let cctx = ClientCtx::new(&cred).unwrap();
        for _ in 0..4 {
            let mut cc = cctx.codec(&address).unwrap();
            let (w, _) = encode_all(&mut cc, vec![BytesMut::from(&b"x"[..])]).unwrap();
            let id = match proto {
                Proto::Vmess(_) => {
                    let mut x = w[..16].to_vec();
                    x.extend_from_slice(&w[34..42]);
                    x
                }
                _ => w[..proto.key_len()].to_vec(),
            };
            v.push(format!("{}:{}", proto.short(), hex(&id)));
        }
        if matches!(proto, Proto::Ss22(_)) {
            let uctx = real::ClientUdpCtx::new(&cred).unwrap();
            for _ in 0..4 {
                let cc = uctx.codec();
                v.push(format!("{}:udp-sid:{:016x}", proto.short(), cc.session().client_sid));
            }
        }
        // per-datagram randomness: the salt of a classic datagram, the 24-byte nonce of a 2022 ChaCha datagram
        let per_datagram = match proto {
            Proto::SsLegacy(l) => Some(l.key_len()),
            Proto::Ss22(c) if !c.is_aes() => Some(24),
            _ => None,
        };
        if let Some(n) = per_datagram {
            let uctx = real::ClientUdpCtx::new(&cred).unwrap();
            let mut cc = uctx.codec();
            for _ in 0..4 {
                let mut w = BytesMut::new();
                if cc.encode(b"x", address.clone(), &mut w).is_ok() && w.len() >= n {
                    v.push(format!("{}:udp-datagram:{}", proto.short(), hex(&w[..n])));
                }
            }
        }
    }
    v
}

fn freshness_and_bias(ctx: &PropCtx) {
    let sub = "freshness";
    let exe = std::env::current_exe().expect("current exe");
    let run = || -> Vec<String> {
        let o = std::process::Command::new(&exe).arg("emit-randomness").output().expect("spawn emit-randomness");
        String::from_utf8_lossy(&o.stdout).lines().map(|s| s.to_string()).collect()
    };
    let a = run();
    let b = run();
    let mut out = Outcome::new();
    out.weight = (a.len() + b.len()) as u64;
    out.nontrivial("two-fresh-processes");
    out.label("cross-process");
    if a.is_empty() || b.is_empty() {
        eprintln!("[C12] emit-randomness child produced no output");
        std::process::exit(2);
    }
    if let Some(dup) = a.iter().find(|x| b.contains(x)) {
        out.fail("freshness/randomness-repeats-across-processes", format!("two fresh processes both produced {}", dup));
    }
    let mut all = a.clone();
    all.extend(b.clone());
    let mut sorted = all.clone();
    sorted.sort();
    sorted.dedup();
    if sorted.len() != all.len() && out.fail.is_none() {
        out.fail("freshness/randomness-repeats-within-a-process", "a salt / auth-id / session id was produced twice");
    }
    match &out.fail {
        Some(f) => ctx.violation(sub, &serde_json::json!({"a": a, "b": b}), f),
        None => ctx.record(sub, || serde_json::json!({"first_process": &a[..4.min(a.len())], "second_process": &b[..4.min(b.len())]}), &out),
    }
    // threads of one process: every worker thread of the runtime creates sessions; what one thread draws must not be what
    // another thread draws
    {
        let per_thread: Vec<Vec<String>> = std::thread::scope(|sc| {
            let hs: Vec<_> = (0..6).map(|_| sc.spawn(emit_randomness)).collect();
            hs.into_iter().map(|h| h.join().unwrap_or_default()).collect()
        });
        let mut out = Outcome::new();
        out.weight = per_thread.iter().map(|v| v.len()).sum::<usize>() as u64;
        out.nontrivial("six-threads-of-one-process");
        out.label("cross-thread");
        let mut seen: HashMap<&String, usize> = HashMap::new();
        'outer: for (t, v) in per_thread.iter().enumerate() {
            for x in v {
                if let Some(prev) = seen.insert(x, t) {
                    out.fail("freshness/randomness-repeats-across-threads", format!("threads {} and {} of one process both produced {}", prev, t, x));
                    break 'outer;
                }
            }
        }
        match &out.fail {
            Some(f) => ctx.violation(sub, &serde_json::json!({"per_thread": per_thread}), f),
            None => ctx.record(sub, || serde_json::json!({"threads": 6, "values_per_thread": per_thread[0].len(), "first": &per_thread[0][..3.min(per_thread[0].len())]}), &out),
        }
    }
    // crude bias screen: per-bit frequency over 4096 salts of one cipher must be within [0.4, 0.6] (12 sigma)
    real::set_clock(Some(T0));
    let cred = gen::make_cred(Proto::Ss22(ss2022::C22::Aes256), "", 3, 0, 0);
    let cctx = ClientCtx::new(&cred).unwrap();
    let address = to_address(&Addr::V4([1, 1, 1, 1], 80)).unwrap();
    let mut counts = [0u32; 256];
    let n = 4096;
    for _ in 0..n {
        let mut cc = cctx.codec(&address).unwrap();
        let (w, _) = encode_all(&mut cc, vec![BytesMut::from(&b"x"[..])]).unwrap();
        for (i, c) in counts.iter_mut().enumerate() {
            if w[i / 8] & (1 << (i % 8)) != 0 {
                *c += 1;
            }
        }
    }
    let mut out = Outcome::new();
    out.weight = n as u64;
    out.nontrivial("bias-screen-4096-salts");
    out.label("bias-screen");
    if let Some((i, c)) = counts.iter().enumerate().find(|(_, c)| (**c as f64) < 0.4 * n as f64 || (**c as f64) > 0.6 * n as f64) {
        out.fail("freshness/salt-bit-biased", format!("bit {} of the salt is set in {} of {} fresh sessions", i, c, n));
    }
    match &out.fail {
        Some(f) => ctx.violation(sub, &serde_json::json!({"counts": counts.to_vec()}), f),
        None => ctx.record(sub, || serde_json::json!({"salts": n, "min_count": counts.iter().min(), "max_count": counts.iter().max()}), &out),
    }
}

pub fn subs() -> Vec<Box<dyn DynSub>> {
    vec![Box::new(TcpHistory), Box::new(UdpHistory), Box::new(ServerUdpSessions)]
}

pub fn run(ctx: &mut PropCtx) {
    ctx.rule = "histories of 1..12 (thorough: 1..40) sessions created in one process, each with generated writes in both directions (occasionally \
                > 256 chunks in one direction), are encoded by the real client and server codecs; the reference decoder recomputes from the \
                wire plus the configured secret the (key, nonce) of every sealed unit - a unit only opens if the implementation used \
                exactly that pair - and the multiset of pairs over the whole history must contain no duplicate (VMess' protocol-defined \
                authenticated-length coincidence across directions and the 16-bit counter width are exempt, as the property says). Salts, \
                VMess body key/IV, auth-id+connection-nonce and UDP session ids must be pairwise distinct; UDP packet ids strictly \
                increase, and a session started a few ids below u64::MAX (hook) must stop rather than wrap. Two fresh child processes must \
                not produce a common salt / auth-id / session id; per-bit frequency of 4096 salts within [0.4, 0.6]. Non-trivial = >= 2 \
                sessions and >= 2 units in a direction; distinct by (protocol, cipher, session count, unit-count class)."
        .into();
    ctx.assumptions = vec!["unpredictability itself is beyond this technique: only distinctness, cross-process freshness and a coarse bias screen are tested".into()];
    let t = ctx.tier;
    rt::run_sub(ctx, &TcpHistory, t.pick(3_000, 60_000));
    rt::run_sub(ctx, &UdpHistory, t.pick(6_000, 100_000));
    rt::run_sub(ctx, &ServerUdpSessions, t.pick(40, 600));
    freshness_and_bias(ctx);
}
