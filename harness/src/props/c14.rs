//! C14 – Addresses survive encoding exactly or are refused.
use crate::drive::{encode_all, feed_server, flow_of, Flow};
use crate::ev::{Outcome, PropCtx, Tier};
use crate::gen::{self, T0};
use crate::props::c03::{brief_flow, family};
use crate::real::{self, from_address, to_address, ClientCtx, Proto, ServerCtx};
use crate::refimpl::{socks5, Addr};
use crate::rt::{self, catch, DynSub, SubCheck};
use bytes::BytesMut;
use octo_squirrel::protocol::address::Address;
use octo_squirrel::protocol::socks5::address as s5addr;
use octo_squirrel::protocol::socks5::codec::{Socks5CommandRequestDecoder, Socks5UdpCodec};
use octo_squirrel::protocol::vmess::address as vaddr;
use octo_squirrel_client::client::verif::{recognize_http, Proxy};
use proptest::prelude::*;
use proptest::strategy::BoxedStrategy;
use serde::{Deserialize, Serialize};
use tokio_util::codec::Decoder;

fn name_len() -> BoxedStrategy<usize> {
    prop_oneof![
        4 => proptest::sample::select(vec![0usize, 1, 2, 63, 64, 127, 128, 253, 254, 255, 256, 257, 300, 511, 512, 1024]),
        3 => 1usize..64,
        2 => 64usize..256,
        1 => 256usize..1025,
    ]
    .boxed()
}

/// Name bytes of exactly `n` bytes: kind 0 = LDH, 1 = UTF-8 with multi-byte characters, 2 = arbitrary bytes.
pub fn name_bytes(n: usize, kind: u8, seed: u64) -> Vec<u8> {
    let mut d = gen::Det::new(seed, "name");
    match kind % 3 {
        0 => (0..n).map(|i| if i % 30 == 29 && i + 1 < n { b'.' } else { b"abcdefghijklmnopqrstuvwxyz0123456789-"[d.below(if i == 0 || i + 1 == n { 36 } else { 37 }) as usize] }).collect(),
        1 => {
            let mut s = String::new();
            let pool = ['é', 'ß', '中', '文', 'a', 'z', '0', 'ü', '𝔘', 'я'];
            while s.len() < n {
                let c = pool[d.below(pool.len() as u64) as usize];
                if s.len() + c.len_utf8() <= n {
                    s.push(c);
                } else {
                    s.push('x');
                }
            }
            s.into_bytes()
        }
        _ => d.bytes(n),
    }
}

// ---------------------------------------------------------------------------------------- codec round trip

#[derive(Clone, Debug, Serialize, Deserialize)]
pub struct RtCase {
    pub addr: Addr,
    pub tail: Vec<u8>,
}

pub struct CodecRoundTrip;

impl SubCheck for CodecRoundTrip {
    type Case = RtCase;
    fn name(&self) -> &'static str {
        "codec-roundtrip"
    }
    fn strategy(&self, _tier: Tier) -> BoxedStrategy<RtCase> {
        let port = prop_oneof![3 => any::<u16>(), 1 => proptest::sample::select(vec![0u16, 80, 443, 65535])];
        let name = (1usize..=255, 0u8..2, any::<u64>()).prop_map(|(n, k, s)| name_bytes(n, k, s));
        let addr = prop_oneof![
            2 => (any::<u64>(), port.clone()).prop_map(|(a, p)| Addr::V4(gen::v4_from(a), p)),
            3 => (any::<u64>(), port.clone()).prop_map(|(a, p)| Addr::V6(gen::v6_from(a), p)),
            5 => (name, port).prop_map(|(n, p)| Addr::Name(n, p)),
        ];
        (addr, proptest::collection::vec(any::<u8>(), 0..40)).prop_map(|(addr, tail)| RtCase { addr, tail }).boxed()
    }
    fn exec(&self, c: &RtCase) -> Outcome {
        let mut out = Outcome::new();
        let Some(address) = to_address(&c.addr) else { return out };
        out.label(format!("addr:{}", c.addr.kind()));
        if let Addr::Name(n, _) = &c.addr {
            if n.is_empty() {
                // the VMess-style encoder's own refusal of the empty name (nothing may be written)
                out.nontrivial(format!("empty-name|{}", c.addr.port() % 7));
                match catch(|| {
                    let mut buf = BytesMut::new();
                    let w = vaddr::write_address_port(&address, &mut buf);
                    (w.is_ok(), buf.len())
                }) {
                    Err(_) => {} // a panic is a refusal here; C07 reports it
                    Ok((ok, n)) => {
                        if ok || n > 0 {
                            out.fail("codec-roundtrip/vmess-style/empty-name-not-refused", format!("write_address_port accepted an empty name (ok={}, {} bytes written)", ok, n));
                        }
                    }
                }
                return out;
            }
        }
        let edge = match &c.addr {
            Addr::Name(n, _) => matches!(n.len(), 1 | 2 | 254 | 255) || n.iter().any(|b| *b >= 0x80),
            Addr::V6(..) => true,
            _ => false,
        };
        if edge || !c.tail.is_empty() {
            let nl = if let Addr::Name(n, _) = &c.addr { n.len() } else { 0 };
            out.nontrivial(format!("{}|{}|{}|{}", c.addr.kind(), nl, c.tail.len().min(3), c.addr.port() % 7));
        }
        // SOCKS5-style
        let r = catch(|| {
            let mut buf = BytesMut::new();
            s5addr::encode(&address, &mut buf);
            let enc_len = buf.len();
            let declared = s5addr::length(&address);
            let probed = s5addr::try_decode_at(&buf, 0);
            buf.extend_from_slice(&c.tail);
            let dec = s5addr::decode(&mut buf);
            (enc_len, declared, probed.ok(), dec.map(|a| from_address(&a)).map_err(|e| e.to_string()), buf.to_vec())
        });
        match r {
            Err(p) => {
                out.fail("codec-roundtrip/socks5-style/panic", p);
                return out;
            }
            Ok((enc_len, declared, probed, dec, rest)) => {
                let want_len = c.addr.socks().len();
                if enc_len != want_len || declared != want_len || probed != Some(want_len) {
                    out.fail("codec-roundtrip/socks5-style/length-functions-disagree", format!("{:?}: encoded {} bytes, length() says {}, try_decode_at says {:?}, reference {}", c.addr, enc_len, declared, probed, want_len));
                    return out;
                }
                if dec.as_ref() != Ok(&c.addr) || rest != c.tail {
                    out.fail("codec-roundtrip/socks5-style/decode-differs-or-consumes-wrong-length", format!("{:?} + {} tail bytes decoded to {:?} with {} bytes left", c.addr, c.tail.len(), dec, rest.len()));
                    return out;
                }
            }
        }
        // VMess-style
        let r = catch(|| {
            let mut buf = BytesMut::new();
            let w = vaddr::write_address_port(&address, &mut buf);
            let enc = buf.to_vec();
            buf.extend_from_slice(&c.tail);
            let mut b = buf.freeze();
            let dec = vaddr::read_address_port(&mut b);
            (w.is_ok(), enc, dec.map(|a| from_address(&a)).map_err(|e| e.to_string()), b.to_vec())
        });
        match r {
            Err(p) => {
                out.fail("codec-roundtrip/vmess-style/panic", p);
            }
            Ok((wrote, enc, dec, rest)) => {
                if !wrote || enc != c.addr.vmess() {
                    out.fail("codec-roundtrip/vmess-style/encoding-differs-from-reference", format!("{:?}: wrote={} {} bytes vs reference {} bytes", c.addr, wrote, enc.len(), c.addr.vmess().len()));
                } else if dec.as_ref() != Ok(&c.addr) || rest != c.tail {
                    out.fail("codec-roundtrip/vmess-style/decode-differs-or-consumes-wrong-length", format!("{:?} + {} tail bytes decoded to {:?} with {} bytes left", c.addr, c.tail.len(), dec, rest.len()));
                }
            }
        }
        out
    }
}

// ---------------------------------------------------------------------------------------- what the client accepts

#[derive(Clone, Debug, Serialize, Deserialize)]
pub enum Source {
    /// SOCKS5 CONNECT request with a domain of these raw bytes
    Socks5Name(usize, u8),
    Socks5Ip(bool),
    /// HTTP CONNECT host:port
    HttpConnect(usize, u8),
    /// absolute-form http://host[:port]/
    HttpAbsolute(usize, u8, bool),
    /// SOCKS5-UDP datagram header (goes to the Shadowsocks UDP client path)
    Socks5Udp(usize, u8),
}

#[derive(Clone, Debug, Serialize, Deserialize)]
pub struct AcceptCase {
    pub source: Source,
    pub port: u16,
    pub seed: u64,
    pub payload: u16,
}

pub struct AcceptedTransmission;

impl SubCheck for AcceptedTransmission {
    type Case = AcceptCase;
    fn name(&self) -> &'static str {
        "accepted-address-transmission"
    }
    fn strategy(&self, _tier: Tier) -> BoxedStrategy<AcceptCase> {
        let src = prop_oneof![
            4 => (name_len().prop_map(|n| n.min(255)), 0u8..3).prop_map(|(n, k)| Source::Socks5Name(n, k)),
            2 => any::<bool>().prop_map(Source::Socks5Ip),
            3 => (name_len(), 0u8..2).prop_map(|(n, k)| Source::HttpConnect(n, k)),
            3 => (name_len(), 0u8..2, any::<bool>()).prop_map(|(n, k, p)| Source::HttpAbsolute(n, k, p)),
            2 => (name_len().prop_map(|n| n.min(255)), 0u8..3).prop_map(|(n, k)| Source::Socks5Udp(n, k)),
        ];
        (src, any::<u16>(), any::<u64>(), 1u16..200).prop_map(|(source, port, seed, payload)| AcceptCase { source, port, seed, payload }).boxed()
    }
    fn exec(&self, c: &AcceptCase) -> Outcome {
        let mut out = Outcome::new();
        real::set_clock(Some(T0));
        // 1. obtain the address the way the client obtains it
        let (requested_name_len, accepted): (usize, Result<Option<Address>, String>) = match &c.source {
            Source::Socks5Name(n, k) => {
                let name = name_bytes(*n, *k, c.seed);
                let mut wire = vec![5u8, 1, 0, 3, name.len() as u8];
                wire.extend_from_slice(&name);
                wire.extend_from_slice(&c.port.to_be_bytes());
                let mut buf = BytesMut::from(&wire[..]);
                (*n, catch(|| Socks5CommandRequestDecoder.decode(&mut buf).ok().flatten().map(|r| r.dst_addr)))
            }
            Source::Socks5Ip(v6) => {
                let a = if *v6 { Addr::V6(gen::v6_from(c.seed), c.port) } else { Addr::V4(gen::v4_from(c.seed), c.port) };
                let wire = socks5::request(1, &a);
                let mut buf = BytesMut::from(&wire[..]);
                (0, catch(|| Socks5CommandRequestDecoder.decode(&mut buf).ok().flatten().map(|r| r.dst_addr)))
            }
            Source::HttpConnect(n, k) => {
                let name = String::from_utf8(name_bytes(*n, *k, c.seed)).unwrap_or_default();
                let target = format!("{}:{}", name, c.port);
                (*n, catch(|| match recognize_http("CONNECT", &target) {
                    Ok(Proxy::Https(a)) => Some(a),
                    _ => None,
                }))
            }
            Source::HttpAbsolute(n, k, with_port) => {
                let name = String::from_utf8(name_bytes(*n, *k, c.seed)).unwrap_or_default();
                let target = if *with_port { format!("http://{}:{}/index.html", name, c.port) } else { format!("http://{}/", name) };
                (*n, catch(|| match recognize_http("GET", &target) {
                    Ok(Proxy::Http(a)) => Some(a),
                    _ => None,
                }))
            }
            Source::Socks5Udp(n, k) => {
                let name = name_bytes(*n, *k, c.seed);
                let mut wire = vec![0u8, 0, 0, 3, name.len() as u8];
                wire.extend_from_slice(&name);
                wire.extend_from_slice(&c.port.to_be_bytes());
                wire.extend_from_slice(b"payload");
                let mut buf = BytesMut::from(&wire[..]);
                (*n, catch(|| Socks5UdpCodec.decode(&mut buf).ok().flatten().map(|(_, a)| a)))
            }
        };
        out.label(format!(
            "source:{}",
            match &c.source {
                Source::Socks5Name(..) => "socks5-name",
                Source::Socks5Ip(..) => "socks5-ip",
                Source::HttpConnect(..) => "http-connect",
                Source::HttpAbsolute(..) => "http-absolute",
                Source::Socks5Udp(..) => "socks5-udp",
            }
        ));
        let len_class = match requested_name_len {
            0 => "0",
            1 => "1",
            2..=254 => "2-254",
            255 => "255",
            256..=257 => "256-257",
            _ => ">257",
        };
        let accepted = match accepted {
            Err(_) => {
                out.label("local-decoder-panicked (refusal; C07 reports it)");
                return out;
            }
            Ok(None) => {
                out.label(format!("refused-by-local-handshake len:{}", len_class));
                if requested_name_len == 0 || requested_name_len > 255 {
                    out.nontrivial(format!("refused|{:?}|{}", std::mem::discriminant(&c.source), len_class));
                }
                return out;
            }
            Ok(Some(a)) => a,
        };
        out.label(format!("accepted len:{}", len_class));
        let want = from_address(&accepted);
        if let Addr::Name(n, _) = &want {
            if n.is_empty() || n.len() > 255 {
                out.fail(
                    "accepted-address-transmission/local-handshake-accepts-unrepresentable-name",
                    format!("the local handshake accepted a target name of {} bytes ({:?}); neither address encoding can represent it, it must be refused before anything is sent", n.len(), c.source),
                );
                return out;
            }
        }
        if let (Source::Socks5Ip(true), Addr::V6(a, _)) = (&c.source, &want) {
            if a[..10] == [0u8; 10] {
                out.label("ipv6-with-zero-upper-bits");
                out.nontrivial(format!("accepted|v6-special|{}", c.seed % 12));
            }
        }
        if !matches!(c.source, Source::Socks5Ip(..)) {
            out.nontrivial(format!("accepted|{:?}|{}|{}", std::mem::discriminant(&c.source), len_class, c.seed % 5));
        }
        let payload = gen::keystream(c.seed, 0, c.payload as usize);
        // 2. push it through every client codec's first encode and the matching server decoder
        if let Source::Socks5Udp(..) = c.source {
            for proto in Proto::all().into_iter().filter(|p| matches!(p, Proto::SsLegacy(_) | Proto::Ss22(_))) {
                let cred = gen::make_cred(proto, "pw", c.seed, 0, 0);
                let Ok(cctx) = real::ClientUdpCtx::new(&cred) else { continue };
                let Ok(sudp) = real::server_udp(&cred) else { continue };
                let mut cc = cctx.codec();
                let mut wire = BytesMut::new();
                match catch(|| cc.encode(&payload, accepted.clone(), &mut wire)) {
                    Err(_) | Ok(Err(_)) => {
                        if !wire.is_empty() {
                            out.fail(format!("accepted-address-transmission/{}/udp-refusal-after-bytes-were-produced", family(proto)), format!("{:?}: encode failed but left {} bytes in the output", want, wire.len()));
                            return out;
                        }
                        continue;
                    }
                    Ok(Ok(())) => {}
                }
                let mut src = BytesMut::from(&wire[..]);
                match catch(|| sudp.decode(&mut src)) {
                    Ok(Ok(Some((content, a, _)))) if from_address(&a) == want && content == payload => {}
                    other => {
                        out.fail(
                            format!("accepted-address-transmission/{}/udp-address-or-payload-differs", family(proto)),
                            format!("client accepted {:?}; server decoded {:?}", want, other.map(|o| o.map(|x| x.map(|(c, a, _)| (c.len(), from_address(&a)))).map_err(|e| e.to_string()))),
                        );
                        return out;
                    }
                }
            }
            return out;
        }
        for proto in [Proto::SsLegacy(crate::refimpl::ss::Legacy::Aes128Gcm), Proto::Ss22(crate::refimpl::ss2022::C22::Aes256), Proto::Ss22(crate::refimpl::ss2022::C22::ChaCha20), Proto::Vmess(3), Proto::Trojan] {
            let cred = gen::make_cred(proto, "pw", c.seed, 0, 0);
            let Ok(cctx) = ClientCtx::new(&cred) else { continue };
            let Ok(sctx) = ServerCtx::new(&cred) else { continue };
            let mut cc = match catch(|| cctx.codec(&accepted)) {
                Ok(Ok(cc)) => cc,
                _ => continue, // refused by the constructor: nothing was sent
            };
            let wire = match encode_all(&mut cc, vec![BytesMut::from(&payload[..])]) {
                Ok((w, _)) => w,
                Err(_) => continue, // refused by the first encode (encode_all returns the error before anything is usable)
            };
            let mut sc = sctx.codec().unwrap();
            let (items, _, fed) = feed_server(&mut sc, &[wire.clone()]);
            match flow_of(&items) {
                Flow::Tcp { addr, bytes } if addr == want && bytes == payload && fed.clean() => {}
                other => {
                    let what = match &other {
                        Flow::Tcp { addr, .. } if *addr != want => "server-decodes-a-different-address",
                        Flow::Tcp { .. } => "address-bytes-leak-into-or-eat-the-payload",
                        _ => "server-does-not-decode-the-request",
                    };
                    out.fail(
                        format!("accepted-address-transmission/{}/{}", family(proto), what),
                        format!("client accepted {:?} ({} name bytes requested) with {} payload bytes; server flow {} err={:?} panic={:?}", want, requested_name_len, payload.len(), brief_flow(&other), fed.err, fed.panic),
                    );
                    return out;
                }
            }
        }
        out
    }
}

pub fn subs() -> Vec<Box<dyn DynSub>> {
    vec![Box::new(CodecRoundTrip), Box::new(AcceptedTransmission)]
}

pub fn run(ctx: &mut PropCtx) {
    ctx.rule = "codec-roundtrip: for every representable address (IPv4, IPv6, names of 1..255 bytes incl. multi-byte UTF-8; all ports) followed \
                by an arbitrary tail, decode(encode(a) ++ tail) == (a, tail) in the SOCKS5-style and VMess-style encodings, the encodings \
                equal the reference's bytes, and length()/try_decode_at() agree. accepted-address-transmission: addresses are obtained the \
                way the client obtains them - the real SOCKS5 request decoder, the real SOCKS5-UDP decoder and the real HTTP authority \
                extraction on generated requests with names of 0..1024 bytes (LDH, multi-byte UTF-8, arbitrary bytes) - and every accepted \
                address is pushed through each real client codec's first encode (Shadowsocks AEAD / 2022, VMess, Trojan; Shadowsocks UDP) \
                and the matching real server decoder, which must yield the identical address and the payload byte for byte; otherwise \
                the client side must have refused before producing any byte. Non-trivial = name length in {0, 1, 255, 256..}, non-LDH \
                content, IPv6, or a non-empty tail."
        .into();
    ctx.assumptions = vec!["a panic in a local decoder counts as a refusal here and is reported by C07".into()];
    let t = ctx.tier;
    rt::run_sub(ctx, &CodecRoundTrip, t.pick(300_000, 10_000_000));
    rt::run_list(
        ctx,
        &CodecRoundTrip,
        "empty-name-refusal",
        [0u16, 1, 53, 80, 443, 8080, 65535].iter().map(|p| RtCase { addr: Addr::Name(vec![], *p), tail: vec![1, 2, 3] }).collect(),
    );
    rt::run_sub(ctx, &AcceptedTransmission, t.pick(60_000, 1_500_000));
}
