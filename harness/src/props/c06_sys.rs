//! C06 system half (Engine B): filled in with the system engine.
use crate::ev::PropCtx;
use crate::rt::DynSub;

pub fn subs() -> Vec<Box<dyn DynSub>> {
    vec![]
}

pub fn run(_ctx: &mut PropCtx) {}
