//! C06 system half (Engine B): the *running* server.
//!  * `running-server`: peers that do not hold the configured credential (another credential of the same protocol, an
//!    unregistered user behind the right server key, the server key alone, random bytes, a valid handshake cut before the
//!    credential is proven) talk to the real server process, over TCP and over UDP; the scripted target they name must
//!    never be contacted, while a reference client that holds the credential is served before and after.
//!  * `shared-session-id`: several registered users of one Shadowsocks 2022 UDP server use the *same* client session id
//!    (the id is chosen by the client and visible to every holder of the server key). Each user's datagrams must be
//!    answered to that user's own socket, under that user's key, and never to or under another's.
use crate::ev::{Outcome, PropCtx, Tier};
use crate::gen::Det;
use crate::real::{Cred, Proto};
use crate::refimpl::ss2022::{self, C22};
use crate::refimpl::Addr;
use crate::refside::{self, ReqOpts};
use crate::rt::{self, DynSub, SubCheck};
use crate::sys::cluster::{Cluster, Spec, Transport};
use crate::sys::net::{reply_for, UdpTarget};
use crate::sys::refpeer::{now_secs, ref_tcp_roundtrip, RefUdpClient};
use proptest::prelude::*;
use proptest::strategy::BoxedStrategy;
use serde::{Deserialize, Serialize};
use std::io::Write;
use std::net::{Ipv4Addr, SocketAddr, SocketAddrV4, TcpListener, TcpStream};
use std::time::{Duration, Instant};

#[derive(Clone, Debug, Serialize, Deserialize)]
pub enum Intruder {
    /// a complete, well-formed handshake under an entirely different credential of the same protocol
    OtherCredential,
    /// right server key, user key that is not in the table (2022 AES with users; VMess: an unregistered UUID)
    UnregisteredUser,
    /// the server key alone, no identity header (2022 AES with users)
    ServerKeyOnly,
    /// random bytes
    Random(u16),
    /// a valid handshake under the right credential, cut after this many bytes (1..=30: before any credential is proven)
    Truncated(u8),
}

#[derive(Clone, Debug, Serialize, Deserialize)]
pub struct RunningCase {
    pub proto: Proto,
    pub n_users: u8,
    pub seed: u64,
    pub udp: bool,
    pub intruders: Vec<Intruder>,
}

pub struct RunningServer;

fn is_ss(p: Proto) -> bool {
    matches!(p, Proto::SsLegacy(_) | Proto::Ss22(_))
}

/// The intruder's credential, or None when the kind does not apply to this configuration.
fn intruder_cred(spec: &Spec, real: &Cred, k: &Intruder) -> Option<Cred> {
    match k {
        Intruder::OtherCredential => {
            let mut s2 = spec.clone();
            s2.seed = spec.seed ^ 0x5a5a_5a5a;
            Some(s2.cred())
        }
        Intruder::UnregisteredUser => {
            let mut s2 = spec.clone();
            s2.seed = spec.seed ^ 0x0f0f_0f0f;
            let other = s2.cred();
            match spec.proto {
                Proto::Ss22(c) if c.is_aes() && !real.users.is_empty() => {
                    let upsk = other.users.first()?.1.clone();
                    let mut cr = real.clone();
                    cr.client_password = Some(format!("{}:{}", real.password, upsk));
                    Some(cr)
                }
                Proto::Vmess(_) => {
                    let mut cr = real.clone();
                    cr.client_password = Some(other.users.first()?.1.clone());
                    Some(cr)
                }
                _ => None,
            }
        }
        Intruder::ServerKeyOnly => match spec.proto {
            Proto::Ss22(c) if c.is_aes() && !real.users.is_empty() => {
                let mut cr = real.clone();
                cr.client_password = Some(real.password.clone());
                Some(cr)
            }
            _ => None,
        },
        Intruder::Random(_) | Intruder::Truncated(_) => Some(real.clone()),
    }
}

fn tcp_listener() -> (TcpListener, u16) {
    let l = TcpListener::bind(SocketAddrV4::new(Ipv4Addr::LOCALHOST, 0)).expect("harness: bind");
    let p = l.local_addr().expect("harness: local_addr").port();
    l.set_nonblocking(true).ok();
    (l, p)
}

impl SubCheck for RunningServer {
    type Case = RunningCase;
    fn name(&self) -> &'static str {
        "running-server"
    }
    fn strategy(&self, _tier: Tier) -> BoxedStrategy<RunningCase> {
        let kind = prop_oneof![
            3 => Just(Intruder::OtherCredential),
            3 => Just(Intruder::UnregisteredUser),
            2 => Just(Intruder::ServerKeyOnly),
            2 => (1u16..2000).prop_map(Intruder::Random),
            2 => (1u8..=30).prop_map(Intruder::Truncated),
        ];
        (crate::gen::proto_strategy(), 0u8..4, 1u64..1_000_000, any::<bool>(), proptest::collection::vec(kind, 1..6))
            .prop_map(|(proto, n_users, seed, udp, intruders)| RunningCase { proto, n_users, seed, udp: udp && is_ss(proto), intruders })
            .boxed()
    }
    fn workers(&self) -> usize {
        (rt::threads() / 2).clamp(1, 8)
    }
    fn max_shrink_iters(&self) -> u32 {
        20
    }
    fn confirm_runs(&self) -> u32 {
        2
    }
    fn exec(&self, c: &RunningCase) -> Outcome {
        let mut out = Outcome::new();
        let mut spec = Spec::new(c.proto, Transport::Tcp);
        spec.udp = c.udp;
        spec.n_users = c.n_users;
        spec.user = (c.seed % 5) as u8;
        spec.seed = c.seed;
        spec.workers = 2 + (c.seed % 4) as u8;
        let mut cl = match Cluster::start(&spec) {
            Ok(cl) => cl,
            Err(_) => return out, // start-up is C16's business
        };
        out.label(format!("proto:{}", c.proto.short()));
        out.label(if c.udp { "datagrams" } else { "streams" });
        let deadline = Duration::from_secs(if rt::failed_already() { 3 } else { 10 });
        // the holder of the credential is served (otherwise "nobody is served" would satisfy the oracle)
        let control = |cl: &Cluster, tag: u8| -> Result<(), String> {
            if c.udp {
                let t = UdpTarget::spawn(tag, true);
                let rc = RefUdpClient::new(&cl.cred, cl.server_port, 0xc060_0000_0000_0000 ^ (c.seed << 8) ^ tag as u64)?;
                let payload = format!("control-{}", tag).into_bytes();
                for attempt in 1..=3u64 {
                    rc.send(attempt, &Addr::V4([127, 0, 0, 1], t.port), &payload);
                    let got = rc.recv_all(Duration::from_millis(400));
                    if got.iter().any(|r| matches!(r, Ok((_, _, p)) if *p == reply_for(tag, &payload))) {
                        return Ok(());
                    }
                }
                Err("a reference datagram client that holds the credential got no answer in three attempts".into())
            } else {
                ref_tcp_roundtrip(&cl.cred, cl.server_port, b"control request", b"control answer", deadline)
            }
        };
        if control(&cl, 1).is_err() {
            // C03 / C16 decide whether the credential holder is served; without that this case says nothing
            out.label("control-not-served");
            return out;
        }
        let mut d = Det::new(c.seed, "c06-sys");
        let mut watched: Vec<(String, Option<TcpListener>, Option<UdpTarget>)> = vec![];
        for (i, k) in c.intruders.iter().enumerate() {
            let Some(icred) = intruder_cred(&spec, &cl.cred, k) else { continue };
            let what = format!("{:?}", k);
            if c.udp {
                let t = UdpTarget::spawn(100 + i as u8, true);
                let taddr = Addr::V4([127, 0, 0, 1], t.port);
                let Ok(rc) = RefUdpClient::new(&icred, cl.server_port, 0xbad0_0000_0000_0000 ^ (c.seed << 8) ^ i as u64) else { continue };
                let wire = match k {
                    Intruder::Random(n) => d.bytes(*n as usize),
                    Intruder::Truncated(n) => {
                        let w = rc.build(1, &taddr, b"intruder datagram");
                        w[..(*n as usize).min(w.len().saturating_sub(1))].to_vec()
                    }
                    _ => rc.build(1, &taddr, b"intruder datagram"),
                };
                rc.send_wire(&wire);
                watched.push((what, None, Some(t)));
            } else {
                let (l, port) = tcp_listener();
                let taddr = Addr::V4([127, 0, 0, 1], port);
                let wire = match k {
                    Intruder::Random(n) => d.bytes(*n as usize),
                    _ => {
                        let Ok(f) = refside::ref_client_request(&icred, &taddr, &[b"intruder payload".to_vec()], &ReqOpts::new(now_secs()), &mut d) else { continue };
                        match k {
                            Intruder::Truncated(n) => f.wire[..(*n as usize).min(f.wire.len())].to_vec(),
                            _ => f.wire,
                        }
                    }
                };
                if let Ok(mut s) = TcpStream::connect_timeout(&SocketAddr::V4(SocketAddrV4::new(Ipv4Addr::LOCALHOST, cl.server_port)), deadline) {
                    let _ = s.write_all(&wire);
                    if matches!(k, Intruder::Truncated(_)) || i % 2 == 0 {
                        let _ = s.shutdown(std::net::Shutdown::Write);
                    }
                    // the connection stays open until the verdict
                    watched.push((what, Some(l), None));
                    std::mem::forget(s);
                } else {
                    continue;
                }
            }
        }
        // a second served control flow gives the server the time it needs for a dial, many times over
        let t0 = Instant::now();
        let after = control(&cl, 2);
        while t0.elapsed() < Duration::from_millis(350) {
            std::thread::sleep(Duration::from_millis(10));
        }
        out.weight = watched.len().max(1) as u64;
        for (what, l, t) in &watched {
            let contacted = match (l, t) {
                (Some(l), _) => l.accept().is_ok(),
                (_, Some(t)) => !t.received().is_empty(),
                _ => false,
            };
            if contacted {
                out.fail(
                    format!("running-server/{}/target-contacted-for-a-peer-without-the-credential", crate::props::c03::family(c.proto)),
                    format!("{} ({}): the running server contacted the target named by an intruder of kind {} [{}]\n{}", c.proto.short(), if c.udp { "udp" } else { "tcp" }, what, spec.short(), crate::ev::truncate(&cl.logs(6), 1200)),
                );
                return out;
            }
        }
        if !watched.is_empty() && after.is_ok() {
            let kinds: Vec<String> = watched.iter().map(|(w, _, _)| w.split('(').next().unwrap_or("").to_string()).collect();
            out.nontrivial(format!("{}|{}|{:?}", c.proto.short(), c.udp, kinds));
        }
        if cl.health().is_err() {
            out.label("process-trouble-left-to-C07-C08");
        }
        out
    }
}

// ------------------------------------------------------------------------------------------------ users sharing a session id

#[derive(Clone, Debug, Serialize, Deserialize)]
pub struct SharedSidCase {
    pub cipher: C22,
    pub n_users: u8,
    pub seed: u64,
    /// (user, number of datagrams in this burst); all users use the same client session id
    pub bursts: Vec<(u8, u8)>,
    /// every user counts its packet ids from 1 (they are different sessions: different keys) instead of from disjoint ranges
    pub own_counters: bool,
}

pub struct SharedSessionId;

impl SubCheck for SharedSessionId {
    type Case = SharedSidCase;
    fn name(&self) -> &'static str {
        "shared-session-id"
    }
    fn strategy(&self, _tier: Tier) -> BoxedStrategy<SharedSidCase> {
        (proptest::sample::select(vec![C22::Aes128, C22::Aes256]), 2u8..5, 1u64..1_000_000, proptest::collection::vec((0u8..4, 1u8..4), 2..8), any::<bool>())
            .prop_map(|(cipher, n_users, seed, bursts, own_counters)| SharedSidCase { cipher, n_users, seed, bursts, own_counters })
            .boxed()
    }
    fn workers(&self) -> usize {
        (rt::threads() / 2).clamp(1, 8)
    }
    fn max_shrink_iters(&self) -> u32 {
        20
    }
    fn confirm_runs(&self) -> u32 {
        2
    }
    fn exec(&self, c: &SharedSidCase) -> Outcome {
        let mut out = Outcome::new();
        let mut spec = Spec::new(Proto::Ss22(c.cipher), Transport::Tcp);
        spec.udp = true;
        spec.n_users = c.n_users;
        spec.seed = c.seed;
        spec.workers = 2 + (c.seed % 4) as u8;
        let mut cl = match Cluster::start(&spec) {
            Ok(cl) => cl,
            Err(_) => return out,
        };
        let n = c.n_users as usize;
        let sid = 0x5a4e_0000_0000_0000u64 ^ (c.seed << 8);
        let target = UdpTarget::spawn(7, true);
        let taddr = Addr::V4([127, 0, 0, 1], target.port);
        // one reference client per user, all on the same session id, each on its own socket
        let mut clients: Vec<RefUdpClient> = vec![];
        for u in 0..n {
            let mut s2 = spec.clone();
            s2.user = u as u8;
            match RefUdpClient::new(&s2.cred(), cl.server_port, sid) {
                Ok(rc) => clients.push(rc),
                Err(_) => return out,
            }
        }
        let mut next_pid: Vec<u64> = (0..n).map(|u| if c.own_counters { 1 } else { 1 + 1000 * u as u64 }).collect();
        let mut sent: Vec<Vec<Vec<u8>>> = vec![vec![]; n];
        let mut users_seen = std::collections::BTreeSet::new();
        for (u, k) in &c.bursts {
            let u = *u as usize % n;
            users_seen.insert(u);
            for _ in 0..*k {
                let payload = format!("user{}-dgram{}", u, next_pid[u]).into_bytes();
                clients[u].send(next_pid[u], &taddr, &payload);
                next_pid[u] += 1;
                sent[u].push(payload);
                std::thread::sleep(Duration::from_millis(4));
            }
        }
        std::thread::sleep(Duration::from_millis(if rt::failed_already() { 250 } else { 500 }));
        out.weight = sent.iter().map(|s| s.len()).sum::<usize>().max(1) as u64;
        out.label(format!("proto:ss/{}", c.cipher.name()));
        if users_seen.len() >= 2 {
            out.label("two-or-more-users-on-one-session-id");
            out.nontrivial(format!("{}|{}|{:?}|{}", c.cipher.name(), c.n_users, c.bursts.iter().map(|(u, _)| *u as usize % n).collect::<Vec<_>>(), c.own_counters));
        }
        // what arrived at each user's socket
        let mut answered: Vec<usize> = vec![0; n];
        for u in 0..n {
            let raws = clients[u].recv_raw(Duration::from_millis(150), 64);
            for w in &raws {
                match ss2022::decode_udp_server(c.cipher, &clients[u].keys.client_upsk, w) {
                    Ok(dd) => {
                        let mine = sent[u].iter().any(|p| reply_for(7, p) == dd.pkt.payload);
                        if !mine {
                            out.fail(
                                "shared-session-id/reply-to-another-users-datagram",
                                format!("user {} received, under its own key, the answer to a datagram it never sent: {:?} [{} users on session id {:#x}; bursts {:?}]", u, String::from_utf8_lossy(&dd.pkt.payload), n, sid, c.bursts),
                            );
                            return out;
                        }
                        answered[u] += 1;
                    }
                    Err(_) => {
                        // sealed under whose key?
                        if let Some(v) = (0..n).find(|v| *v != u && ss2022::decode_udp_server(c.cipher, &clients[*v].keys.client_upsk, w).is_ok()) {
                            out.fail(
                                "shared-session-id/answer-under-another-users-key",
                                format!(
                                    "a datagram sealed under user {}'s key was sent to user {}'s socket: {} users use client session id {:#x}, each from its own socket with its own key; bursts (user, count) {:?}\n{}",
                                    v,
                                    u,
                                    n,
                                    sid,
                                    c.bursts,
                                    crate::ev::truncate(&cl.logs(4), 800)
                                ),
                            );
                            return out;
                        }
                        // opens under nobody's key: C03's business
                    }
                }
            }
        }
        // each user that sent is served at all (loss alone is tolerated: one answer per user suffices; confirmed by re-running)
        if !out.failed() {
            if let Some(u) = (0..n).find(|u| !sent[*u].is_empty() && answered[*u] == 0) {
                // retry with fresh ids before calling it non-delivery
                let mut ok = false;
                for _ in 0..3 {
                    let payload = format!("user{}-retry{}", u, next_pid[u]).into_bytes();
                    clients[u].send(next_pid[u], &taddr, &payload);
                    next_pid[u] += 1;
                    let got = clients[u].recv_raw(Duration::from_millis(400), 4);
                    if got.iter().any(|w| ss2022::decode_udp_server(c.cipher, &clients[u].keys.client_upsk, w).map(|dd| dd.pkt.payload == reply_for(7, &payload)).unwrap_or(false)) {
                        ok = true;
                        break;
                    }
                }
                if !ok {
                    out.fail(
                        "shared-session-id/user-not-served-while-another-user-uses-the-same-session-id",
                        format!("user {} sent {} datagrams and three more with fresh packet ids and got no answer under its key, while other users of the table use the same client session id {:#x}; bursts {:?}\n{}", u, sent[u].len(), sid, c.bursts, crate::ev::truncate(&cl.logs(4), 800)),
                    );
                }
            }
        }
        let _ = cl.health();
        out
    }
}

pub fn subs() -> Vec<Box<dyn DynSub>> {
    vec![Box::new(RunningServer), Box::new(SharedSessionId)]
}

pub fn run(ctx: &mut PropCtx) {
    let t = ctx.tier;
    rt::run_sub(ctx, &RunningServer, t.pick(60, 1200));
    rt::run_sub(ctx, &SharedSessionId, t.pick(24, 600));
}
