//! C11 – Each UDP packet ID is accepted at most once, in any arrival order.
use crate::ev::{Outcome, PropCtx, Tier};
use crate::rt::{self, DynSub, SubCheck};
use octo_squirrel::manager::packet_window::PacketWindowFilter;
use proptest::prelude::*;
use proptest::strategy::BoxedStrategy;
use serde::{Deserialize, Serialize};
use std::collections::BTreeSet;

pub const WINDOW: u64 = 8128;

/// Explicit reference model of the property's statement.
#[derive(Default)]
pub struct Model {
    max: Option<u64>,
    seen: BTreeSet<u64>,
}

impl Model {
    pub fn step(&mut self, id: u64, limit: u64) -> bool {
        if id >= limit {
            return false;
        }
        if self.seen.contains(&id) {
            return false;
        }
        if let Some(m) = self.max {
            if id < m && m - id > WINDOW {
                return false;
            }
        }
        self.seen.insert(id);
        self.max = Some(self.max.map_or(id, |m| m.max(id)));
        true
    }
}

#[derive(Clone, Debug, Serialize, Deserialize)]
pub enum Op {
    /// small absolute id
    Small(u16),
    /// k*64 + off - 1
    Block(u16, u8),
    /// current max + delta (saturating), delta in a range straddling the window edge
    RelMax(i32),
    /// repeat of an earlier id of this history
    Repeat(u16),
    /// u64::MAX - k
    Top(u8),
    /// jump ahead by a large amount
    Jump(u32),
    /// around the ring size relative to max: max - 8192 + off - 1 etc.
    Ring(u8, u8),
    Abs(u64),
    /// the next id in order: current max + 1 (what ordinary traffic looks like)
    #[serde(alias = "Next")]
    Next,
    /// a run of n ids in order (long enough to cross block boundaries)
    Run(u8),
    /// an earlier id of this history plus k laps of the ring (same slot and bit, 8192*k later)
    Alias(u16, u8),
}

#[derive(Clone, Debug, Serialize, Deserialize)]
pub struct History {
    /// 0 => u64::MAX (what both callers pass); otherwise explicit limit
    pub limit: u64,
    /// whether Top/Abs ops may reach the top of the 64-bit range (otherwise they are folded into low ranges, so that
    /// most histories keep exploring the low/middle ranges instead of being pinned at u64::MAX after the first Top)
    #[serde(default)]
    pub top: bool,
    pub ops: Vec<Op>,
}

pub fn concretize(h: &History) -> (u64, Vec<u64>) {
    let limit = if h.limit == 0 { u64::MAX } else { h.limit };
    let mut ids: Vec<u64> = vec![];
    let mut max: u64 = 0;
    for op in &h.ops {
        let id = match op {
            Op::Small(v) => *v as u64,
            Op::Block(k, off) => (*k as u64 * 64 + (*off % 3) as u64).saturating_sub(1),
            Op::RelMax(d) => {
                if *d >= 0 {
                    max.saturating_add(*d as u64)
                } else {
                    max.saturating_sub(d.unsigned_abs() as u64)
                }
            }
            Op::Repeat(i) => {
                if ids.is_empty() {
                    0
                } else {
                    ids[rt::idx(*i, ids.len())]
                }
            }
            Op::Top(k) => {
                if h.top {
                    u64::MAX - *k as u64
                } else {
                    *k as u64
                }
            }
            Op::Jump(j) => max.saturating_add(8192 + *j as u64),
            Op::Ring(w, off) => {
                let base = [8127u64, 8128, 8129, 8191, 8192, 8193, 64, 63, 65, 16256][*w as usize % 10];
                max.saturating_sub(base).saturating_add((*off % 3) as u64).saturating_sub(1)
            }
            Op::Abs(v) => {
                if h.top {
                    *v
                } else {
                    *v % 100_000
                }
            }
            Op::Next => max.saturating_add(1),
            Op::Run(n) => {
                // all but the last id of the run are pushed here, the last one below
                for _ in 1..(*n).max(1) {
                    let id = max.saturating_add(1);
                    ids.push(id);
                    max = max.max(id);
                }
                max.saturating_add(1)
            }
            Op::Alias(i, k) => {
                if ids.is_empty() {
                    8192
                } else {
                    ids[rt::idx(*i, ids.len())].saturating_add(8192 * (1 + (*k % 2) as u64))
                }
            }
        };
        ids.push(id);
        max = max.max(id);
    }
    (limit, ids)
}

pub fn op_strategy_pub() -> BoxedStrategy<Op> {
    op_strategy()
}

fn op_strategy() -> BoxedStrategy<Op> {
    prop_oneof![
        3 => (0u16..200).prop_map(Op::Small),
        2 => (0u16..260, 0u8..3).prop_map(|(k, o)| Op::Block(k, o)),
        4 => prop_oneof![(-8200i32..-8100), (-70i32..70), (-9000i32..1000), (8100i32..8300)].prop_map(Op::RelMax),
        3 => any::<u16>().prop_map(Op::Repeat),
        1 => (0u8..4).prop_map(Op::Top),
        1 => (0u32..100_000).prop_map(Op::Jump),
        3 => (0u8..10, 0u8..3).prop_map(|(w, o)| Op::Ring(w, o)),
        1 => any::<u64>().prop_map(Op::Abs),
        3 => Just(Op::Next),
        2 => (1u8..140).prop_map(Op::Run),
        3 => (any::<u16>(), 0u8..2).prop_map(|(i, k)| Op::Alias(i, k)),
    ]
    .boxed()
}

pub struct FilterModel;

pub fn check_history(sub: &str, limit: u64, ids: &[u64]) -> Outcome {
    let mut out = Outcome::new();
    let mut f = PacketWindowFilter::new();
    let mut m = Model::default();
    let mut bits = String::new();
    let mut rejected_seen = false;
    let mut nontrivial = false;
    let mut classes: BTreeSet<&'static str> = BTreeSet::new();
    for (i, id) in ids.iter().enumerate() {
        let want = m.step(*id, limit);
        let got = f.validate_packet_id(*id, limit);
        if want != got {
            out.fail(
                format!("{}/filter-disagrees-with-model/{}", sub, if got { "accepted-but-model-refuses" } else { "refused-but-model-accepts" }),
                format!("step {}: id {} limit {}: filter={} model={}; history={:?}", i, id, limit, got, want, &ids[..=i]),
            );
            return out;
        }
        bits.push(if want { '1' } else { '0' });
        if !want {
            rejected_seen = true;
        } else if rejected_seen {
            nontrivial = true;
        }
        if *id >= limit {
            classes.insert("at-or-over-limit");
        }
        if *id % 64 == 0 || *id % 64 == 63 {
            classes.insert("block-edge");
        }
        if *id >= u64::MAX - 3 {
            classes.insert("top-of-range");
        }
        if let Some(mx) = m.max {
            if mx >= *id {
                let d = mx - *id;
                if (8127..=8129).contains(&d) {
                    classes.insert("window-edge");
                }
                if (8191..=8193).contains(&d) {
                    classes.insert("ring-wrap");
                }
            }
        }
    }
    out.weight = ids.len() as u64;
    for c in &classes {
        out.label(*c);
    }
    if nontrivial {
        out.label("reject-then-accept");
        let cls: Vec<_> = classes.iter().copied().collect();
        out.nontrivial(format!("{}|{}", bits, cls.join(",")));
    }
    out
}

impl SubCheck for FilterModel {
    type Case = History;
    fn name(&self) -> &'static str {
        "filter-model"
    }
    fn strategy(&self, tier: Tier) -> BoxedStrategy<History> {
        let n = if tier == Tier::Quick { 200 } else { 2000 };
        (prop_oneof![4 => Just(0u64), 1 => any::<u64>(), 1 => (1u64..20000)], proptest::bool::weighted(0.25), proptest::collection::vec(op_strategy(), 1..n))
            .prop_map(|(limit, top, ops)| History { limit, top, ops })
            .boxed()
    }
    fn exec(&self, h: &History) -> Outcome {
        let (limit, ids) = concretize(h);
        check_history("filter-model", limit, &ids)
    }
}

/// Exhaustive small scope: all sequences up to length L over a boundary alphabet.
pub struct FilterExhaustive;

#[derive(Clone, Debug, Serialize, Deserialize)]
pub struct Seq {
    pub limit: u64,
    pub ids: Vec<u64>,
}

pub fn alphabet() -> Vec<u64> {
    let w = WINDOW;
    let mut v = vec![
        0, 1, 2, 62, 63, 64, 65, 127, 128, w - 1, w, w + 1, w + 2, 8190, 8191, 8192, 8193, 8256, 2 * w, 2 * w + 1, 16383, 16384, 16385, 3 * 8192,
        100_000, 100_000 - w, 100_000 - w - 1, 100_000 - 8192, u64::MAX - 8193, u64::MAX - w - 2, u64::MAX - w - 1, u64::MAX - 64, u64::MAX - 2,
        u64::MAX - 1, u64::MAX,
    ];
    v.push(1 << 32);
    v.sort();
    v.dedup();
    v
}

impl SubCheck for FilterExhaustive {
    type Case = Seq;
    fn name(&self) -> &'static str {
        "filter-exhaustive"
    }
    fn strategy(&self, _tier: Tier) -> BoxedStrategy<Seq> {
        let a = alphabet();
        proptest::collection::vec(proptest::sample::select(a), 1..5).prop_map(|ids| Seq { limit: u64::MAX, ids }).boxed()
    }
    fn exec(&self, s: &Seq) -> Outcome {
        check_history("filter-exhaustive", s.limit, &s.ids)
    }
}

fn enumerate(len: usize) -> Vec<Seq> {
    let a = alphabet();
    let mut out = vec![];
    let mut idx = vec![0usize; len];
    loop {
        out.push(Seq { limit: u64::MAX, ids: idx.iter().map(|i| a[*i]).collect() });
        let mut k = len;
        loop {
            if k == 0 {
                return out;
            }
            k -= 1;
            idx[k] += 1;
            if idx[k] < a.len() {
                break;
            }
            idx[k] = 0;
        }
    }
}

// ------------------------------------------------------------------ the client codec and replies of several server sessions

/// The real client datagram codec of one binding decodes a generated history of replies that carry one of up to three
/// server session ids (a restarted server, an expired association, an attacker replaying recorded datagrams of an older
/// session). However the codec treats a change of server session, no reply (server session id, packet id) may be handed to
/// the application twice; with a single server session the accept/refuse decisions must equal the model's.
#[derive(Clone, Debug, Serialize, Deserialize)]
pub struct ReplySessionsCase {
    pub cipher: crate::refimpl::ss2022::C22,
    pub n_users: u8,
    pub seed: u64,
    /// (server session index 0..3, op)
    pub steps: Vec<(u8, Op)>,
    pub sessions: u8,
}

pub struct ReplySessions;

impl SubCheck for ReplySessions {
    type Case = ReplySessionsCase;
    fn name(&self) -> &'static str {
        "client-reply-sessions"
    }
    fn strategy(&self, _tier: Tier) -> BoxedStrategy<ReplySessionsCase> {
        use crate::refimpl::ss2022::C22;
        (proptest::sample::select(C22::ALL.to_vec()), 0u8..3, any::<u64>(), prop_oneof![2 => Just(1u8), 3 => Just(2u8), 1 => Just(3u8)], proptest::collection::vec((0u8..3, op_strategy()), 1..60))
            .prop_map(|(cipher, n_users, seed, sessions, steps)| ReplySessionsCase { cipher, n_users, seed, steps, sessions })
            .boxed()
    }
    fn exec(&self, c: &ReplySessionsCase) -> Outcome {
        use crate::gen::T0;
        use crate::real::{self, Proto};
        use crate::refimpl::Addr;
        let mut out = Outcome::new();
        real::set_clock(Some(T0));
        let n_users = if c.cipher.is_aes() { c.n_users as usize } else { 0 };
        let cred = crate::gen::make_cred(Proto::Ss22(c.cipher), "", c.seed, n_users, 0);
        let Ok(cctx) = real::ClientUdpCtx::new(&cred) else { return out };
        let Ok(sudp) = real::server_udp(&cred) else { return out };
        let mut cc = cctx.codec();
        let target = real::to_address(&Addr::V4([10, 1, 2, 3], 53)).unwrap();
        // one request, so that the server side knows the client's session (and user)
        let mut q = bytes::BytesMut::new();
        if !matches!(rt::catch(|| cc.encode(b"q", target.clone(), &mut q)), Ok(Ok(()))) {
            return out;
        }
        let sess = match rt::catch(|| sudp.decode(&mut q)) {
            Ok(Ok(Some((_, _, s)))) => s,
            _ => return out,
        };
        // concretize the per-session id histories with the same rules as the filter check
        let k = c.sessions.clamp(1, 3) as usize;
        let mut per: Vec<History> = (0..k).map(|_| History { limit: 0, top: false, ops: vec![] }).collect();
        let mut order: Vec<usize> = vec![];
        for (si, op) in &c.steps {
            let si = *si as usize % k;
            per[si].ops.push(op.clone());
            order.push(si);
        }
        let ids: Vec<Vec<u64>> = per.iter().map(|h| concretize(h).1).collect();
        let mut next = vec![0usize; k];
        let mut seen: std::collections::HashSet<(usize, u64)> = Default::default();
        let mut delivered: std::collections::HashSet<(usize, u64)> = Default::default();
        let mut models: Vec<Model> = (0..k).map(|_| Model::default()).collect();
        let mut replays = 0;
        let mut switches = 0;
        let mut last = usize::MAX;
        for (step, si) in order.iter().enumerate() {
            let pid = ids[*si][next[*si]];
            next[*si] += 1;
            if pid == u64::MAX {
                continue; // not a sendable id (the limit both callers pass)
            }
            if last != usize::MAX && last != *si {
                switches += 1;
            }
            last = *si;
            let replay = !seen.insert((*si, pid));
            replays += replay as usize;
            let mut rs = sess.clone();
            rs.server_sid = 0x6b00_0000_0000_0000 | ((c.seed & 0xffff_ffff) << 8) | *si as u64;
            rs.pid = pid;
            let payload = format!("r{}", step).into_bytes();
            let mut w = bytes::BytesMut::new();
            if !matches!(rt::catch(|| sudp.encode(&payload, target.clone(), &rs, &mut w)), Ok(Ok(()))) {
                return out;
            }
            let got = match rt::catch(|| cc.decode(&mut w)) {
                Err(p) => {
                    out.fail("client-reply-sessions/panic", p);
                    return out;
                }
                Ok(Ok(Some((content, _)))) => content == payload,
                _ => false,
            };
            let model = models[*si].step(pid, u64::MAX);
            if got && !delivered.insert((*si, pid)) {
                out.fail(
                    "client-reply-sessions/reply-delivered-twice",
                    format!("step {}: the reply (server session {}, packet id {}) was handed to the application a second time; {} server sessions, history so far {:?}", step, si, pid, k, order[..=step].iter().zip(0..).map(|(s, _)| *s).collect::<Vec<_>>()),
                );
                return out;
            }
            if k == 1 && got != model {
                out.fail(
                    format!("client-reply-sessions/single-session-differs-from-model/{}", if got { "accepted-but-model-refuses" } else { "refused-but-model-accepts" }),
                    format!("step {}: packet id {}: client codec {} it, the model {}", step, pid, if got { "delivered" } else { "refused" }, if model { "accepts" } else { "refuses" }),
                );
                return out;
            }
        }
        out.weight = order.len() as u64;
        out.label(format!("server-sessions:{}", k));
        if replays > 0 {
            out.label("has-replay");
        }
        if replays > 0 && (k == 1 || switches > 0) {
            out.nontrivial(format!("{}|{}|{}|{}", c.cipher.name(), k, replays.min(6), switches.min(6)));
        }
        out
    }
}

pub fn subs() -> Vec<Box<dyn DynSub>> {
    let mut v: Vec<Box<dyn DynSub>> = vec![Box::new(FilterModel), Box::new(FilterExhaustive), Box::new(ReplySessions)];
    v.extend(crate::props::c11_sys::subs());
    v
}

pub fn run(ctx: &mut PropCtx) {
    ctx.rule = "histories of 64-bit packet IDs drawn from a boundary-biased mixture (small ids, multiples of 64 +-1, max-8127/8128/8129, \
                max-8191/8192/8193, jumps > ring, top of range, repeats) are fed to the real PacketWindowFilter and to an explicit \
                {max, set} model; the accept/refuse bit is compared after every step. Non-trivial = the history contains a \
                model-refused ID followed later by a model-accepted ID; distinct by accept/refuse bit-string plus boundary classes hit. \
                The exhaustive sub-check enumerates every sequence up to a fixed length over a boundary alphabet. The system sub-checks \
                replay ID histories through the real server / client over loopback and require exactly the model-accepted datagrams \
                to be delivered and later fresh IDs to keep flowing."
        .into();
    ctx.assumptions = vec!["limit = u64::MAX is what both callers pass; other limits are generated too".into()];
    let n = ctx.tier.pick(40_000, 400_000);
    rt::run_sub(ctx, &FilterModel, n);
    for len in 1..=(if ctx.tier == Tier::Quick { 3 } else { 4 }) {
        rt::run_list(ctx, &FilterExhaustive, "filter-exhaustive", enumerate(len));
    }
    ctx.mark_exhaustive("filter-exhaustive", "every sequence up to the stated length over the boundary alphabet");
    rt::run_sub(ctx, &ReplySessions, ctx.tier.pick(12_000, 150_000));
    crate::props::c11_sys::run(ctx);
}
