//! Running the client's real local handshake (`get_request_addr`) on the accepted end of a real loopback
//! connection while a scripted application plays the other end.
use octo_squirrel::protocol::address::Address;
use octo_squirrel_client::client::verif::get_request_addr;
use serde::{Deserialize, Serialize};
use std::time::{Duration, Instant};
use tokio::io::{AsyncReadExt, AsyncWriteExt};
use tokio::net::{TcpListener, TcpStream};

#[derive(Clone, Debug, Serialize, Deserialize)]
pub enum AppStep {
    Write(Vec<u8>),
    PauseMs(u16),
    /// read exactly n bytes of reply
    ReadExact(u16),
    /// read until the byte pattern has been seen
    ReadUntil(Vec<u8>),
    /// read a SOCKS5 command reply (4 bytes + address by type)
    ReadSocksReply,
    ShutdownWrite,
}

#[derive(Debug, Default)]
pub struct HsOutcome {
    pub result: Option<Result<Address, String>>,
    pub panic: Option<String>,
    /// replies received by the application, one entry per read step (plus a final "rest until EOF")
    pub replies: Vec<Vec<u8>>,
    /// a read step of the application did not complete within its deadline
    pub app_read_timeout: bool,
    /// bytes still readable from the accepted socket after the handshake returned (until EOF)
    pub leftover: Vec<u8>,
    /// handshake future did not complete although the application had sent everything and nothing was left unread
    pub stalled: bool,
    pub elapsed_ms: u128,
}

const STEP_DEADLINE: Duration = Duration::from_secs(4);

async fn app(mut s: TcpStream, steps: Vec<AppStep>) -> (Vec<Vec<u8>>, bool) {
    let _ = s.set_nodelay(true);
    let mut replies = vec![];
    let mut timed_out = false;
    for st in steps {
        match st {
            AppStep::Write(b) => {
                if s.write_all(&b).await.is_err() {
                    break;
                }
                let _ = s.flush().await;
            }
            AppStep::PauseMs(ms) => tokio::time::sleep(Duration::from_millis(ms as u64)).await,
            AppStep::ReadExact(n) => {
                let mut buf = vec![0u8; n as usize];
                match tokio::time::timeout(STEP_DEADLINE, s.read_exact(&mut buf)).await {
                    Ok(Ok(_)) => replies.push(buf),
                    Ok(Err(_)) => {
                        replies.push(vec![]);
                        break;
                    }
                    Err(_) => {
                        timed_out = true;
                        break;
                    }
                }
            }
            AppStep::ReadSocksReply => {
                let mut head = [0u8; 4];
                let r = tokio::time::timeout(STEP_DEADLINE, async {
                    s.read_exact(&mut head).await?;
                    let n = match head[3] {
                        1 => 6,
                        4 => 18,
                        3 => {
                            let mut l = [0u8; 1];
                            s.read_exact(&mut l).await?;
                            let mut rest = vec![0u8; l[0] as usize + 2];
                            s.read_exact(&mut rest).await?;
                            let mut all = head.to_vec();
                            all.push(l[0]);
                            all.extend(rest);
                            return Ok::<Vec<u8>, std::io::Error>(all);
                        }
                        _ => 0,
                    };
                    let mut rest = vec![0u8; n];
                    s.read_exact(&mut rest).await?;
                    let mut all = head.to_vec();
                    all.extend(rest);
                    Ok(all)
                })
                .await;
                match r {
                    Ok(Ok(b)) => replies.push(b),
                    Ok(Err(_)) => {
                        replies.push(vec![]);
                        break;
                    }
                    Err(_) => {
                        timed_out = true;
                        break;
                    }
                }
            }
            AppStep::ReadUntil(pat) => {
                let mut acc = vec![];
                let r = tokio::time::timeout(STEP_DEADLINE, async {
                    let mut b = [0u8; 1];
                    loop {
                        match s.read(&mut b).await {
                            Ok(0) | Err(_) => return false,
                            Ok(_) => {
                                acc.push(b[0]);
                                if acc.ends_with(&pat) {
                                    return true;
                                }
                            }
                        }
                    }
                })
                .await;
                let ok = matches!(r, Ok(true));
                replies.push(acc);
                if r.is_err() {
                    timed_out = true;
                    break;
                }
                if !ok {
                    break;
                }
            }
            AppStep::ShutdownWrite => {
                let _ = s.shutdown().await;
            }
        }
    }
    let _ = s.shutdown().await;
    // whatever else the client says until it closes
    let mut rest = vec![];
    let _ = tokio::time::timeout(Duration::from_secs(6), s.read_to_end(&mut rest)).await;
    replies.push(rest);
    (replies, timed_out)
}

async fn run_async(steps: Vec<AppStep>) -> HsOutcome {
    let mut out = HsOutcome::default();
    let listener = TcpListener::bind("127.0.0.1:0").await.expect("bind");
    let addr = listener.local_addr().unwrap();
    let t0 = Instant::now();
    let app_task = tokio::spawn(async move {
        let s = TcpStream::connect(addr).await.expect("connect");
        app(s, steps).await
    });
    let (mut sock, _) = listener.accept().await.expect("accept");
    let hs = tokio::spawn(async move {
        let r = tokio::time::timeout(Duration::from_secs(5), get_request_addr(&mut sock)).await;
        match r {
            Ok(r) => {
                // what a tunnel would forward next: everything still readable until the application's EOF
                let mut leftover = vec![];
                if r.is_ok() {
                    let _ = tokio::time::timeout(Duration::from_secs(5), sock.read_to_end(&mut leftover)).await;
                }
                drop(sock);
                (Some(r.map_err(|e| e.to_string())), leftover, false)
            }
            Err(_) => {
                // still pending after 5 s: is anything left unread? (stall = no)
                let mut probe = [0u8; 1];
                let unread = matches!(tokio::time::timeout(Duration::from_millis(50), sock.peek(&mut probe)).await, Ok(Ok(n)) if n > 0);
                drop(sock);
                (None, vec![], !unread)
            }
        }
    });
    match hs.await {
        Ok((r, leftover, stalled)) => {
            out.result = r;
            out.leftover = leftover;
            out.stalled = stalled;
        }
        Err(e) => {
            if e.is_panic() {
                let p = e.into_panic();
                let msg = if let Some(s) = p.downcast_ref::<String>() { s.clone() } else if let Some(s) = p.downcast_ref::<&str>() { s.to_string() } else { "panic".into() };
                out.panic = Some(crate::rt::take_last_panic().unwrap_or(msg));
            }
        }
    }
    if let Ok((replies, to)) = app_task.await {
        out.replies = replies;
        out.app_read_timeout = to;
    }
    out.elapsed_ms = t0.elapsed().as_millis();
    out
}

thread_local! {
    static RT: tokio::runtime::Runtime = tokio::runtime::Builder::new_current_thread().enable_all().build().expect("runtime");
}

pub fn run_handshake(steps: Vec<AppStep>) -> HsOutcome {
    RT.with(|rt| rt.block_on(run_async(steps)))
}
