//! Shared generators. All randomness comes from proptest (or from a seed that proptest generated).
use crate::real::{Cred, Proto};
use crate::refimpl::ss::Legacy;
use crate::refimpl::ss2022::C22;
use crate::refimpl::{b64, Addr};
use proptest::prelude::*;
use proptest::strategy::BoxedStrategy;

pub const T0: u64 = 1_800_000_000;

/// Deterministic byte source derived from a seed (used for salts, nonces, paddings of the *reference* encoder so
/// that a case is a pure function of its serialized form).
pub struct Det(blake3::OutputReader);

impl Det {
    pub fn new(seed: u64, label: &str) -> Det {
        let mut h = blake3::Hasher::new();
        h.update(&seed.to_le_bytes());
        h.update(label.as_bytes());
        Det(h.finalize_xof())
    }
    pub fn bytes(&mut self, n: usize) -> Vec<u8> {
        let mut v = vec![0u8; n];
        self.0.fill(&mut v);
        v
    }
    pub fn arr<const N: usize>(&mut self) -> [u8; N] {
        let mut v = [0u8; N];
        self.0.fill(&mut v);
        v
    }
    pub fn u64(&mut self) -> u64 {
        u64::from_le_bytes(self.arr::<8>())
    }
    pub fn u8(&mut self) -> u8 {
        self.arr::<1>()[0]
    }
    pub fn below(&mut self, n: u64) -> u64 {
        if n == 0 {
            0
        } else {
            self.u64() % n
        }
    }
}

/// Position-dependent keystream: byte i of stream `tag` is a function of (tag, i) only, so loss, duplication and
/// reordering are visible from the bytes alone.
pub fn keystream(tag: u64, off: usize, len: usize) -> Vec<u8> {
    let mut h = blake3::Hasher::new();
    h.update(b"ovf-keystream");
    h.update(&tag.to_le_bytes());
    let mut r = h.finalize_xof();
    r.set_position(off as u64);
    let mut v = vec![0u8; len];
    r.fill(&mut v);
    v
}

/// Split a total stream of keystream `tag` into writes of the given lengths.
pub fn writes_from_lens(tag: u64, lens: &[u32]) -> Vec<Vec<u8>> {
    let mut off = 0usize;
    lens.iter()
        .map(|l| {
            let v = keystream(tag, off, *l as usize);
            off += *l as usize;
            v
        })
        .collect()
}

pub fn ldh_name(max: usize) -> BoxedStrategy<Vec<u8>> {
    // label chars; dots allowed inside
    prop_oneof![
        6 => proptest::string::string_regex("[a-z0-9]([a-z0-9.-]{0,30}[a-z0-9])?").unwrap().prop_map(|s| s.into_bytes()),
        2 => (prop_oneof![Just(1usize), Just(2), Just(63), Just(64), Just(253), Just(254), Just(255)], any::<u64>()).prop_map(|(n, s)| {
            let mut d = Det::new(s, "ldh");
            (0..n).map(|i| if i % 40 == 39 { b'.' } else { b"abcdefghijklmnopqrstuvwxyz0123456789"[d.below(36) as usize] }).collect::<Vec<u8>>()
        }),
    ]
    .prop_map(move |mut v| {
        v.truncate(max);
        v
    })
    .boxed()
}

pub fn utf8_name() -> BoxedStrategy<Vec<u8>> {
    proptest::string::string_regex("\\PC{1,40}").unwrap().prop_map(|s| {
        let mut b = s.into_bytes();
        while b.len() > 255 {
            // cut on a char boundary
            let mut e = 255;
            while std::str::from_utf8(&b[..e]).is_err() {
                e -= 1;
            }
            b.truncate(e);
        }
        b
    })
    .boxed()
}

/// Representable addresses (what a conforming peer can put on the wire and what the client can accept).
/// An IPv6 address drawn from a mixture that includes the forms with special meaning: unspecified, loopback,
/// IPv4-mapped, IPv4-compatible (upper 96 bits zero), NAT64, link-local, multicast, all ones - next to uniform ones.
pub fn v6_from(seed: u64) -> [u8; 16] {
    let mut d = Det::new(seed, "v6");
    let r: [u8; 16] = d.arr();
    let mut a = [0u8; 16];
    match seed % 12 {
        0 => {}
        1 => a[15] = 1,
        2 => {
            a[10] = 0xff;
            a[11] = 0xff;
            a[12..].copy_from_slice(&r[..4]);
        }
        3 => a[12..].copy_from_slice(&r[..4]),
        4 => {
            a[..4].copy_from_slice(&[0, 0x64, 0xff, 0x9b]);
            a[12..].copy_from_slice(&r[..4]);
        }
        5 => {
            a[0] = 0xfe;
            a[1] = 0x80;
            a[8..].copy_from_slice(&r[..8]);
        }
        6 => {
            a[0] = 0xff;
            a[1] = 0x02;
            a[15] = r[0];
        }
        7 => a = [0xff; 16],
        8 => a[14..].copy_from_slice(&r[..2]),
        _ => a = r,
    }
    a
}

/// An IPv4 address from a mixture with the special forms (unspecified, loopback, broadcast, private, multicast).
pub fn v4_from(seed: u64) -> [u8; 4] {
    let mut d = Det::new(seed, "v4");
    let r: [u8; 4] = d.arr();
    match seed % 10 {
        0 => [0, 0, 0, 0],
        1 => [127, 0, 0, 1],
        2 => [255, 255, 255, 255],
        3 => [10, r[1], r[2], r[3]],
        4 => [224, 0, 0, r[3]],
        5 => [0, 0, 0, r[3]],
        _ => r,
    }
}

pub fn addr_strategy() -> BoxedStrategy<Addr> {
    let port = prop_oneof![3 => any::<u16>(), 1 => Just(0u16), 1 => Just(80), 1 => Just(443), 1 => Just(65535)];
    prop_oneof![
        3 => (any::<u64>(), port.clone()).prop_map(|(a, p)| Addr::V4(v4_from(a), p)),
        2 => (any::<u64>(), port.clone()).prop_map(|(a, p)| Addr::V6(v6_from(a), p)),
        4 => (ldh_name(255), port.clone()).prop_map(|(n, p)| Addr::Name(n, p)),
        1 => (utf8_name(), port).prop_map(|(n, p)| Addr::Name(n, p)),
    ]
    .boxed()
}

fn password_strategy() -> BoxedStrategy<String> {
    prop_oneof![
        4 => proptest::string::string_regex("[ -~]{1,40}").unwrap(),
        1 => proptest::string::string_regex("\\PC{1,20}").unwrap(),
        1 => proptest::string::string_regex("[A-Za-z0-9+/]{22}==").unwrap(),
        1 => proptest::string::string_regex("[a-z]{60,120}").unwrap(),
    ]
    .boxed()
}

pub fn uuid_string(seed: u64) -> String {
    let mut d = Det::new(seed, "uuid");
    let b: [u8; 16] = d.arr();
    uuid::Uuid::from_bytes(b).hyphenated().to_string()
}

/// A credential set for `proto`. For Shadowsocks-2022 AES ciphers `n_users` > 0 creates a user table
/// (server password = iPSK, client password = "iPSK:uPSK_user"). `user` selects which user the client is.
pub fn make_cred(proto: Proto, password: &str, seed: u64, n_users: usize, user: usize) -> Cred {
    let mut d = Det::new(seed, "cred");
    match proto {
        Proto::SsLegacy(_) | Proto::Trojan => Cred { proto, password: password.to_string(), client_password: None, users: vec![] },
        Proto::Ss22(c) => {
            let kl = c.key_len();
            let psk = b64(&d.bytes(kl));
            if c.is_aes() && n_users > 0 {
                let users: Vec<(String, String)> = (0..n_users).map(|i| (format!("user{}", i), b64(&d.bytes(kl)))).collect();
                let u = user % n_users;
                Cred { proto, password: psk.clone(), client_password: Some(format!("{}:{}", psk, users[u].1)), users }
            } else {
                Cred { proto, password: psk, client_password: None, users: vec![] }
            }
        }
        Proto::Vmess(_) => {
            let n = n_users.max(1);
            let users: Vec<(String, String)> = (0..n).map(|i| (format!("user{}", i), uuid_string(d.u64()))).collect();
            let u = user % n;
            Cred { proto, password: users[0].1.clone(), client_password: Some(users[u].1.clone()), users }
        }
    }
}

pub fn proto_strategy() -> BoxedStrategy<Proto> {
    proptest::sample::select(Proto::all()).boxed()
}

#[derive(Clone, Debug)]
pub struct CredGen {
    pub cred: Cred,
    pub user: usize,
}

pub fn cred_for(proto: Proto) -> BoxedStrategy<CredGen> {
    (password_strategy(), any::<u64>(), 0usize..4, 0usize..8)
        .prop_map(move |(pw, seed, n_users, user)| {
            let cred = make_cred(proto, &pw, seed, n_users, user);
            let n = cred.users.len().max(1);
            CredGen { cred, user: user % n }
        })
        .boxed()
}

pub fn cred_strategy() -> BoxedStrategy<CredGen> {
    proto_strategy().prop_flat_map(cred_for).boxed()
}

/// Write-length scripts with protocol edge sizes.
pub fn write_lens(max_writes: usize, big: bool) -> BoxedStrategy<Vec<u32>> {
    let one = if big {
        prop_oneof![
            4 => 0u32..64,
            3 => 64u32..3000,
            2 => proptest::sample::select(vec![1u32, 2, 15, 16, 17, 1957, 1958, 1959, 2013, 2014, 2015, 2030, 2031, 2046, 2047, 2048, 2049, 8191, 8192, 8193]),
            2 => proptest::sample::select(vec![16348u32, 16349, 16350, 16383, 16384, 16385, 0x3FFF, 0x4000, 0x4001, 32768, 65500, 65501, 65502, 65535, 65536, 65537]),
            1 => 3000u32..70000,
            1 => 70000u32..200_000,
        ]
        .boxed()
    } else {
        prop_oneof![4 => 0u32..64, 3 => 64u32..3000, 1 => proptest::sample::select(vec![1u32, 2, 16, 17, 2047, 2048, 2049, 8192])].boxed()
    };
    proptest::collection::vec(one, 0..=max_writes).boxed()
}

pub fn legacy_of(p: Proto) -> Option<Legacy> {
    if let Proto::SsLegacy(l) = p {
        Some(l)
    } else {
        None
    }
}

pub fn c22_of(p: Proto) -> Option<C22> {
    if let Proto::Ss22(c) = p {
        Some(c)
    } else {
        None
    }
}

pub fn size_class(n: usize) -> &'static str {
    match n {
        0 => "0",
        1..=16 => "1-16",
        17..=2047 => "17-2k",
        2048..=16383 => "2k-16k",
        16384..=65535 => "16k-64k",
        _ => ">64k",
    }
}
