#!/usr/bin/env python3
"""dev helper: pin.py <replay.json> <short-name> <commit> <what failed>  -> regress/<ID>/fixed-<name>.json + fixed: entry in known_findings.json"""
import json, sys, os
rp, name, commit, what = sys.argv[1:5]
r = json.load(open(rp))
pid = r['property']
r['expect'] = 'pass'
os.makedirs(f'/verif/regress/{pid}', exist_ok=True)
dst = f'regress/{pid}/fixed-{name}.json'
json.dump(r, open('/verif/' + dst, 'w'), indent=2, sort_keys=True)
k = json.load(open('/verif/known_findings.json'))
n = max(int(f['id'][1:]) for f in k['findings']) + 1
k['findings'].append({"property": pid, "id": f"F{n}", "status": "fixed", "commit": commit, "witness": dst,
                      "what": f"fixed: property={pid} {commit} {what}"})
json.dump(k, open('/verif/known_findings.json', 'w'), indent=1)
print("pinned", dst, f"F{n}")
