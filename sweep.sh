#!/bin/bash
# dev helper: run the quick check of each seeded change's property against that change (in a scratch copy, see seedtest.sh).
#   ST=/tmp/st1 ./sweep.sh C03 C04 ...     -> one SEEDTEST line per seeded/<ID>-*/patch.diff
set -u
cd /verif
for ID in "$@"; do
    for d in seeded/$ID-*/; do
        [ -f "$d/patch.diff" ] || continue
        ./seedtest.sh "$ID:$d/patch.diff" 2>&1 | grep "^SEEDTEST"
    done
done
