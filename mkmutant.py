#!/usr/bin/env python3
"""mkmutant.py <name> <file under /repo> <<< 'OLD\n=====\nNEW'  -> writes /verif/mutants/<name>.patch (repo left clean)"""
import sys, subprocess
name, path = sys.argv[1], sys.argv[2]
old, new = sys.stdin.read().split('\n=====\n')
new = new.rstrip('\n') if not old.endswith('\n') else new
full = '/repo/' + path
s = open(full).read()
old = old.rstrip('\n'); new = new.rstrip('\n')
assert old in s, "OLD text not found in " + path
open(full, 'w').write(s.replace(old, new, 1))
d = subprocess.run(['git', 'diff'], capture_output=True, text=True, cwd='/repo').stdout
open('/verif/mutants/' + name + '.patch', 'w').write(d)
subprocess.run(['git', 'checkout', '--', '.'], cwd='/repo')
print("wrote", name, len(d))
