#!/bin/bash
# dev helper: (re)generate the committed seed corpus of one fuzz target.
#   ./fuzzcorpus.sh <ID> <sub|raw> [runs-per-worker] [keep]
# Runs 8 libFuzzer workers from the current committed corpus (or empty), merges what they found into a minimal covering
# set (-merge=1) and keeps at most <keep> of the smallest files in /verif/corpus/<ID>-<sub>/.
set -u
ID="$1"; SUB="$2"; RUNS="${3:-40000}"; KEEP="${4:-120}"
V=/verif
BIN=$V/target/fuzz/x86_64-unknown-linux-gnu/release/fz_sub
[ "$SUB" = "raw" ] && BIN=$V/target/fuzz/x86_64-unknown-linux-gnu/release/fz_raw
W=$V/work/corpusgen/$ID-$SUB
rm -rf "$W"; mkdir -p "$W/c" "$W/m" "$W/a"
[ -d "$V/corpus/$ID-$SUB" ] && cp "$V/corpus/$ID-$SUB"/* "$W/c/" 2>/dev/null
export ASAN_OPTIONS=detect_leaks=0 OVF_FUZZ_SUB="$ID/$SUB" OVF_FUZZ_TIER=thorough VERIF_ROOT=$V OVF_FUZZ_RAW_ORACLE=$(echo $ID | tr A-Z a-z)
for j in 1 2 3 4 5 6 7 8; do
  "$BIN" "$W/c" -runs=$RUNS -seed=$((7000+j)) -max_len=2048 -len_control=0 -detect_leaks=0 -timeout=120 -reload=1 -artifact_prefix="$W/a/" >/dev/null 2>"$W/w$j.log" &
done
wait
"$BIN" -merge=1 "$W/m" "$W/c" -detect_leaks=0 -artifact_prefix="$W/a/" >/dev/null 2>"$W/merge.log"
mkdir -p "$V/corpus/$ID-$SUB"; rm -f "$V/corpus/$ID-$SUB"/*
ls -Sr "$W/m" | head -n "$KEEP" | while read f; do cp "$W/m/$f" "$V/corpus/$ID-$SUB/$f"; done
echo "$ID-$SUB: campaign corpus $(ls $W/c | wc -l) files, merged $(ls $W/m | wc -l), kept $(ls $V/corpus/$ID-$SUB | wc -l) ($(du -sk $V/corpus/$ID-$SUB | cut -f1) KiB), artifacts: $(ls $W/a | wc -l)"
rm -rf "$W/c" "$W/m"
