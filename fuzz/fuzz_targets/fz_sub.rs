//! Generic coverage-guided target: the fuzzer's bytes are the random stream of one sub-check's own proptest strategy
//! (proptest PassThrough), the decoded case is executed by that sub-check and judged by its oracle.
//!   OVF_FUZZ_SUB=<ID>/<sub-check>   which sub-check (e.g. C07/raw-bytes)
//!   OVF_FUZZ_TIER=quick|thorough    generator sizes (default thorough)
//!   OVF_FUZZ_STATS=<dir>            a <pid>.json with counters is written there at exit
#![no_main]
use libfuzzer_sys::fuzz_target;
use ovf::ev::Tier;
use ovf::rt::{DynSub, FuzzRun};
use std::collections::{BTreeMap, HashSet};
use std::sync::{Mutex, OnceLock};

/// libFuzzer calls the target from one thread only; the strategy inside is not Sync.
struct Fz(Box<dyn Fn(&[u8], bool) -> Option<FuzzRun> + 'static>);
unsafe impl Send for Fz {}
unsafe impl Sync for Fz {}

struct Stats {
    execs: u64,
    decoded: u64,
    nontrivial: HashSet<String>,
    labels: BTreeMap<String, u64>,
    samples: Vec<serde_json::Value>,
    fail: Option<serde_json::Value>,
}

static FZ: OnceLock<Fz> = OnceLock::new();
static STATS: Mutex<Option<Stats>> = Mutex::new(None);

extern "C" fn write_stats() {
    let Ok(dir) = std::env::var("OVF_FUZZ_STATS") else { return };
    let Ok(g) = STATS.lock() else { return };
    let Some(s) = g.as_ref() else { return };
    let _ = std::fs::create_dir_all(&dir);
    let mut nt: Vec<&String> = s.nontrivial.iter().collect();
    nt.sort();
    let v = serde_json::json!({
        "execs": s.execs, "decoded": s.decoded, "nontrivial": nt, "labels": s.labels, "samples": s.samples, "fail": s.fail,
    });
    let _ = std::fs::write(format!("{}/{}.json", dir, std::process::id()), v.to_string());
}

fn init() -> Fz {
    std::env::set_var("RUST_BACKTRACE", "0");
    std::env::set_var("RUST_LIB_BACKTRACE", "0");
    let spec = std::env::var("OVF_FUZZ_SUB").expect("OVF_FUZZ_SUB=<ID>/<sub>");
    let (id, sub) = spec.split_once('/').expect("OVF_FUZZ_SUB=<ID>/<sub>");
    let tier = match std::env::var("OVF_FUZZ_TIER").as_deref() {
        Ok("quick") => Tier::Quick,
        _ => Tier::Thorough,
    };
    ovf::rt::install_panic_hook();
    ovf::refimpl::self_test();
    let reg = ovf::props::registry();
    let prop = reg.iter().find(|p| p.id == id).unwrap_or_else(|| panic!("unknown property {}", id));
    let subs: &'static Vec<Box<dyn DynSub>> = Box::leak(Box::new((prop.subs)()));
    let s: &'static Box<dyn DynSub> = subs.iter().find(|s| s.name() == sub).unwrap_or_else(|| panic!("unknown sub-check {}", sub));
    *STATS.lock().unwrap() = Some(Stats { execs: 0, decoded: 0, nontrivial: HashSet::new(), labels: BTreeMap::new(), samples: vec![], fail: None });
    unsafe {
        libc::atexit(write_stats);
    }
    let f = s.byte_fuzzer(tier);
    // the closure only captures the leaked sub-check and its strategy
    Fz(f)
}

fuzz_target!(|data: &[u8]| {
    let fz = FZ.get_or_init(init);
    let want = {
        let g = STATS.lock().unwrap();
        g.as_ref().map(|s| s.samples.len() < 3 && s.execs % 1000 == 17).unwrap_or(false)
    };
    let r = (fz.0)(data, want);
    let mut g = STATS.lock().unwrap();
    let st = g.as_mut().unwrap();
    st.execs += 1;
    let Some(run) = r else { return };
    st.decoded += 1;
    for l in &run.out.labels {
        *st.labels.entry(l.clone()).or_default() += 1;
    }
    if let Some(fp) = &run.out.nontrivial {
        if st.nontrivial.len() < 200_000 {
            st.nontrivial.insert(fp.clone());
        }
    }
    if want {
        if let Some(c) = &run.case {
            st.samples.push(serde_json::json!({"case": c, "nontrivial": run.out.nontrivial}));
        }
    }
    if let Some(f) = &run.out.fail {
        st.fail = Some(serde_json::json!({"sig": f.sig, "msg": f.msg, "case": run.case}));
        drop(g);
        eprintln!("OVF-FUZZ-FAIL sig={} msg={}", f.sig, ovf::ev::truncate(&f.msg, 600));
        write_stats();
        std::process::abort();
    }
});
