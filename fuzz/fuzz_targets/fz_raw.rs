//! Direct byte-level target (no generator in between, so libFuzzer's compare tracing sees the decoders' own comparisons):
//! byte 0 selects the decoder, byte 1 the credential / cipher, byte 2 flags (EOF, user table), bytes 3..6 cut positions, the rest
//! is the raw network input. Oracles: C07 (no panic, valid UTF-8 names, decoding ends) and, for the server inbound decoders,
//! C06 (input that was made without the credential never yields a dial / relay item).
#![no_main]
use libfuzzer_sys::fuzz_target;
use std::sync::Once;

static INIT: Once = Once::new();

extern "C" fn write_stats() {
    ovf::props::c07::raw_fuzz_write_stats();
}

fuzz_target!(|data: &[u8]| {
    INIT.call_once(|| {
        std::env::set_var("RUST_BACKTRACE", "0");
        std::env::set_var("RUST_LIB_BACKTRACE", "0");
        ovf::rt::install_panic_hook();
        ovf::refimpl::self_test();
        unsafe {
            libc::atexit(write_stats);
        }
    });
    if let Some(f) = ovf::props::c07::raw_fuzz_entry(data) {
        eprintln!("OVF-FUZZ-FAIL sig={} msg={}", f.sig, ovf::ev::truncate(&f.msg, 600));
        write_stats();
        std::process::abort();
    }
});
