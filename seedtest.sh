#!/bin/bash
# dev helper: run checks against breaking patches in a scratch copy (never in /repo or /verif), so that it can run
# while /verif is being edited.
#   ./seedtest.sh <ID>:<patch-file> [<ID>:<patch-file> ...]      (tier from $TIER, default quick)
# Layout: /tmp/st/repo = detached worktree of /repo HEAD, /tmp/st/verif = copy of the /verif working tree.
# Prints one line per patch: DETECTED (exit 1 + VIOLATION line) / MISSED (exit 0) / INCONCLUSIVE (other).
set -u
ST="${ST:-/tmp/st}"
TIER="${TIER:-quick}"
mkdir -p $ST
HEAD=$(git -C /repo rev-parse HEAD)
if [ ! -d $ST/repo ]; then
    git -C /repo worktree add --detach $ST/repo "$HEAD" >/dev/null 2>&1 || { echo "cannot create worktree"; exit 2; }
else
    (cd $ST/repo && git checkout -q -- . && git checkout -q --detach "$HEAD") || exit 2
fi
cp /repo/Cargo.lock $ST/repo/Cargo.lock 2>/dev/null
rsync -a --delete --exclude target --exclude work --exclude replays --exclude .git --exclude seeded --exclude evidence /verif/ $ST/verif/
mkdir -p $ST/verif/evidence
for spec in "$@"; do
    ID="${spec%%:*}"; P="${spec#*:}"
    case "$P" in /*) ;; *) P="/verif/$P";; esac
    (cd $ST/repo && git checkout -q -- .)
    # "<ID>:-" = no patch: the unchanged tree (silence runs; MISSED is the wanted outcome there)
    if [ "$P" != "/verif/-" ]; then
        if ! (cd $ST/repo && git apply "$P" 2>/dev/null); then echo "SEEDTEST $ID $P => PATCH-DOES-NOT-APPLY"; continue; fi
    fi
    OUT=$(cd $ST/verif && VERIF_REPO=$ST/repo ./run.sh "$ID" "$TIER" 2>&1); RC=$?
    (cd $ST/repo && git checkout -q -- .)
    V=$(echo "$OUT" | grep -A1 "^VIOLATION" | grep "sub=" | head -1 | cut -c1-260)
    if [ $RC -eq 1 ] && echo "$OUT" | grep -q "^VIOLATION"; then R="DETECTED"; elif [ $RC -eq 0 ]; then R="MISSED"; else R="INCONCLUSIVE(rc=$RC) $(echo "$OUT" | tail -3 | tr '\n' ' ' | cut -c1-300)"; fi
    echo "SEEDTEST $ID $P seed=${VERIF_SEED:-0} => $R $V"
done
