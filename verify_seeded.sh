#!/bin/bash
# dev helper: confirm a sub-agent's seeded change in its scratch worktree, then keep it under /verif/seeded/.
#   ./verify_seeded.sh <ID>        (worktree /tmp/wt-<ID>, deliverables /tmp/wt-<ID>/_seeded/{a,b})
# Confirms: patch applies, workspace builds, the 36 existing tests pass with it, the demo fails with it and passes without.
set -u
ID="$1"
WT="${WTP:-/tmp/wt-}$ID"
export CARGO_NET_OFFLINE=true
export CARGO_TARGET_DIR="$WT/target"
cd "$WT" || exit 2
[ -f Cargo.lock ] || cp /repo/Cargo.lock Cargo.lock
for v in a b c; do
    S="$WT/_seeded/$v"
    [ -f "$S/patch.diff" ] || continue
    OUT="/verif/seeded/$ID-${TAG:-}$v"
    LOG="/tmp/verify-$ID-${TAG:-}$v.log"
    : >"$LOG"
    git checkout -q -- . 2>/dev/null
    RUN="$S/demo/run.sh"
    chmod +x "$RUN" 2>/dev/null
    echo "== $ID-$v: demo at HEAD" >>"$LOG"
    (cd "$WT" && timeout 1500 "$RUN") >>"$LOG" 2>&1; RC_HEAD=$?
    git checkout -q -- . 2>/dev/null
    if ! git apply "$S/patch.diff" 2>>"$LOG"; then echo "$ID-$v: patch does not apply"; continue; fi
    echo "== $ID-$v: existing tests with patch" >>"$LOG"
    cargo test --workspace --no-fail-fast --offline >>"$LOG" 2>&1; RC_TESTS=$?
    NPASS=$(grep -E "^test result: ok" "$LOG" | sed -E 's/.* ([0-9]+) passed.*/\1/' | paste -sd+ | bc)
    echo "== $ID-$v: demo with patch" >>"$LOG"
    (cd "$WT" && timeout 1500 "$RUN") >>"$LOG" 2>&1; RC_PATCH=$?
    git checkout -q -- . 2>/dev/null
    git clean -fdq -e _seeded -e target -e Cargo.lock 2>/dev/null
    VERDICT="REJECT"
    if [ $RC_HEAD -eq 0 ] && [ $RC_TESTS -eq 0 ] && [ $RC_PATCH -ne 0 ] && [ $RC_PATCH -ne 124 ]; then VERDICT="KEEP"; fi
    echo "$ID-${TAG:-}$v: demo@HEAD rc=$RC_HEAD tests-with-patch rc=$RC_TESTS (passed=$NPASS) demo-with-patch rc=$RC_PATCH => $VERDICT"
    if [ "$VERDICT" = "KEEP" ]; then
        mkdir -p "$OUT"
        cp "$S/patch.diff" "$OUT/patch.diff"
        rm -rf "$OUT/demo"; cp -r "$S/demo" "$OUT/demo"
        find "$OUT/demo" -name target -type d -prune -exec rm -rf {} + 2>/dev/null
        python3 - "$S/meta.json" "$OUT/meta.json" "$ID" "$RC_HEAD" "$RC_TESTS" "$RC_PATCH" "$NPASS" <<'PY'
import json,sys
src,dst,pid,rh,rt,rp,npass=sys.argv[1:8]
try: m=json.load(open(src))
except Exception: m={}
m['property']=pid
m['confirmed_by_me']={"worktree":"scratch git worktree of /repo under /tmp (removed afterwards)",
  "ran":["demo/run.sh at HEAD -> exit %s"%rh,"git apply patch.diff; cargo test --workspace --no-fail-fast --offline -> exit %s, %s tests passed"%(rt,npass),"demo/run.sh with the patch -> exit %s"%rp]}
json.dump(m,open(dst,'w'),indent=1)
PY
    fi
done
