#!/bin/bash
# dev helper: build harness and show errors
cd /verif/harness && RUSTFLAGS="--cfg octo_squirrel_verif" CARGO_NET_OFFLINE=true cargo build --release --offline --target-dir /verif/target/hooks-on 2>&1 | grep -E '^(error|warning: unused)' -A 14 | head -${1:-120}
